#!/usr/bin/env python3
"""Development-time, agent-independent detection test: a small syntactic mutation sweep over the files the properties are
anchored in. Every mutant is one token-level edit of one source line (comparison operators, boolean connectives, +/- 1,
small integer literals, byte order, boolean literals). Per mutant, in a scratch git worktree of /repo (never /repo itself):

  1. the library must still compile,
  2. the repository's own suite must still pass (otherwise the mutant is not interesting: the tests notice it),
  3. a scratch copy of the harness is built against the mutated worktree and the quick checks of every property that is
     anchored in the mutated file are run; the mutant is "caught" if one of them exits 1 with a VIOLATION line.

Survivors of step 2 that no check catches are listed in seeded/MUTSWEEP.json for manual triage: each is either an
equivalent mutant (no observable change), a change outside every property, or a gap.

  ./mutsweep.py [-j N] [--max-per-file K] [--files f1,f2,...]
"""
import json, os, queue, re, shutil, subprocess, sys, threading, time

ROOT = os.path.dirname(os.path.abspath(__file__))
ENV = dict(os.environ, CARGO_NET_OFFLINE="true")
OUT = os.path.join(ROOT, "seeded", "MUTSWEEP.json")

OPS = [
    (r"<=", "<"), (r">=", ">"), (r"(?<= )<(?= )", "<="), (r"(?<= )>(?= )", ">="),
    (r"==", "!="), (r"!=", "=="), (r"&&", "||"), (r"\|\|", "&&"),
    (r"\+ 1\b", "+ 2"), (r"- 1\b", "- 2"), (r"\+ 1\b", ""), (r"- 1\b", ""),
    (r"\btrue\b", "false"), (r"\bfalse\b", "true"),
    (r"to_le_bytes", "to_be_bytes"), (r"to_be_bytes", "to_le_bytes"), (r"LittleEndian", "BigEndian"), (r"BigEndian", "LittleEndian"),
    (r"from_le_slice", "from_be_slice"), (r"from_be_slice", "from_le_slice"),
    (r"\b0x([0-9a-fA-F]{2,8})\b", "HEXPLUS1"), (r"(?<![\w.])([1-9][0-9]{0,4})\b(?![\w.])", "DECPLUS1"),
    (r"\.\.=", ".."), (r"(?<![.=])\.\.(?![.=])(?=[\w(])", "..="), (r"\.min\(", ".max("), (r"\.max\(", ".min("), (r"\[0\]", "[1]"), (r"\[1\]", "[0]"),
    (r"\.rev\(\)", ""), (r"\bis_some\(\)", "is_none()"), (r"\bis_none\(\)", "is_some()"), (r"\bis_empty\(\)", "len() == 1"),
]


def sh(cmd, cwd=None, timeout=3600, env=None):
    return subprocess.run(cmd, shell=True, cwd=cwd, env=env or ENV, stdout=subprocess.PIPE, stderr=subprocess.STDOUT, text=True, timeout=timeout)


def file_props():
    m = {}
    for l in open(os.path.join(ROOT, "properties.jsonl")):
        p = json.loads(l)
        for f in p["anchors"]["files"]:
            m.setdefault(f, []).append(p["id"])
    # helpers the anchored code calls
    extra = {"src/keypair/private_key.rs": ["C07", "C05", "C11", "C12", "C08"], "src/keypair/public_key.rs": ["C07", "C09", "C11", "C12", "C08", "C19"], "src/script/mod.rs": ["C02", "C17", "C10", "C14"], "src/script/op_codes.rs": ["C02", "C14", "C17", "C18"], "src/signature/mod.rs": ["C06", "C12", "C19"], "src/transaction/sighash.rs": ["C03", "C04", "C10", "C15", "C06"],
             "src/traits/varint.rs": ["C01", "C02", "C03", "C10", "C12", "C17"], "src/utils/mod.rs": ["C18", "C09"], "src/hash/digest_utils.rs": ["C05", "C13"], "src/chainparams/mod.rs": ["C07"], "src/encryption/mod.rs": ["C20", "C11"], "src/keypair/public_key.rs": ["C07", "C09"], "src/keypair/private_key.rs": ["C07", "C05"]}
    for f, ps in extra.items():
        for p in ps:
            if p not in m.setdefault(f, []):
                m[f].append(p)
    return m


def candidates(files, max_per_file):
    out = []
    for f in files:
        path = os.path.join("/repo", f)
        if not os.path.exists(path):
            continue
        lines = open(path).read().split("\n")
        per = []
        in_test = False
        for i, line in enumerate(lines):
            st = line.strip()
            if st.startswith("#[cfg(test)]"):
                in_test = True
            if in_test or st.startswith("//") or st.startswith("*") or st.startswith("/*") or st.startswith("#[") or st.startswith("use ") or "println!" in st or "format!" in st or "wasm_bindgen" in st or "verif" in st:
                continue
            code = line.split("//")[0]
            for oi, (pat, rep) in enumerate(OPS):
                for mt in re.finditer(pat, code):
                    if rep == "HEXPLUS1":
                        v = int(mt.group(1), 16) + 1
                        new = "0x%x" % v
                    elif rep == "DECPLUS1":
                        new = str(int(mt.group(1)) + 1)
                    else:
                        new = rep
                    mutated = line[: mt.start()] + new + line[mt.end():]
                    if mutated != line:
                        per.append({"file": f, "line": i + 1, "op": oi, "col": mt.start(), "old": line.strip()[:160], "new": mutated.strip()[:160], "text": mutated})
        # deterministic thinning: keep every k-th candidate
        if max_per_file and len(per) > max_per_file:
            step = len(per) / float(max_per_file)
            per = [per[int(k * step)] for k in range(max_per_file)]
        out.extend(per)
    return out


def worker(slot, q, results, lock, fmap):
    tag = "%d_%d" % (os.getpid(), slot)
    wt, hd, td, ltd = "/tmp/ms_wt_%s" % tag, "/tmp/ms_h_%s" % tag, "/tmp/ms_t_%s" % tag, "/tmp/ms_lt_%s" % tag
    sh("git -C /repo worktree remove --force %s" % wt)
    if sh("git -C /repo worktree add -q --detach %s HEAD" % wt).returncode != 0:
        return
    shutil.copy("/repo/Cargo.lock", os.path.join(wt, "Cargo.lock"))
    shutil.rmtree(hd, ignore_errors=True)
    os.makedirs(hd)
    sh("rsync -a --exclude target %s/harness/ %s/" % (ROOT, hd))
    ct = open(os.path.join(hd, "Cargo.toml")).read().replace('path = "/repo"', 'path = "%s"' % wt)
    open(os.path.join(hd, "Cargo.toml"), "w").write(ct)
    henv = dict(ENV, CARGO_TARGET_DIR=td)
    lenv = dict(ENV, CARGO_TARGET_DIR=ltd)
    try:
        while True:
            try:
                m = q.get_nowait()
            except queue.Empty:
                break
            row = {k: m[k] for k in ("file", "line", "op", "old", "new")}
            path = os.path.join(wt, m["file"])
            sh("git checkout -q -- .", cwd=wt)
            lines = open(path).read().split("\n")
            lines[m["line"] - 1] = m["text"]
            open(path, "w").write("\n".join(lines))
            b = sh("cargo build --offline --quiet 2>&1 | tail -3", cwd=wt, env=lenv)
            if "error" in b.stdout:
                row["status"] = "does-not-compile"
            else:
                t = sh("cargo nextest run --offline -E 'not test(encode_pushdata_4_test)' 2>&1 | tail -4", cwd=wt, env=lenv)
                if "157 passed" not in t.stdout:
                    row["status"] = "killed-by-suite"
                else:
                    hb = sh("cargo build --offline --quiet 2>&1 | tail -5", cwd=hd, env=henv)
                    binp = os.path.join(td, "debug", "bsvmc")
                    if "error" in hb.stdout or not os.path.exists(binp):
                        row["status"] = "harness-build-failed"
                        row["detail"] = hb.stdout[-300:]
                    else:
                        row["status"] = "survives-suite"
                        row["checks"] = {}
                        for p in fmap.get(m["file"], []):
                            c = sh("%s run %s --tier quick --evidence /tmp/ms_ev_%s.json --findings %s/known_findings.json --replays /tmp/ms_rp_%s" % (binp, p, tag, ROOT, tag), cwd=ROOT)
                            keys = [l.strip()[4:].split(" cases=")[0] for l in c.stdout.splitlines() if l.strip().startswith("key=")]
                            row["checks"][p] = {"exit": c.returncode, "keys": keys[:3]}
                            if c.returncode == 1 and "VIOLATION property=%s" % p in c.stdout:
                                row["caught_by"] = p
                                break
                        if "caught_by" not in row:
                            row["status"] = "NOT-CAUGHT"
            with lock:
                results.append(row)
                print("%-34s:%-4d op%-2d %-18s %s | %s -> %s" % (m["file"], m["line"], m["op"], row["status"], row.get("caught_by", ""), m["old"][:50], m["new"][:50]), flush=True)
                json.dump(results, open(OUT + ".partial", "w"), indent=1)
    finally:
        sh("git -C /repo worktree remove --force %s" % wt)
        for p in (hd, td, ltd, "/tmp/ms_rp_%s" % tag):
            shutil.rmtree(p, ignore_errors=True)


def main():
    args = sys.argv[1:]
    j, mpf, files = 4, 12, None
    i = 0
    while i < len(args):
        if args[i] == "-j":
            j = int(args[i + 1]); i += 2
        elif args[i] == "--max-per-file":
            mpf = int(args[i + 1]); i += 2
        elif args[i] == "--files":
            files = args[i + 1].split(","); i += 2
        else:
            i += 1
    fmap = file_props()
    files = files or sorted(fmap)
    cands = candidates(files, mpf)
    if os.path.exists(OUT):
        seen0 = {(r["file"], r["line"], r["op"], r["new"]) for r in json.load(open(OUT))}
        # operator indices shifted when operators were added: compare on (file, line, new text) only
        seen1 = {(a, b, d) for (a, b, c, d) in seen0}
        cands = [c for c in cands if (c["file"], c["line"], c["new"]) not in seen1]
    print("%d mutants over %d files" % (len(cands), len(files)), flush=True)
    q = queue.Queue()
    for c in cands:
        q.put(c)
    results, lock = [], threading.Lock()
    ts = [threading.Thread(target=worker, args=(k, q, results, lock, fmap)) for k in range(j)]
    for t in ts:
        t.start()
    for t in ts:
        t.join()
    old = json.load(open(OUT)) if os.path.exists(OUT) else []
    seen = {(r["file"], r["line"], r["op"], r["new"]) for r in results}
    merged = [r for r in old if (r["file"], r["line"], r["op"], r["new"]) not in seen] + results
    json.dump(merged, open(OUT, "w"), indent=1)
    from collections import Counter
    print(Counter(r["status"] for r in results))


main()
