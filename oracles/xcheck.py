#!/usr/bin/env python3
"""Cross-check the harness's reference primitives against independent
implementations that ship with the sandbox: Python hashlib (OpenSSL) for the
hashes / HMAC / PBKDF2 and the `openssl enc` CLI for AES. Reads `bsvmc refdump`.
Exit 0 = all lines agree."""
import hashlib, hmac, subprocess, sys

def h(name, data):
    if name == "sha256d":
        return hashlib.sha256(hashlib.sha256(data).digest()).digest()
    if name == "hash160":
        return hashlib.new("ripemd160", hashlib.sha256(data).digest()).digest()
    return hashlib.new(name, data).digest()

def openssl(mode, key, iv, data, decrypt=False, nopad=False):
    cmd = ["openssl", "enc", "-" + mode, "-K", key.hex(), "-iv", iv.hex()]
    if decrypt:
        cmd.append("-d")
    if nopad:
        cmd.append("-nopad")
    p = subprocess.run(cmd, input=data, stdout=subprocess.PIPE, stderr=subprocess.PIPE)
    if p.returncode != 0:
        return None
    return p.stdout

def main():
    binp = sys.argv[1]
    out = subprocess.run([binp, "refdump"], stdout=subprocess.PIPE, text=True, check=True).stdout
    n = bad = 0
    for line in out.splitlines():
        f = ["" if x == "-" else x for x in line.split(" ")]
        kind = f[0]
        n += 1
        try:
            if kind.startswith("hmac-"):
                want = hmac.new(bytes.fromhex(f[1]), bytes.fromhex(f[2]), kind[5:]).digest()
                got = bytes.fromhex(f[3])
            elif kind.startswith("pbkdf2-"):
                want = hashlib.pbkdf2_hmac(kind[7:], bytes.fromhex(f[1]), bytes.fromhex(f[2]), int(f[3]), int(f[4])) if int(f[4]) > 0 else b""
                got = bytes.fromhex(f[5])
            elif kind.startswith("aes-"):
                # aes-128-cbc <key> <iv> <plaintext> <ciphertext>
                want = openssl(kind, bytes.fromhex(f[1]), bytes.fromhex(f[2]), bytes.fromhex(f[3]))
                got = bytes.fromhex(f[4])
            else:
                want = h(kind, bytes.fromhex(f[1]))
                got = bytes.fromhex(f[2])
        except Exception as e:
            print("xcheck: cannot evaluate line %r: %s" % (line[:80], e))
            bad += 1
            continue
        if want != got:
            print("xcheck MISMATCH %s: reference %s independent %s" % (line[:100], got.hex()[:64], (want or b'').hex()[:64]))
            bad += 1
    print("xcheck: %d reference outputs compared with hashlib/openssl, %d mismatches" % (n, bad))
    sys.exit(1 if bad or n == 0 else 0)

main()
