//! known_findings.json: committed, read-only at run time.
use serde::Deserialize;

#[derive(Deserialize, Clone, Debug)]
pub struct Finding {
    pub property: String,
    pub key: String,
    pub status: String,
    #[serde(default)]
    pub what: String,
    #[serde(default)]
    pub example: serde_json::Value,
    #[serde(default)]
    pub commit: Option<String>,
}

#[derive(Deserialize, Default)]
pub struct FindingsFile {
    #[serde(default)]
    pub findings: Vec<Finding>,
}

pub fn load(path: &str) -> Result<Vec<Finding>, String> {
    match std::fs::read_to_string(path) {
        Ok(s) => {
            let f: FindingsFile = serde_json::from_str(&s).map_err(|e| format!("known findings file {} does not parse: {}", path, e))?;
            Ok(f.findings)
        }
        Err(e) if e.kind() == std::io::ErrorKind::NotFound => Ok(vec![]),
        Err(e) => Err(format!("cannot read {}: {}", path, e)),
    }
}

/// An open finding for this property with exactly this key suppresses the violation.
pub fn is_known<'a>(fs: &'a [Finding], property: &str, key: &str) -> Option<&'a Finding> {
    fs.iter().find(|f| f.property == property && f.status == "open" && f.key == key)
}
