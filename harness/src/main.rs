//! bsvmc — bounded-exhaustive model checking harness for Firaenix/bsv-wasm.
//! See /verif/DESIGN.md.

mod engine;
mod findings;
mod iso;
mod out;
mod props;
mod refs;

use engine::{Ctx, Report, Tier};

#[global_allocator]
static GLOBAL: iso::Counting = iso::Counting;
use serde_json::{json, Value};

fn usage() -> ! {
    eprintln!("usage: bsvmc selftest | run <ID> --tier quick|thorough --evidence <file> --findings <file> --replays <dir> | replay <ID> <file> | child <ID> ... | refdump");
    std::process::exit(2)
}

fn arg_after(args: &[String], flag: &str) -> Option<String> {
    args.iter().position(|a| a == flag).and_then(|i| args.get(i + 1).cloned())
}

fn main() {
    let args: Vec<String> = std::env::args().collect();
    if args.len() < 2 {
        usage();
    }
    match args[1].as_str() {
        "child" => {
            // E3 worker: stdout stays as the pipe to the parent
            iso::child_main(&args[2..]);
        }
        _ => {}
    }
    out::capture_stdout();
    engine::install_panic_hook();
    match args[1].as_str() {
        "selftest" => {
            match refs::selftest() {
                Ok(n) => {
                    out::line(&format!("selftest ok: {} reference checks", n));
                    std::process::exit(0)
                }
                Err(e) => {
                    out::line(&format!("MACHINERY-ERROR: selftest failed: {}", e));
                    std::process::exit(2)
                }
            }
        }
        "bench" => {
            // bsvmc bench <ID> <tier> <space> <lo> <hi> <step>: single-threaded timing of slices of a space (development aid)
            let id = args[2].to_uppercase();
            let tier = if args[3] == "thorough" { Tier::Thorough } else { Tier::Quick };
            let p = props::lookup(&id).unwrap();
            let sp = (p.spaces.unwrap())(tier).into_iter().find(|s| s.name == args[4]).unwrap();
            let (lo, hi, step): (u64, u64, u64) = (args[5].parse().unwrap(), args[6].parse::<u64>().unwrap().min(sp.size), args[7].parse().unwrap());
            let mut i = lo;
            while i < hi {
                let t0 = std::time::Instant::now();
                let mut acc = engine::Acc::new();
                let end = (i + step).min(hi);
                for k in i..end {
                    let c = props::Case { space: &sp.name, idx: k, tier };
                    (sp.eval)(&c, &mut acc);
                }
                let dt = t0.elapsed().as_secs_f64();
                if dt > 0.2 {
                    out::line(&format!("{}..{}: {:.2}s evals={} viol_keys={}", i, end, dt, acc.evaluations, acc.violations.len()));
                }
                i = end;
            }
            out::line(&format!("space size {}", sp.size));
            std::process::exit(0)
        }
        "refdump" => {
            for l in refs::refdump() {
                out::line(&l);
            }
            std::process::exit(0)
        }
        "replay" => {
            if args.len() < 4 {
                usage();
            }
            let id = args[2].to_uppercase();
            let text = std::fs::read_to_string(&args[3]).unwrap_or_else(|e| {
                out::line(&format!("MACHINERY-ERROR: cannot read {}: {}", args[3], e));
                std::process::exit(2)
            });
            let v: Value = serde_json::from_str(&text).unwrap_or_else(|e| {
                out::line(&format!("MACHINERY-ERROR: replay file does not parse: {}", e));
                std::process::exit(2)
            });
            let case = v.get("case").cloned().unwrap_or(v.clone());
            let p = props::lookup(&id).unwrap_or_else(|| {
                out::line(&format!("MACHINERY-ERROR: unknown property {}", id));
                std::process::exit(2)
            });
            let res = (p.replay)(&case);
            if res.is_empty() {
                out::line(&format!("REPLAY property={} outcome=holds", id));
                std::process::exit(0)
            }
            for (k, d) in &res {
                out::line(&format!("REPLAY property={} outcome=violates key={} detail={}", id, k, d));
            }
            out::line(&format!("VIOLATION property={} replay={}", id, args[3]));
            std::process::exit(1)
        }
        "run" => {
            if args.len() < 3 {
                usage();
            }
            let id = args[2].to_uppercase();
            let tier = match arg_after(&args, "--tier").or_else(|| std::env::var("VERIF_TIER").ok()).as_deref() {
                Some("thorough") => Tier::Thorough,
                _ => Tier::Quick,
            };
            let seed: u64 = std::env::var("VERIF_SEED").ok().and_then(|s| s.parse().ok()).unwrap_or(0);
            let evidence = arg_after(&args, "--evidence").unwrap_or_else(|| format!("/verif/evidence/{}.json", id));
            let findings_path = arg_after(&args, "--findings").unwrap_or_else(|| "/verif/known_findings.json".into());
            let replays = arg_after(&args, "--replays").unwrap_or_else(|| "/verif/replays".into());
            let p = props::lookup(&id).unwrap_or_else(|| {
                out::line(&format!("MACHINERY-ERROR: unknown property {}", id));
                std::process::exit(2)
            });
            let known = findings::load(&findings_path).unwrap_or_else(|e| {
                out::line(&format!("MACHINERY-ERROR: {}", e));
                std::process::exit(2)
            });
            std::env::set_var("VERIF_FINDINGS", &findings_path);
            let ctx = Ctx::new(tier, seed);
            let report = (p.run)(&ctx);
            let code = finish(&id, &ctx, report, &known, &evidence, &replays, p.level_note);
            std::process::exit(code)
        }
        _ => usage(),
    }
}

fn sanitize(s: &str) -> String {
    s.chars().map(|c| if c.is_ascii_alphanumeric() || c == '-' || c == '_' || c == '.' { c } else { '_' }).collect()
}

fn finish(id: &str, ctx: &Ctx, report: Report, known: &[findings::Finding], evidence_path: &str, replays_dir: &str, level_note: &str) -> i32 {
    let wall = ctx.start.elapsed().as_secs_f64();
    let acc = &report.acc;
    let mut new_violations = 0u64;
    let mut known_seen = vec![];
    let mut exit = 0;
    for (key, (count, examples)) in &acc.violations {
        match findings::is_known(known, id, key) {
            Some(f) => {
                let eg = examples.first().map(|v| v.case.to_string()).unwrap_or_default();
                let eg = if eg.len() > 200 { format!("{}…", &eg[..200]) } else { eg };
                out::line(&format!("KNOWN-FINDING: property={} {} — {} ({} cases, e.g. {})", id, key, f.what, count, eg));
                known_seen.push(json!({"key": key, "cases": count}));
            }
            None => {
                new_violations += count;
                exit = 1;
                let dir = format!("{}/{}", replays_dir, id);
                let _ = std::fs::create_dir_all(&dir);
                for (n, v) in examples.iter().enumerate() {
                    let path = format!("{}/{}-{}.json", dir, sanitize(key), n);
                    let body = json!({"property": id, "key": key, "case": v.case, "detail": v.detail, "cases_with_this_key": count});
                    if let Err(e) = std::fs::write(&path, serde_json::to_string_pretty(&body).unwrap()) {
                        out::line(&format!("MACHINERY-ERROR: cannot write replay {}: {}", path, e));
                        return 2;
                    }
                    if n == 0 {
                        out::line(&format!("VIOLATION property={} replay={}", id, path));
                        out::line(&format!("  key={} cases={} detail={}", key, count, v.detail));
                    }
                }
            }
        }
    }
    let samples: Vec<Value> = acc.samples.iter().map(|s| s.1.clone()).collect();
    let states = acc.n_states().max(acc.n_nontrivial());
    let mut assumptions = report.assumptions.clone();
    assumptions.push(level_note.to_string());
    let ev = json!({
        "property_id": id,
        "tier": ctx.tier.name(),
        "seed": ctx.seed,
        "level": "model_checking",
        "coverage": {
            "states": states,
            "transitions": acc.transitions,
            "traces_validated_against_impl": acc.traces,
            "samples": samples,
            "evaluations": acc.evaluations,
            "distinct_nontrivial": acc.n_nontrivial(),
            "rule": report.rule,
            "exhaustive": report.exhaustive,
            "distinct_outcomes": acc.outcomes.len(),
            "bounds": report.bounds,
            "spaces": report.spaces,
            "counters": acc.info,
            "known_findings_observed": known_seen,
            "wall_cap_hit": ctx.capped.load(std::sync::atomic::Ordering::Relaxed),
            "threads": ctx.threads,
        },
        "assumptions": assumptions,
        "wall_s": wall,
        "violations": new_violations,
    });
    if let Some(parent) = std::path::Path::new(evidence_path).parent() {
        let _ = std::fs::create_dir_all(parent);
    }
    if let Err(e) = std::fs::write(evidence_path, serde_json::to_string_pretty(&ev).unwrap()) {
        out::line(&format!("MACHINERY-ERROR: cannot write evidence {}: {}", evidence_path, e));
        return 2;
    }
    out::line(&format!(
        "SUMMARY property={} tier={} evaluations={} states={} transitions={} traces={} nontrivial={} outcomes={} exhaustive={} new_violations={} wall_s={:.1}",
        id,
        ctx.tier.name(),
        acc.evaluations,
        states,
        acc.transitions,
        acc.traces,
        acc.n_nontrivial(),
        acc.outcomes.len(),
        report.exhaustive,
        new_violations,
        wall
    ));
    if acc.evaluations == 0 || acc.outcomes.len() < 2 {
        out::line("MACHINERY-ERROR: vacuous exploration (no evaluations or a single distinct outcome)");
        return 2;
    }
    exit
}
