//! Reference secp256k1 arithmetic, ECDSA, RFC 6979, public-key recovery and
//! strict DER, written from SEC 1 / SEC 2 / RFC 6979 / BIP66 on top of
//! num-bigint only. Written for obviousness, not speed, and not constant time.
//!
//! Two deliberately different code paths exist for the group law:
//!   * `add` is the textbook affine chord-and-tangent rule (one inversion);
//!   * `mul` / `mul_g` use Jacobian coordinates with a 4-bit window.
//! `selftest` checks them against each other.

use super::hashes;
use num_bigint::BigUint;
use num_traits::{One, Zero};
use std::sync::OnceLock;

// ---------------------------------------------------------------------------
// Domain parameters (SEC 2, section 2.4.1)
// ---------------------------------------------------------------------------

fn hexnum(s: &str) -> BigUint {
    BigUint::parse_bytes(s.as_bytes(), 16).expect("hex constant")
}

fn p_ref() -> &'static BigUint {
    static P: OnceLock<BigUint> = OnceLock::new();
    P.get_or_init(|| hexnum("FFFFFFFFFFFFFFFFFFFFFFFFFFFFFFFFFFFFFFFFFFFFFFFFFFFFFFFEFFFFFC2F"))
}

fn n_ref() -> &'static BigUint {
    static N: OnceLock<BigUint> = OnceLock::new();
    N.get_or_init(|| hexnum("FFFFFFFFFFFFFFFFFFFFFFFFFFFFFFFEBAAEDCE6AF48A03BBFD25E8CD0364141"))
}

/// Field prime p = 2^256 - 2^32 - 977.
pub fn p() -> BigUint {
    p_ref().clone()
}

/// Group order n.
pub fn n() -> BigUint {
    n_ref().clone()
}

/// floor(n / 2)
pub fn half_n() -> BigUint {
    n_ref() >> 1u32
}

#[derive(Clone, Debug, PartialEq, Eq)]
pub enum Point {
    Infinity,
    Affine { x: BigUint, y: BigUint },
}

pub fn g() -> Point {
    static G: OnceLock<Point> = OnceLock::new();
    G.get_or_init(|| Point::Affine {
        x: hexnum("79BE667EF9DCBBAC55A06295CE870B07029BFCDB2DCE28D959F2815B16F81798"),
        y: hexnum("483ADA7726A3C4655DA4FBFC0E1108A8FD17B448A68554199C47D08FFB10D4B8"),
    })
    .clone()
}

// ---------------------------------------------------------------------------
// Field arithmetic mod p. All inputs are expected to be already reduced.
// ---------------------------------------------------------------------------

fn fadd(a: &BigUint, b: &BigUint) -> BigUint {
    (a + b) % p_ref()
}

fn fsub(a: &BigUint, b: &BigUint) -> BigUint {
    (a + p_ref() - b) % p_ref()
}

fn fmul(a: &BigUint, b: &BigUint) -> BigUint {
    (a * b) % p_ref()
}

fn fsqr(a: &BigUint) -> BigUint {
    (a * a) % p_ref()
}

fn fsmall(k: u32, a: &BigUint) -> BigUint {
    (a * k) % p_ref()
}

/// Inverse by Fermat: a^(p-2). a must be non-zero.
fn finv(a: &BigUint) -> BigUint {
    assert!(!a.is_zero(), "finv(0)");
    a.modpow(&(p_ref() - 2u32), p_ref())
}

/// Inverse mod n by Fermat: a^(n-2). a must be non-zero mod n.
fn ninv(a: &BigUint) -> BigUint {
    let a = a % n_ref();
    assert!(!a.is_zero(), "ninv(0)");
    a.modpow(&(n_ref() - 2u32), n_ref())
}

/// Right-hand side of the curve equation: x^3 + 7.
fn rhs(x: &BigUint) -> BigUint {
    fadd(&fmul(&fsqr(x), x), &BigUint::from(7u32))
}

pub fn is_on_curve(x: &BigUint, y: &BigUint) -> bool {
    if x >= p_ref() || y >= p_ref() {
        return false;
    }
    fsqr(y) == rhs(x)
}

/// y for a given x with requested parity, None if x >= p or x^3+7 is not a square.
pub fn lift_x(x: &BigUint, y_odd: bool) -> Option<BigUint> {
    if x >= p_ref() {
        return None;
    }
    let c = rhs(x);
    // p = 3 mod 4, so a square root of c, if one exists, is c^((p+1)/4).
    let e = (p_ref() + 1u32) >> 2u32;
    let y = c.modpow(&e, p_ref());
    if fsqr(&y) != c {
        return None;
    }
    // y = 0 cannot happen on this curve (x^3 = -7 has no root mod p), but be explicit.
    if y.is_zero() {
        return if y_odd { None } else { Some(y) };
    }
    if y.bit(0) == y_odd {
        Some(y)
    } else {
        Some(p_ref() - y)
    }
}

// ---------------------------------------------------------------------------
// Textbook affine group law (SEC 1, section 2.2.1)
// ---------------------------------------------------------------------------

pub fn add(a: &Point, b: &Point) -> Point {
    let (x1, y1) = match a {
        Point::Infinity => return b.clone(),
        Point::Affine { x, y } => (x, y),
    };
    let (x2, y2) = match b {
        Point::Infinity => return a.clone(),
        Point::Affine { x, y } => (x, y),
    };
    let lambda = if x1 == x2 {
        if fadd(y1, y2).is_zero() {
            // P + (-P), which also covers doubling a point with y = 0
            return Point::Infinity;
        }
        // here y1 == y2: tangent, lambda = 3 x^2 / (2 y)   (a = 0)
        fmul(&fsmall(3, &fsqr(x1)), &finv(&fsmall(2, y1)))
    } else {
        // chord, lambda = (y2 - y1) / (x2 - x1)
        fmul(&fsub(y2, y1), &finv(&fsub(x2, x1)))
    };
    let x3 = fsub(&fsub(&fsqr(&lambda), x1), x2);
    let y3 = fsub(&fmul(&lambda, &fsub(x1, &x3)), y1);
    Point::Affine { x: x3, y: y3 }
}

fn neg(a: &Point) -> Point {
    match a {
        Point::Infinity => Point::Infinity,
        Point::Affine { x, y } => Point::Affine { x: x.clone(), y: if y.is_zero() { y.clone() } else { p_ref() - y } },
    }
}

// ---------------------------------------------------------------------------
// Jacobian coordinates: (X, Y, Z) stands for (X/Z^2, Y/Z^3); Z = 0 is infinity.
// ---------------------------------------------------------------------------

#[derive(Clone)]
struct Jac {
    x: BigUint,
    y: BigUint,
    z: BigUint,
}

fn jinf() -> Jac {
    Jac { x: BigUint::one(), y: BigUint::one(), z: BigUint::zero() }
}

fn to_jac(pt: &Point) -> Jac {
    match pt {
        Point::Infinity => jinf(),
        Point::Affine { x, y } => Jac { x: x.clone(), y: y.clone(), z: BigUint::one() },
    }
}

fn from_jac(j: &Jac) -> Point {
    if j.z.is_zero() {
        return Point::Infinity;
    }
    let zi = finv(&j.z);
    let zi2 = fsqr(&zi);
    let zi3 = fmul(&zi2, &zi);
    Point::Affine { x: fmul(&j.x, &zi2), y: fmul(&j.y, &zi3) }
}

/// Doubling for a = 0:
/// S = 4 X Y^2, M = 3 X^2, X' = M^2 - 2S, Y' = M (S - X') - 8 Y^4, Z' = 2 Y Z.
fn jdouble(a: &Jac) -> Jac {
    if a.z.is_zero() || a.y.is_zero() {
        return jinf();
    }
    let y2 = fsqr(&a.y);
    let s = fsmall(4, &fmul(&a.x, &y2));
    let m = fsmall(3, &fsqr(&a.x));
    let x3 = fsub(&fsqr(&m), &fsmall(2, &s));
    let y3 = fsub(&fmul(&m, &fsub(&s, &x3)), &fsmall(8, &fsqr(&y2)));
    let z3 = fsmall(2, &fmul(&a.y, &a.z));
    Jac { x: x3, y: y3, z: z3 }
}

/// General addition:
/// U1 = X1 Z2^2, U2 = X2 Z1^2, S1 = Y1 Z2^3, S2 = Y2 Z1^3, H = U2 - U1, R = S2 - S1,
/// X3 = R^2 - H^3 - 2 U1 H^2, Y3 = R (U1 H^2 - X3) - S1 H^3, Z3 = H Z1 Z2.
fn jadd(a: &Jac, b: &Jac) -> Jac {
    if a.z.is_zero() {
        return b.clone();
    }
    if b.z.is_zero() {
        return a.clone();
    }
    let z1z1 = fsqr(&a.z);
    let z2z2 = fsqr(&b.z);
    let u1 = fmul(&a.x, &z2z2);
    let u2 = fmul(&b.x, &z1z1);
    let s1 = fmul(&a.y, &fmul(&z2z2, &b.z));
    let s2 = fmul(&b.y, &fmul(&z1z1, &a.z));
    if u1 == u2 {
        if s1 == s2 {
            return jdouble(a);
        }
        return jinf();
    }
    let h = fsub(&u2, &u1);
    let r = fsub(&s2, &s1);
    let h2 = fsqr(&h);
    let h3 = fmul(&h2, &h);
    let u1h2 = fmul(&u1, &h2);
    let x3 = fsub(&fsub(&fsqr(&r), &h3), &fsmall(2, &u1h2));
    let y3 = fsub(&fmul(&r, &fsub(&u1h2, &x3)), &fmul(&s1, &h3));
    let z3 = fmul(&h, &fmul(&a.z, &b.z));
    Jac { x: x3, y: y3, z: z3 }
}

/// The 64 four-bit digits of a scalar < 2^256, least significant first.
fn nibbles(k: &BigUint) -> [u8; 64] {
    let bytes = be32(k);
    let mut out = [0u8; 64];
    for i in 0..32 {
        let b = bytes[31 - i];
        out[2 * i] = b & 15;
        out[2 * i + 1] = b >> 4;
    }
    out
}

/// k * pt; k is reduced mod n first. 4-bit fixed window, most significant digit first.
pub fn mul(k: &BigUint, pt: &Point) -> Point {
    let k = k % n_ref();
    if k.is_zero() || *pt == Point::Infinity {
        return Point::Infinity;
    }
    let base = to_jac(pt);
    // table[j] = j * pt
    let mut table: Vec<Jac> = vec![jinf(), base.clone()];
    for j in 2..16 {
        let next = jadd(&table[j - 1], &base);
        table.push(next);
    }
    let mut acc = jinf();
    for d in nibbles(&k).iter().rev() {
        for _ in 0..4 {
            acc = jdouble(&acc);
        }
        if *d != 0 {
            acc = jadd(&acc, &table[*d as usize]);
        }
    }
    from_jac(&acc)
}

/// g_table()[i][j-1] = j * 16^i * G in affine form, i in 0..64, j in 1..=15.
fn g_table() -> &'static Vec<Vec<Jac>> {
    static T: OnceLock<Vec<Vec<Jac>>> = OnceLock::new();
    T.get_or_init(|| {
        let mut rows = Vec::with_capacity(64);
        let mut base = to_jac(&g());
        for _ in 0..64 {
            let mut row: Vec<Jac> = Vec::with_capacity(15);
            let mut cur = base.clone();
            for j in 1..16 {
                if j > 1 {
                    cur = jadd(&cur, &base);
                }
                // normalise to Z = 1 so that later additions multiply by one
                row.push(to_jac(&from_jac(&cur)));
            }
            rows.push(row);
            for _ in 0..4 {
                base = jdouble(&base);
            }
        }
        rows
    })
}

/// k * G using the fixed-base table: at most 64 additions and no doublings.
pub fn mul_g(k: &BigUint) -> Point {
    let k = k % n_ref();
    let table = g_table();
    let mut acc = jinf();
    for (i, d) in nibbles(&k).iter().enumerate() {
        if *d != 0 {
            acc = jadd(&acc, &table[i][*d as usize - 1]);
        }
    }
    from_jac(&acc)
}

// ---------------------------------------------------------------------------
// Octet-string conversions (SEC 1, sections 2.3.3 - 2.3.8)
// ---------------------------------------------------------------------------

/// Big-endian, left padded to 32 bytes. Panics if v >= 2^256.
pub fn be32(v: &BigUint) -> [u8; 32] {
    let b = v.to_bytes_be();
    assert!(b.len() <= 32, "be32: value does not fit in 32 bytes");
    let mut out = [0u8; 32];
    out[32 - b.len()..].copy_from_slice(&b);
    out
}

pub fn from_be(bytes: &[u8]) -> BigUint {
    BigUint::from_bytes_be(bytes)
}

/// SEC1 encode (33 bytes 02/03||x, or 65 bytes 04||x||y). Panics on Infinity.
pub fn encode_point(pt: &Point, compressed: bool) -> Vec<u8> {
    match pt {
        Point::Infinity => panic!("encode_point: point at infinity"),
        Point::Affine { x, y } => {
            let mut out = Vec::with_capacity(65);
            if compressed {
                out.push(if y.bit(0) { 0x03 } else { 0x02 });
                out.extend_from_slice(&be32(x));
            } else {
                out.push(0x04);
                out.extend_from_slice(&be32(x));
                out.extend_from_slice(&be32(y));
            }
            out
        }
    }
}

/// Strict SEC1 decode of a non-identity point. Accepts exactly 33 bytes with tag
/// 02/03 and x < p on the curve, or 65 bytes with tag 04 and (x, y) on the curve.
/// Everything else (the single byte 00, hybrid tags 06/07, wrong lengths,
/// coordinates >= p, off-curve) gives None.
pub fn decode_point(bytes: &[u8]) -> Option<Point> {
    if bytes.len() == 33 && (bytes[0] == 0x02 || bytes[0] == 0x03) {
        let x = from_be(&bytes[1..33]);
        let y = lift_x(&x, bytes[0] == 0x03)?;
        return Some(Point::Affine { x, y });
    }
    if bytes.len() == 65 && bytes[0] == 0x04 {
        let x = from_be(&bytes[1..33]);
        let y = from_be(&bytes[33..65]);
        if is_on_curve(&x, &y) {
            return Some(Point::Affine { x, y });
        }
    }
    None
}

// ---------------------------------------------------------------------------
// RFC 6979 (section 3.2, with the additional data k' of section 3.6)
// ---------------------------------------------------------------------------

/// RFC 6979 nonce with HMAC-SHA256. `x` is the private key, `h1` the 32-byte hash
/// value, `extra` is appended after bits2octets(h1) in both K updates.
pub fn rfc6979_k(x: &BigUint, h1: &[u8; 32], extra: &[u8]) -> BigUint {
    rfc6979_k_with(x, h1, extra, &|k, m| hashes::hmac_sha256(k, m))
}

/// Same with a caller-supplied HMAC (key, msg) -> 32 bytes.
/// qlen = hlen = 256, so bits2int is the plain big-endian integer, T is exactly one
/// V block, and bits2octets(h1) = int(h1) mod n as 32 bytes.
pub fn rfc6979_k_with(x: &BigUint, h1: &[u8; 32], extra: &[u8], hmac: &dyn Fn(&[u8], &[u8]) -> [u8; 32]) -> BigUint {
    let x_octets = be32(x); // int2octets(x)
    let h_octets = be32(&(from_be(h1) % n_ref())); // bits2octets(h1)
    // b.
    let mut v = [0x01u8; 32];
    // c.
    let mut k = [0x00u8; 32];
    // d. and f. (internal octet 00, then 01), each followed by e. / g.
    for sep in [0x00u8, 0x01u8] {
        let mut m = v.to_vec();
        m.push(sep);
        m.extend_from_slice(&x_octets);
        m.extend_from_slice(&h_octets);
        m.extend_from_slice(extra);
        k = hmac(&k, &m);
        v = hmac(&k, &v);
    }
    // h.
    loop {
        v = hmac(&k, &v);
        let cand = from_be(&v);
        if !cand.is_zero() && &cand < n_ref() {
            return cand;
        }
        let mut m = v.to_vec();
        m.push(0x00);
        k = hmac(&k, &m);
        v = hmac(&k, &v);
    }
}

// ---------------------------------------------------------------------------
// ECDSA (SEC 1, sections 4.1.3, 4.1.4, 4.1.6)
// ---------------------------------------------------------------------------

/// recid bit0 = R.y odd, bit1 = R.x >= n (before reduction); recid is already
/// adjusted (bit0 flipped) if low-S normalisation negated s.
#[derive(Clone, Debug, PartialEq, Eq)]
pub struct Sig {
    pub r: BigUint,
    pub s: BigUint,
    pub recid: u8,
}

/// Raw ECDSA with nonce k over message scalar z: r = (kG).x mod n,
/// s = k^-1 (z + r d) mod n. None if k = 0 mod n, r == 0 or s == 0.
/// If `low_s` is true and s > n/2, s := n - s and recid ^= 1.
pub fn sign_with_k(d: &BigUint, z: &BigUint, k: &BigUint, low_s: bool) -> Option<Sig> {
    let nn = n_ref();
    let (rx, ry) = match mul_g(k) {
        Point::Infinity => return None,
        Point::Affine { x, y } => (x, y),
    };
    let r = &rx % nn;
    if r.is_zero() {
        return None;
    }
    let mut s = (ninv(k) * ((z % nn) + &r * (d % nn))) % nn;
    if s.is_zero() {
        return None;
    }
    let mut recid: u8 = 0;
    if ry.bit(0) {
        recid |= 1;
    }
    if &rx >= nn {
        recid |= 2;
    }
    if low_s && s > half_n() {
        s = nn - &s;
        recid ^= 1;
    }
    Some(Sig { r, s, recid })
}

/// Standard verification (does not require low S): 1 <= r,s < n,
/// R = (z/s) G + (r/s) Q, R != infinity, R.x mod n == r.
pub fn verify(q: &Point, z: &BigUint, r: &BigUint, s: &BigUint) -> bool {
    let nn = n_ref();
    match q {
        Point::Infinity => return false,
        Point::Affine { x, y } => {
            if !is_on_curve(x, y) {
                return false;
            }
        }
    }
    if r.is_zero() || s.is_zero() || r >= nn || s >= nn {
        return false;
    }
    let w = ninv(s);
    let u1 = ((z % nn) * &w) % nn;
    let u2 = (r * &w) % nn;
    match add(&mul_g(&u1), &mul(&u2, q)) {
        Point::Infinity => false,
        Point::Affine { x, .. } => &(x % nn) == r,
    }
}

/// Public-key recovery: x = r + (recid>>1)*n must be < p; R = lift_x(x, recid&1);
/// Q = r^-1 (s R - z G). None if recid > 3, r or s out of [1, n-1], x >= p,
/// x not on the curve, or Q is the point at infinity.
pub fn recover(z: &BigUint, r: &BigUint, s: &BigUint, recid: u8) -> Option<Point> {
    let nn = n_ref();
    if recid > 3 {
        return None;
    }
    if r.is_zero() || s.is_zero() || r >= nn || s >= nn {
        return None;
    }
    let x = if recid & 2 != 0 { r + nn } else { r.clone() };
    if &x >= p_ref() {
        return None;
    }
    let y = lift_x(&x, recid & 1 != 0)?;
    let big_r = Point::Affine { x, y };
    let s_r = mul(s, &big_r);
    let z_g = mul_g(&(z % nn));
    let q = mul(&ninv(r), &add(&s_r, &neg(&z_g)));
    match q {
        Point::Infinity => None,
        q => Some(q),
    }
}

/// x-coordinate (32 bytes) of d*Q. Panics if d*Q is the point at infinity.
pub fn ecdh_x(d: &BigUint, q: &Point) -> [u8; 32] {
    match mul(d, q) {
        Point::Infinity => panic!("ecdh_x: shared point is infinity"),
        Point::Affine { x, .. } => be32(&x),
    }
}

// ---------------------------------------------------------------------------
// Strict DER (BIP66), without the trailing sighash byte
// ---------------------------------------------------------------------------

/// Minimal positive DER INTEGER content: big-endian, no superfluous leading zero
/// bytes, a single 00 prepended if the top bit would be set; zero is the byte 00.
fn der_int(v: &BigUint) -> Vec<u8> {
    let mut b = v.to_bytes_be(); // [0] for zero, otherwise no leading zero bytes
    if b[0] & 0x80 != 0 {
        b.insert(0, 0);
    }
    b
}

/// 30 len 02 rlen R 02 slen S with single-byte lengths. Panics if a length would
/// not fit in one byte < 0x80 (cannot happen for r, s < 2^256).
pub fn der_encode(r: &BigUint, s: &BigUint) -> Vec<u8> {
    let rb = der_int(r);
    let sb = der_int(s);
    let body_len = 2 + rb.len() + 2 + sb.len();
    assert!(rb.len() < 0x80 && sb.len() < 0x80 && body_len < 0x80, "der_encode: integer too large for short-form lengths");
    let mut out = vec![0x30, body_len as u8, 0x02, rb.len() as u8];
    out.extend_from_slice(&rb);
    out.push(0x02);
    out.push(sb.len() as u8);
    out.extend_from_slice(&sb);
    out
}

/// BIP66 `IsValidSignatureEncoding` minus the sighash byte: total size 8..=72,
/// 30 [total-2] 02 [rlen] R 02 [slen] S, both lengths non-zero, both integers
/// non-negative and minimally encoded, nothing before, between or after. Ranges of
/// r and s are not checked (r = 0 encoded as 02 01 00 is accepted).
pub fn der_decode(bytes: &[u8]) -> Option<(BigUint, BigUint)> {
    let len = bytes.len();
    if len < 8 || len > 72 {
        return None;
    }
    if bytes[0] != 0x30 {
        return None;
    }
    if bytes[1] as usize != len - 2 {
        return None;
    }
    if bytes[2] != 0x02 {
        return None;
    }
    let rlen = bytes[3] as usize;
    if rlen == 0 || 5 + rlen >= len {
        return None;
    }
    if bytes[4 + rlen] != 0x02 {
        return None;
    }
    let slen = bytes[5 + rlen] as usize;
    if slen == 0 || 6 + rlen + slen != len {
        return None;
    }
    let rb = &bytes[4..4 + rlen];
    let sb = &bytes[6 + rlen..];
    for b in [rb, sb] {
        if b[0] & 0x80 != 0 {
            return None; // negative
        }
        if b.len() > 1 && b[0] == 0 && b[1] & 0x80 == 0 {
            return None; // superfluous leading zero
        }
    }
    Some((from_be(rb), from_be(sb)))
}

// ---------------------------------------------------------------------------
// Self test
// ---------------------------------------------------------------------------

/// Deterministic pseudo-random scalars for the self test: sha256("secp selftest" || tag || i).
fn test_scalar(tag: &str, i: u32) -> BigUint {
    let mut m = b"secp selftest".to_vec();
    m.extend_from_slice(tag.as_bytes());
    m.extend_from_slice(&i.to_be_bytes());
    from_be(&hashes::sha256(&m))
}

/// Plain double-and-add built on the affine `add` only (independent of the Jacobian code).
fn mul_slow(k: &BigUint, pt: &Point) -> Point {
    let mut acc = Point::Infinity;
    for i in (0..k.bits()).rev() {
        acc = add(&acc, &acc);
        if k.bit(i) {
            acc = add(&acc, pt);
        }
    }
    acc
}

pub fn selftest() -> Result<usize, String> {
    let mut count = 0usize;
    let mut chk = |name: &str, ok: bool| -> Result<(), String> {
        count += 1;
        if ok {
            Ok(())
        } else {
            Err(format!("refs::secp selftest failed: {}", name))
        }
    };
    let nn = n();
    let pp = p();
    let gg = g();
    let one = BigUint::one();

    // parameters
    chk("p = 2^256 - 2^32 - 977", pp == (BigUint::one() << 256u32) - (BigUint::one() << 32u32) - 977u32)?;
    chk("p = 3 mod 4", &pp % 4u32 == BigUint::from(3u32))?;
    match &gg {
        Point::Affine { x, y } => chk("G on curve", is_on_curve(x, y))?,
        Point::Infinity => chk("G finite", false)?,
    }
    chk("n*G == Infinity (slow path)", mul_slow(&nn, &gg) == Point::Infinity)?;
    chk("(n-1)*G + G == Infinity", add(&mul(&(&nn - 1u32), &gg), &gg) == Point::Infinity)?;
    chk("mul(n, G) == Infinity", mul(&nn, &gg) == Point::Infinity)?;
    chk("mul_g(n) == Infinity", mul_g(&nn) == Point::Infinity)?;
    chk("mul(0, G) == Infinity", mul(&BigUint::zero(), &gg) == Point::Infinity)?;
    chk("mul_g(0) == Infinity", mul_g(&BigUint::zero()) == Point::Infinity)?;
    chk("mul(5, Infinity) == Infinity", mul(&BigUint::from(5u32), &Point::Infinity) == Point::Infinity)?;
    chk("(n-1)*G == -G", mul(&(&nn - 1u32), &gg) == neg(&gg))?;
    chk("half_n", half_n() * 2u32 + 1u32 == nn)?;

    // well-known encodings
    chk(
        "compressed G",
        hex::encode(encode_point(&gg, true)) == "0279be667ef9dcbbac55a06295ce870b07029bfcdb2dce28d959f2815b16f81798",
    )?;
    chk(
        "uncompressed G",
        hex::encode(encode_point(&gg, false))
            == "0479be667ef9dcbbac55a06295ce870b07029bfcdb2dce28d959f2815b16f81798483ada7726a3c4655da4fbfc0e1108a8fd17b448a68554199c47d08ffb10d4b8",
    )?;
    chk(
        "2G",
        hex::encode(encode_point(&add(&gg, &gg), true)) == "02c6047f9441ed7d6d3045406e95c07cd85c778e4b8cef3ca7abac09b95c709ee5",
    )?;
    chk(
        "3G",
        hex::encode(encode_point(&mul_g(&BigUint::from(3u32)), true)) == "02f9308a019258c31049344f85f89d5229b531c845836f99b08601f113bce036f9",
    )?;

    // small multiples: Jacobian window code vs. repeated textbook addition
    let mut acc = Point::Infinity;
    for k in 1u32..=40 {
        acc = add(&acc, &gg);
        chk("k*G small: mul", mul(&BigUint::from(k), &gg) == acc)?;
        chk("k*G small: mul_g", mul_g(&BigUint::from(k)) == acc)?;
    }

    // edge scalars: mul_g == mul(., G) == slow affine double-and-add
    let mut edge: Vec<BigUint> = vec![
        one.clone(),
        BigUint::from(2u32),
        BigUint::from(15u32),
        BigUint::from(16u32),
        BigUint::from(17u32),
        &nn - 1u32,
        &nn - 2u32,
        half_n(),
        half_n() + 1u32,
        BigUint::one() << 128u32,
        (BigUint::one() << 128u32) - 1u32,
        BigUint::one() << 255u32,
        (BigUint::one() << 252u32) - 1u32,
        hexnum("1111111111111111111111111111111111111111111111111111111111111111"),
        hexnum("f0f0f0f0f0f0f0f0f0f0f0f0f0f0f0f0f0f0f0f0f0f0f0f0f0f0f0f0f0f0f0f0"),
    ];
    for i in 0..6 {
        edge.push(test_scalar("edge", i));
    }
    for k in &edge {
        let a = mul_g(k);
        chk("mul_g == mul(G)", a == mul(k, &gg))?;
        chk("mul_g == mul_slow", a == mul_slow(&(k % &nn), &gg))?;
        if let Point::Affine { x, y } = &a {
            chk("k*G on curve", is_on_curve(x, y))?;
        }
    }
    // scalars >= n are reduced
    chk("mul_g(n+5) == mul_g(5)", mul_g(&(&nn + 5u32)) == mul_g(&BigUint::from(5u32)))?;
    chk("mul(n+5) == mul(5)", mul(&(&nn + 5u32), &gg) == mul(&BigUint::from(5u32), &gg))?;

    // homomorphism: (a+b)G == aG + bG, (ab)G == a(bG), on non-generator base too
    for i in 0..8 {
        let a = test_scalar("a", i);
        let b = test_scalar("b", i);
        let ag = mul_g(&a);
        let bg = mul_g(&b);
        chk("(a+b)G == aG + bG", mul_g(&((&a + &b) % &nn)) == add(&ag, &bg))?;
        chk("(ab)G == a(bG)", mul_g(&((&a * &b) % &nn)) == mul(&a, &bg))?;
        chk("a(bG) == b(aG)", mul(&a, &bg) == mul(&b, &ag))?;
        chk("mul on arbitrary base == mul_slow", mul(&a, &bg) == mul_slow(&(&a % &nn), &bg))?;
        chk("aG + (-aG) == Infinity", add(&ag, &neg(&ag)) == Point::Infinity)?;
        chk("aG + aG == 2aG", add(&ag, &ag) == mul_g(&((&a * 2u32) % &nn)))?;
        chk("ecdh symmetric", ecdh_x(&a, &bg) == ecdh_x(&b, &ag))?;
    }

    // point encoding / decoding
    for i in 0..6 {
        let pt = mul_g(&test_scalar("enc", i));
        let c = encode_point(&pt, true);
        let u = encode_point(&pt, false);
        chk("decode(compressed)", decode_point(&c) == Some(pt.clone()))?;
        chk("decode(uncompressed)", decode_point(&u) == Some(pt.clone()))?;
        let mut hybrid = u.clone();
        hybrid[0] = 0x06 | (c[0] & 1);
        chk("hybrid rejected", decode_point(&hybrid).is_none())?;
        let mut bad = u.clone();
        bad[64] ^= 1;
        chk("off-curve rejected", decode_point(&bad).is_none())?;
        chk("truncated rejected", decode_point(&u[..64]).is_none() && decode_point(&c[..32]).is_none())?;
        let mut long = c.clone();
        long.push(0);
        chk("over-long rejected", decode_point(&long).is_none())?;
        let mut wrongtag = c.clone();
        wrongtag[0] = 0x04;
        chk("33 bytes with tag 04 rejected", decode_point(&wrongtag).is_none())?;
    }
    chk("00 rejected", decode_point(&[0u8]).is_none())?;
    chk("empty rejected", decode_point(&[]).is_none())?;
    {
        // x >= p rejected even though x mod p may be on the curve
        let mut c = vec![0x02u8];
        c.extend_from_slice(&[0xff; 32]);
        chk("x >= p rejected", decode_point(&c).is_none())?;
        // x = 5 has no point on the curve (well known: x^3+7 = 132 is a non-residue)
        chk("lift_x(5) is None", lift_x(&BigUint::from(5u32), false).is_none())?;
        let y1 = lift_x(&one, false);
        let y2 = lift_x(&one, true);
        chk(
            "lift_x(1) both parities",
            match (y1, y2) {
                (Some(a), Some(b)) => !a.bit(0) && b.bit(0) && &a + &b == pp && is_on_curve(&one, &a) && is_on_curve(&one, &b),
                _ => false,
            },
        )?;
        chk("lift_x(p) is None", lift_x(&pp, false).is_none())?;
        chk("is_on_curve rejects y+p", {
            match &gg {
                Point::Affine { x, y } => !is_on_curve(x, &(y + &pp)) && !is_on_curve(&(x + &pp), y),
                _ => false,
            }
        })?;
    }

    // RFC 6979 / deterministic ECDSA vectors for secp256k1 + SHA-256 (the widely
    // published set used by bitcoinjs, haskoin, python-ecdsa, ...). Signatures are low-S.
    // (key, message, k, r, s, recid); recid is not part of the published vectors, it was
    // cross-checked with an independent pure-Python implementation.
    let vectors: [(&str, &str, &str, &str, &str, u8); 6] = [
        (
            "0000000000000000000000000000000000000000000000000000000000000001",
            "Satoshi Nakamoto",
            "8f8a276c19f4149656b280621e358cce24f5f52542772691ee69063b74f15d15",
            "934b1ea10a4b3c1757e2b0c017d0b6143ce3c9a7e6a4a49860d7a6ab210ee3d8",
            "2442ce9d2b916064108014783e923ec36b49743e2ffa1c4496f01a512aafd9e5",
            1,
        ),
        (
            "0000000000000000000000000000000000000000000000000000000000000001",
            "All those moments will be lost in time, like tears in rain. Time to die...",
            "38aa22d72376b4dbc472e06c3ba403ee0a394da63fc58d88686c611aba98d6b3",
            "8600dbd41e348fe5c9465ab92d23e3db8b98b873beecd930736488696438cb6b",
            "547fe64427496db33bf66019dacbf0039c04199abb0122918601db38a72cfc21",
            0,
        ),
        (
            "fffffffffffffffffffffffffffffffebaaedce6af48a03bbfd25e8cd0364140",
            "Satoshi Nakamoto",
            "33a19b60e25fb6f4435af53a3d42d493644827367e6453928554f43e49aa6f90",
            "fd567d121db66e382991534ada77a6bd3106f0a1098c231e47993447cd6af2d0",
            "6b39cd0eb1bc8603e159ef5c20a5c8ad685a45b06ce9bebed3f153d10d93bed5",
            0,
        ),
        (
            "f8b8af8ce3c7cca5e300d33939540c10d45ce001b8f252bfbc57ba0342904181",
            "Alan Turing",
            "525a82b70e67874398067543fd84c83d30c175fdc45fdeee082fe13b1d7cfdf1",
            "7063ae83e7f62bbb171798131b4a0564b956930092b33b07b395615d9ec7e15c",
            "58dfcc1e00a35e1572f366ffe34ba0fc47db1e7189759b9fb233c5b05ab388ea",
            0,
        ),
        (
            "e91671c46231f833a6406ccbea0e3e392c76c167bac1cb013f6f1013980455c2",
            "There is a computer disease that anybody who works with computers knows about. It's a very serious disease and it interferes completely with the work. The trouble with computers is that you 'play' with them!",
            "1f4b84c23a86a221d233f2521be018d9318639d5b8bbd6374a8a59232d16ad3d",
            "b552edd27580141f3b2a5463048cb7cd3e047b97c9f98076c32dbdf85a68718b",
            "279fa72dd19bfae05577e06c7c0c1900c371fcd5893f7e1d56a37d30174671f6",
            1,
        ),
        (
            "0000000000000000000000000000000000000000000000000000000000000001",
            "Everything should be made as simple as possible, but not simpler.",
            "ec633bd56a5774a0940cb97e27a9e4e51dc94af737596a0c5cbb3d30332d92a5",
            "33a69cd2065432a30f3d1ce4eb0d59b8ab58c74f27c41a7fdb5696ad4e6108c9",
            "6f807982866f785d3f6418d24163ddae117b7db4d5fdf0071de069fa54342262",
            0,
        ),
    ];
    for (key, msg, k_hex, r_hex, s_hex, recid) in vectors.iter() {
        let d = hexnum(key);
        let h1 = hashes::sha256(msg.as_bytes());
        let z = from_be(&h1) % &nn;
        let k = rfc6979_k(&d, &h1, &[]);
        chk(&format!("rfc6979 k for {:?}", msg), k == hexnum(k_hex))?;
        chk(
            "rfc6979_k == rfc6979_k_with(hmac_sha256)",
            k == rfc6979_k_with(&d, &h1, &[], &|kk, m| hashes::hmac_sha256(kk, m)),
        )?;
        let sig = sign_with_k(&d, &z, &k, true);
        match sig {
            None => chk("vector signs", false)?,
            Some(sig) => {
                chk(&format!("rfc6979 r for {:?}", msg), sig.r == hexnum(r_hex))?;
                chk(&format!("rfc6979 s for {:?}", msg), sig.s == hexnum(s_hex))?;
                chk(&format!("recid for {:?}", msg), sig.recid == *recid)?;
                let q = mul_g(&d);
                chk("vector verifies", verify(&q, &z, &sig.r, &sig.s))?;
                chk("vector recovers", recover(&z, &sig.r, &sig.s, sig.recid) == Some(q))?;
            }
        }
    }
    // RFC 6979 section 3.6 additional data and a variant HMAC. Expected values were
    // produced by an independent pure-Python implementation (hashlib/hmac + int arithmetic).
    {
        let h1 = hashes::sha256(b"Satoshi Nakamoto");
        let hmac_sha256d = |kk: &[u8], m: &[u8]| -> [u8; 32] {
            let v = hashes::hmac(hashes::H::Sha256d, kk, m);
            let mut o = [0u8; 32];
            o.copy_from_slice(&v);
            o
        };
        chk(
            "rfc6979 key 1, extra = 32 zero bytes",
            rfc6979_k(&one, &h1, &[0u8; 32]) == hexnum("c2d46cf83bd97a7f7f56ee7cb455ee32144bbe55ccd6a396841cf8fad25c4edf"),
        )?;
        chk(
            "rfc6979 key n-1, extra = 'abc'",
            rfc6979_k(&(&nn - 1u32), &h1, b"abc") == hexnum("4d0f236a1f0bf10789267c20bcc4de9853311686da5be181e1501325111ee9d3"),
        )?;
        chk(
            "rfc6979 key 1, HMAC-SHA256d",
            rfc6979_k_with(&one, &h1, &[], &hmac_sha256d) == hexnum("a89789759d11efa4e370f16b4feb044ec69af3b60b7ceb96e4192b40f0e04e7b"),
        )?;
        chk(
            "rfc6979 key n-1, HMAC-SHA256d, extra = 32 bytes 01",
            rfc6979_k_with(&(&nn - 1u32), &h1, &[1u8; 32], &hmac_sha256d) == hexnum("642742dfdcf1daeb433e52e02cb40b4ccb80c26075bbbce9202f2e31ceb12324"),
        )?;
    }

    // Retry branch of step h: a fake HMAC whose 5th call (the first candidate) returns
    // ff..ff >= n; the loop must then update K, V and take the next candidate
    // (8 HMAC calls in total). Expected value from the same Python implementation.
    {
        let h1 = hashes::sha256(b"Satoshi Nakamoto");
        let calls = std::cell::Cell::new(0u32);
        let fake = |kk: &[u8], m: &[u8]| -> [u8; 32] {
            calls.set(calls.get() + 1);
            if calls.get() == 5 {
                [0xff; 32]
            } else {
                hashes::hmac_sha256(kk, m)
            }
        };
        let k = rfc6979_k_with(&one, &h1, &[], &fake);
        chk("rfc6979 retry after candidate >= n", k == hexnum("04f811e46f106645f2b4918f6b2158b40ef573e74e79a8ca52389edd416e952c"))?;
        chk("rfc6979 retry uses 8 HMAC calls", calls.get() == 8)?;
    }

    // sign -> verify / recover round trips, with and without low-S
    for i in 0..12 {
        let d = test_scalar("key", i) % (&nn - 1u32) + 1u32;
        let q = mul_g(&d);
        let h1 = hashes::sha256(format!("message {}", i).as_bytes());
        let z = from_be(&h1) % &nn;
        let k = rfc6979_k(&d, &h1, &[]);
        for low_s in [false, true] {
            let sig = match sign_with_k(&d, &z, &k, low_s) {
                Some(s) => s,
                None => {
                    chk("round trip signs", false)?;
                    unreachable!()
                }
            };
            chk("recid < 4", sig.recid < 4)?;
            if low_s {
                chk("low s", sig.s <= half_n())?;
            }
            chk("sign -> verify", verify(&q, &z, &sig.r, &sig.s))?;
            chk("sign -> recover", recover(&z, &sig.r, &sig.s, sig.recid) == Some(q.clone()))?;
            chk("other parity recovers a different key", recover(&z, &sig.r, &sig.s, sig.recid ^ 1) != Some(q.clone()))?;
            // the complementary s also verifies, with flipped recid
            let s2 = &nn - &sig.s;
            chk("n - s verifies", verify(&q, &z, &sig.r, &s2))?;
            chk("n - s recovers with recid^1", recover(&z, &sig.r, &s2, sig.recid ^ 1) == Some(q.clone()))?;
            // negative cases
            chk("wrong z fails", !verify(&q, &((&z + 1u32) % &nn), &sig.r, &sig.s))?;
            chk("wrong r fails", !verify(&q, &z, &((&sig.r + 1u32) % &nn), &sig.s))?;
            chk("wrong key fails", !verify(&add(&q, &gg), &z, &sig.r, &sig.s))?;
            chk("r + n rejected", !verify(&q, &z, &(&sig.r + &nn), &sig.s))?;
            chk("s + n rejected", !verify(&q, &z, &sig.r, &(&sig.s + &nn)))?;
            // DER
            let der = der_encode(&sig.r, &sig.s);
            chk("der round trip", der_decode(&der) == Some((sig.r.clone(), sig.s.clone())))?;
            let mut t = der.clone();
            t.push(0);
            chk("der trailing byte rejected", der_decode(&t).is_none())?;
            chk("der truncated rejected", der_decode(&der[..der.len() - 1]).is_none())?;
        }
    }
    chk("verify rejects r = 0", !verify(&gg, &one, &BigUint::zero(), &one))?;
    chk("verify rejects s = 0", !verify(&gg, &one, &one, &BigUint::zero()))?;
    chk("verify rejects infinity key", !verify(&Point::Infinity, &one, &one, &one))?;
    chk("recover rejects recid 4", recover(&one, &one, &one, 4).is_none())?;
    chk("recover rejects r = 0", recover(&one, &BigUint::zero(), &one, 0).is_none())?;
    chk("recover rejects x = r + n >= p", recover(&one, &(&pp - &nn + 5u32), &one, 2).is_none())?;
    chk("sign_with_k rejects k = 0", sign_with_k(&one, &one, &BigUint::zero(), true).is_none())?;
    chk("sign_with_k rejects k = n", sign_with_k(&one, &one, &nn, true).is_none())?;
    {
        // s == 0 when z = -r d
        let k = BigUint::from(7u32);
        let r = match mul_g(&k) {
            Point::Affine { x, .. } => x % &nn,
            _ => unreachable!(),
        };
        let d = BigUint::from(3u32);
        let z = (&nn - (&r * &d) % &nn) % &nn;
        chk("sign_with_k rejects s = 0", sign_with_k(&d, &z, &k, true).is_none())?;
    }

    // DER corner cases
    {
        let h = |s: &str| hex::decode(s).unwrap();
        chk("der(1,1)", der_encode(&one, &one) == h("3006020101020101"))?;
        chk("der(0,0)", der_encode(&BigUint::zero(), &BigUint::zero()) == h("3006020100020100"))?;
        chk("der(0x80,0x7f)", der_encode(&BigUint::from(0x80u32), &BigUint::from(0x7fu32)) == h("30070202008002017f"))?;
        chk("der decode (1,1)", der_decode(&h("3006020101020101")) == Some((one.clone(), one.clone())))?;
        chk("der decode (0,0)", der_decode(&h("3006020100020100")) == Some((BigUint::zero(), BigUint::zero())))?;
        chk("der decode (0x80,0x7f)", der_decode(&h("30070202008002017f")) == Some((BigUint::from(0x80u32), BigUint::from(0x7fu32))))?;
        chk("der negative r", der_decode(&h("3006020180020101")).is_none())?;
        chk("der negative s", der_decode(&h("3006020101020180")).is_none())?;
        chk("der padded r", der_decode(&h("300702020001020101")).is_none())?;
        chk("der padded s", der_decode(&h("300702010102020001")).is_none())?;
        chk("der wrong outer tag", der_decode(&h("3106020101020101")).is_none())?;
        chk("der wrong r tag", der_decode(&h("3006030101020101")).is_none())?;
        chk("der wrong s tag", der_decode(&h("3006020101030101")).is_none())?;
        chk("der outer length too big", der_decode(&h("3007020101020101")).is_none())?;
        chk("der outer length too small", der_decode(&h("3005020101020101")).is_none())?;
        chk("der long-form outer length", der_decode(&h("308106020101020101")).is_none())?;
        chk("der zero-length r", der_decode(&h("30060200020101ff")).is_none() && der_decode(&h("300602000202ff01")).is_none())?;
        chk("der zero-length s", der_decode(&h("3006020201010200")).is_none())?;
        chk("der r length overruns", der_decode(&h("3006020501020101")).is_none())?;
        chk("der s length short", der_decode(&h("300702010102010101")).is_none())?;
        chk("der too short", der_decode(&h("30050201010201")).is_none() && der_decode(&[]).is_none())?;
        // 33-byte r and s with leading 00: the maximum 72 bytes
        let big = (BigUint::one() << 256u32) - 1u32;
        let enc = der_encode(&big, &big);
        chk("der max size is 72", enc.len() == 72 && der_decode(&enc) == Some((big.clone(), big.clone())))?;
        // 73 bytes: one extra content byte in s, still well-formed DER but beyond BIP66
        let huge = (BigUint::one() << 264u32) - 1u32;
        let enc = der_encode(&big, &huge);
        chk("der 73 bytes rejected", enc.len() == 73 && der_decode(&enc).is_none())?;
    }

    // be32 / from_be
    chk("be32(1)", be32(&one)[31] == 1 && be32(&one)[..31].iter().all(|b| *b == 0))?;
    chk("from_be(be32(n))", from_be(&be32(&nn)) == nn)?;
    chk("from_be(empty) == 0", from_be(&[]).is_zero())?;

    Ok(count)
}
