//! Reference hash functions, HMAC and PBKDF2, written from the standards
//! (FIPS 180-4, the RIPEMD-160 paper, RFC 2104, RFC 8018). No external crates.
//! Deliberately boring: byte-at-a-time padding, no streaming.

#[derive(Clone, Copy, Debug, PartialEq, Eq)]
pub enum H {
    Sha1,
    Sha256,
    Sha256d,
    Sha512,
    Ripemd160,
    Hash160,
}

pub const ALL: [H; 6] = [H::Sha1, H::Sha256, H::Sha256d, H::Sha512, H::Ripemd160, H::Hash160];

impl H {
    pub fn name(self) -> &'static str {
        match self {
            H::Sha1 => "sha1",
            H::Sha256 => "sha256",
            H::Sha256d => "sha256d",
            H::Sha512 => "sha512",
            H::Ripemd160 => "ripemd160",
            H::Hash160 => "hash160",
        }
    }
    /// Block length used by HMAC. The composite digests are driven with a 64-byte block.
    pub fn block_len(self) -> usize {
        match self {
            H::Sha512 => 128,
            _ => 64,
        }
    }
}

pub fn hash(h: H, data: &[u8]) -> Vec<u8> {
    match h {
        H::Sha1 => sha1(data).to_vec(),
        H::Sha256 => sha256(data).to_vec(),
        H::Sha256d => sha256d(data).to_vec(),
        H::Sha512 => sha512(data).to_vec(),
        H::Ripemd160 => ripemd160(data).to_vec(),
        H::Hash160 => hash160(data).to_vec(),
    }
}

fn pad_md(data: &[u8], block: usize, len_bytes: usize, big_endian: bool) -> Vec<u8> {
    let mut m = data.to_vec();
    m.push(0x80);
    while (m.len() + len_bytes) % block != 0 {
        m.push(0);
    }
    let bits = (data.len() as u128) * 8;
    if big_endian {
        let b = bits.to_be_bytes();
        m.extend_from_slice(&b[16 - len_bytes..]);
    } else {
        let b = bits.to_le_bytes();
        m.extend_from_slice(&b[..len_bytes]);
    }
    m
}

pub fn sha1(data: &[u8]) -> [u8; 20] {
    let mut h: [u32; 5] = [0x67452301, 0xEFCDAB89, 0x98BADCFE, 0x10325476, 0xC3D2E1F0];
    let m = pad_md(data, 64, 8, true);
    for chunk in m.chunks(64) {
        let mut w = [0u32; 80];
        for i in 0..16 {
            w[i] = u32::from_be_bytes([chunk[4 * i], chunk[4 * i + 1], chunk[4 * i + 2], chunk[4 * i + 3]]);
        }
        for i in 16..80 {
            w[i] = (w[i - 3] ^ w[i - 8] ^ w[i - 14] ^ w[i - 16]).rotate_left(1);
        }
        let (mut a, mut b, mut c, mut d, mut e) = (h[0], h[1], h[2], h[3], h[4]);
        for i in 0..80 {
            let (f, k) = match i {
                0..=19 => ((b & c) | (!b & d), 0x5A827999u32),
                20..=39 => (b ^ c ^ d, 0x6ED9EBA1),
                40..=59 => ((b & c) | (b & d) | (c & d), 0x8F1BBCDC),
                _ => (b ^ c ^ d, 0xCA62C1D6),
            };
            let t = a.rotate_left(5).wrapping_add(f).wrapping_add(e).wrapping_add(k).wrapping_add(w[i]);
            e = d;
            d = c;
            c = b.rotate_left(30);
            b = a;
            a = t;
        }
        h[0] = h[0].wrapping_add(a);
        h[1] = h[1].wrapping_add(b);
        h[2] = h[2].wrapping_add(c);
        h[3] = h[3].wrapping_add(d);
        h[4] = h[4].wrapping_add(e);
    }
    let mut out = [0u8; 20];
    for i in 0..5 {
        out[4 * i..4 * i + 4].copy_from_slice(&h[i].to_be_bytes());
    }
    out
}

const K256: [u32; 64] = [
    0x428a2f98, 0x71374491, 0xb5c0fbcf, 0xe9b5dba5, 0x3956c25b, 0x59f111f1, 0x923f82a4, 0xab1c5ed5, 0xd807aa98, 0x12835b01, 0x243185be, 0x550c7dc3, 0x72be5d74, 0x80deb1fe,
    0x9bdc06a7, 0xc19bf174, 0xe49b69c1, 0xefbe4786, 0x0fc19dc6, 0x240ca1cc, 0x2de92c6f, 0x4a7484aa, 0x5cb0a9dc, 0x76f988da, 0x983e5152, 0xa831c66d, 0xb00327c8, 0xbf597fc7,
    0xc6e00bf3, 0xd5a79147, 0x06ca6351, 0x14292967, 0x27b70a85, 0x2e1b2138, 0x4d2c6dfc, 0x53380d13, 0x650a7354, 0x766a0abb, 0x81c2c92e, 0x92722c85, 0xa2bfe8a1, 0xa81a664b,
    0xc24b8b70, 0xc76c51a3, 0xd192e819, 0xd6990624, 0xf40e3585, 0x106aa070, 0x19a4c116, 0x1e376c08, 0x2748774c, 0x34b0bcb5, 0x391c0cb3, 0x4ed8aa4a, 0x5b9cca4f, 0x682e6ff3,
    0x748f82ee, 0x78a5636f, 0x84c87814, 0x8cc70208, 0x90befffa, 0xa4506ceb, 0xbef9a3f7, 0xc67178f2,
];

pub fn sha256(data: &[u8]) -> [u8; 32] {
    let mut h: [u32; 8] = [0x6a09e667, 0xbb67ae85, 0x3c6ef372, 0xa54ff53a, 0x510e527f, 0x9b05688c, 0x1f83d9ab, 0x5be0cd19];
    let m = pad_md(data, 64, 8, true);
    for chunk in m.chunks(64) {
        let mut w = [0u32; 64];
        for i in 0..16 {
            w[i] = u32::from_be_bytes([chunk[4 * i], chunk[4 * i + 1], chunk[4 * i + 2], chunk[4 * i + 3]]);
        }
        for i in 16..64 {
            let s0 = w[i - 15].rotate_right(7) ^ w[i - 15].rotate_right(18) ^ (w[i - 15] >> 3);
            let s1 = w[i - 2].rotate_right(17) ^ w[i - 2].rotate_right(19) ^ (w[i - 2] >> 10);
            w[i] = w[i - 16].wrapping_add(s0).wrapping_add(w[i - 7]).wrapping_add(s1);
        }
        let mut v = h;
        for i in 0..64 {
            let s1 = v[4].rotate_right(6) ^ v[4].rotate_right(11) ^ v[4].rotate_right(25);
            let ch = (v[4] & v[5]) ^ (!v[4] & v[6]);
            let t1 = v[7].wrapping_add(s1).wrapping_add(ch).wrapping_add(K256[i]).wrapping_add(w[i]);
            let s0 = v[0].rotate_right(2) ^ v[0].rotate_right(13) ^ v[0].rotate_right(22);
            let maj = (v[0] & v[1]) ^ (v[0] & v[2]) ^ (v[1] & v[2]);
            let t2 = s0.wrapping_add(maj);
            v[7] = v[6];
            v[6] = v[5];
            v[5] = v[4];
            v[4] = v[3].wrapping_add(t1);
            v[3] = v[2];
            v[2] = v[1];
            v[1] = v[0];
            v[0] = t1.wrapping_add(t2);
        }
        for i in 0..8 {
            h[i] = h[i].wrapping_add(v[i]);
        }
    }
    let mut out = [0u8; 32];
    for i in 0..8 {
        out[4 * i..4 * i + 4].copy_from_slice(&h[i].to_be_bytes());
    }
    out
}

pub fn sha256d(data: &[u8]) -> [u8; 32] {
    sha256(&sha256(data))
}

const K512: [u64; 80] = [
    0x428a2f98d728ae22, 0x7137449123ef65cd, 0xb5c0fbcfec4d3b2f, 0xe9b5dba58189dbbc, 0x3956c25bf348b538, 0x59f111f1b605d019, 0x923f82a4af194f9b, 0xab1c5ed5da6d8118,
    0xd807aa98a3030242, 0x12835b0145706fbe, 0x243185be4ee4b28c, 0x550c7dc3d5ffb4e2, 0x72be5d74f27b896f, 0x80deb1fe3b1696b1, 0x9bdc06a725c71235, 0xc19bf174cf692694,
    0xe49b69c19ef14ad2, 0xefbe4786384f25e3, 0x0fc19dc68b8cd5b5, 0x240ca1cc77ac9c65, 0x2de92c6f592b0275, 0x4a7484aa6ea6e483, 0x5cb0a9dcbd41fbd4, 0x76f988da831153b5,
    0x983e5152ee66dfab, 0xa831c66d2db43210, 0xb00327c898fb213f, 0xbf597fc7beef0ee4, 0xc6e00bf33da88fc2, 0xd5a79147930aa725, 0x06ca6351e003826f, 0x142929670a0e6e70,
    0x27b70a8546d22ffc, 0x2e1b21385c26c926, 0x4d2c6dfc5ac42aed, 0x53380d139d95b3df, 0x650a73548baf63de, 0x766a0abb3c77b2a8, 0x81c2c92e47edaee6, 0x92722c851482353b,
    0xa2bfe8a14cf10364, 0xa81a664bbc423001, 0xc24b8b70d0f89791, 0xc76c51a30654be30, 0xd192e819d6ef5218, 0xd69906245565a910, 0xf40e35855771202a, 0x106aa07032bbd1b8,
    0x19a4c116b8d2d0c8, 0x1e376c085141ab53, 0x2748774cdf8eeb99, 0x34b0bcb5e19b48a8, 0x391c0cb3c5c95a63, 0x4ed8aa4ae3418acb, 0x5b9cca4f7763e373, 0x682e6ff3d6b2b8a3,
    0x748f82ee5defb2fc, 0x78a5636f43172f60, 0x84c87814a1f0ab72, 0x8cc702081a6439ec, 0x90befffa23631e28, 0xa4506cebde82bde9, 0xbef9a3f7b2c67915, 0xc67178f2e372532b,
    0xca273eceea26619c, 0xd186b8c721c0c207, 0xeada7dd6cde0eb1e, 0xf57d4f7fee6ed178, 0x06f067aa72176fba, 0x0a637dc5a2c898a6, 0x113f9804bef90dae, 0x1b710b35131c471b,
    0x28db77f523047d84, 0x32caab7b40c72493, 0x3c9ebe0a15c9bebc, 0x431d67c49c100d4c, 0x4cc5d4becb3e42b6, 0x597f299cfc657e2a, 0x5fcb6fab3ad6faec, 0x6c44198c4a475817,
];

pub fn sha512(data: &[u8]) -> [u8; 64] {
    let mut h: [u64; 8] = [
        0x6a09e667f3bcc908,
        0xbb67ae8584caa73b,
        0x3c6ef372fe94f82b,
        0xa54ff53a5f1d36f1,
        0x510e527fade682d1,
        0x9b05688c2b3e6c1f,
        0x1f83d9abfb41bd6b,
        0x5be0cd19137e2179,
    ];
    let m = pad_md(data, 128, 16, true);
    for chunk in m.chunks(128) {
        let mut w = [0u64; 80];
        for i in 0..16 {
            let mut b = [0u8; 8];
            b.copy_from_slice(&chunk[8 * i..8 * i + 8]);
            w[i] = u64::from_be_bytes(b);
        }
        for i in 16..80 {
            let s0 = w[i - 15].rotate_right(1) ^ w[i - 15].rotate_right(8) ^ (w[i - 15] >> 7);
            let s1 = w[i - 2].rotate_right(19) ^ w[i - 2].rotate_right(61) ^ (w[i - 2] >> 6);
            w[i] = w[i - 16].wrapping_add(s0).wrapping_add(w[i - 7]).wrapping_add(s1);
        }
        let mut v = h;
        for i in 0..80 {
            let s1 = v[4].rotate_right(14) ^ v[4].rotate_right(18) ^ v[4].rotate_right(41);
            let ch = (v[4] & v[5]) ^ (!v[4] & v[6]);
            let t1 = v[7].wrapping_add(s1).wrapping_add(ch).wrapping_add(K512[i]).wrapping_add(w[i]);
            let s0 = v[0].rotate_right(28) ^ v[0].rotate_right(34) ^ v[0].rotate_right(39);
            let maj = (v[0] & v[1]) ^ (v[0] & v[2]) ^ (v[1] & v[2]);
            let t2 = s0.wrapping_add(maj);
            v[7] = v[6];
            v[6] = v[5];
            v[5] = v[4];
            v[4] = v[3].wrapping_add(t1);
            v[3] = v[2];
            v[2] = v[1];
            v[1] = v[0];
            v[0] = t1.wrapping_add(t2);
        }
        for i in 0..8 {
            h[i] = h[i].wrapping_add(v[i]);
        }
    }
    let mut out = [0u8; 64];
    for i in 0..8 {
        out[8 * i..8 * i + 8].copy_from_slice(&h[i].to_be_bytes());
    }
    out
}

pub fn ripemd160(data: &[u8]) -> [u8; 20] {
    const R1: [usize; 80] = [
        0, 1, 2, 3, 4, 5, 6, 7, 8, 9, 10, 11, 12, 13, 14, 15, 7, 4, 13, 1, 10, 6, 15, 3, 12, 0, 9, 5, 2, 14, 11, 8, 3, 10, 14, 4, 9, 15, 8, 1, 2, 7, 0, 6, 13, 11, 5, 12, 1, 9, 11, 10,
        0, 8, 12, 4, 13, 3, 7, 15, 14, 5, 6, 2, 4, 0, 5, 9, 7, 12, 2, 10, 14, 1, 3, 8, 11, 6, 15, 13,
    ];
    const R2: [usize; 80] = [
        5, 14, 7, 0, 9, 2, 11, 4, 13, 6, 15, 8, 1, 10, 3, 12, 6, 11, 3, 7, 0, 13, 5, 10, 14, 15, 8, 12, 4, 9, 1, 2, 15, 5, 1, 3, 7, 14, 6, 9, 11, 8, 12, 2, 10, 0, 4, 13, 8, 6, 4, 1, 3,
        11, 15, 0, 5, 12, 2, 13, 9, 7, 10, 14, 12, 15, 10, 4, 1, 5, 8, 7, 6, 2, 13, 14, 0, 3, 9, 11,
    ];
    const S1: [u32; 80] = [
        11, 14, 15, 12, 5, 8, 7, 9, 11, 13, 14, 15, 6, 7, 9, 8, 7, 6, 8, 13, 11, 9, 7, 15, 7, 12, 15, 9, 11, 7, 13, 12, 11, 13, 6, 7, 14, 9, 13, 15, 14, 8, 13, 6, 5, 12, 7, 5, 11, 12,
        14, 15, 14, 15, 9, 8, 9, 14, 5, 6, 8, 6, 5, 12, 9, 15, 5, 11, 6, 8, 13, 12, 5, 12, 13, 14, 11, 8, 5, 6,
    ];
    const S2: [u32; 80] = [
        8, 9, 9, 11, 13, 15, 15, 5, 7, 7, 8, 11, 14, 14, 12, 6, 9, 13, 15, 7, 12, 8, 9, 11, 7, 7, 12, 7, 6, 15, 13, 11, 9, 7, 15, 11, 8, 6, 6, 14, 12, 13, 5, 14, 13, 13, 7, 5, 15, 5, 8,
        11, 14, 14, 6, 14, 6, 9, 12, 9, 12, 5, 15, 8, 8, 5, 12, 9, 12, 5, 14, 6, 8, 13, 6, 5, 15, 13, 11, 11,
    ];
    const KL: [u32; 5] = [0x00000000, 0x5A827999, 0x6ED9EBA1, 0x8F1BBCDC, 0xA953FD4E];
    const KR: [u32; 5] = [0x50A28BE6, 0x5C4DD124, 0x6D703EF3, 0x7A6D76E9, 0x00000000];
    fn f(j: usize, x: u32, y: u32, z: u32) -> u32 {
        match j / 16 {
            0 => x ^ y ^ z,
            1 => (x & y) | (!x & z),
            2 => (x | !y) ^ z,
            3 => (x & z) | (y & !z),
            _ => x ^ (y | !z),
        }
    }
    let mut h: [u32; 5] = [0x67452301, 0xEFCDAB89, 0x98BADCFE, 0x10325476, 0xC3D2E1F0];
    let m = pad_md(data, 64, 8, false);
    for chunk in m.chunks(64) {
        let mut x = [0u32; 16];
        for i in 0..16 {
            x[i] = u32::from_le_bytes([chunk[4 * i], chunk[4 * i + 1], chunk[4 * i + 2], chunk[4 * i + 3]]);
        }
        let (mut al, mut bl, mut cl, mut dl, mut el) = (h[0], h[1], h[2], h[3], h[4]);
        let (mut ar, mut br, mut cr, mut dr, mut er) = (h[0], h[1], h[2], h[3], h[4]);
        for j in 0..80 {
            let t = al.wrapping_add(f(j, bl, cl, dl)).wrapping_add(x[R1[j]]).wrapping_add(KL[j / 16]).rotate_left(S1[j]).wrapping_add(el);
            al = el;
            el = dl;
            dl = cl.rotate_left(10);
            cl = bl;
            bl = t;
            let t = ar.wrapping_add(f(79 - j, br, cr, dr)).wrapping_add(x[R2[j]]).wrapping_add(KR[j / 16]).rotate_left(S2[j]).wrapping_add(er);
            ar = er;
            er = dr;
            dr = cr.rotate_left(10);
            cr = br;
            br = t;
        }
        let t = h[1].wrapping_add(cl).wrapping_add(dr);
        h[1] = h[2].wrapping_add(dl).wrapping_add(er);
        h[2] = h[3].wrapping_add(el).wrapping_add(ar);
        h[3] = h[4].wrapping_add(al).wrapping_add(br);
        h[4] = h[0].wrapping_add(bl).wrapping_add(cr);
        h[0] = t;
    }
    let mut out = [0u8; 20];
    for i in 0..5 {
        out[4 * i..4 * i + 4].copy_from_slice(&h[i].to_le_bytes());
    }
    out
}

pub fn hash160(data: &[u8]) -> [u8; 20] {
    ripemd160(&sha256(data))
}

/// RFC 2104 HMAC over any of the digests; composite digests use a 64-byte block.
pub fn hmac(h: H, key: &[u8], msg: &[u8]) -> Vec<u8> {
    let b = h.block_len();
    let mut k = if key.len() > b { hash(h, key) } else { key.to_vec() };
    k.resize(b, 0);
    let mut inner: Vec<u8> = k.iter().map(|x| x ^ 0x36).collect();
    inner.extend_from_slice(msg);
    let ih = hash(h, &inner);
    let mut outer: Vec<u8> = k.iter().map(|x| x ^ 0x5c).collect();
    outer.extend_from_slice(&ih);
    hash(h, &outer)
}

pub fn hmac_sha256(key: &[u8], msg: &[u8]) -> [u8; 32] {
    let v = hmac(H::Sha256, key, msg);
    let mut o = [0u8; 32];
    o.copy_from_slice(&v);
    o
}

pub fn hmac_sha512(key: &[u8], msg: &[u8]) -> [u8; 64] {
    let v = hmac(H::Sha512, key, msg);
    let mut o = [0u8; 64];
    o.copy_from_slice(&v);
    o
}

/// RFC 8018 PBKDF2 with HMAC-h as PRF.
pub fn pbkdf2(h: H, password: &[u8], salt: &[u8], iterations: u32, out_len: usize) -> Vec<u8> {
    let mut out = Vec::with_capacity(out_len);
    let mut block: u32 = 1;
    while out.len() < out_len {
        let mut s = salt.to_vec();
        s.extend_from_slice(&block.to_be_bytes());
        let mut u = hmac(h, password, &s);
        let mut t = u.clone();
        for _ in 1..iterations {
            u = hmac(h, password, &u);
            for (a, b) in t.iter_mut().zip(u.iter()) {
                *a ^= b;
            }
        }
        out.extend_from_slice(&t);
        block += 1;
    }
    out.truncate(out_len);
    out
}

/// Known-answer tests (FIPS 180-4 examples, RIPEMD-160 paper, RFC 2202/4231/6070).
pub fn selftest() -> Result<usize, String> {
    let mut n = 0;
    let mut chk = |name: &str, got: Vec<u8>, want: &str| -> Result<(), String> {
        n += 1;
        if hex::encode(&got) != want {
            return Err(format!("refs::hashes KAT {} failed: got {}", name, hex::encode(got)));
        }
        Ok(())
    };
    chk("sha1(abc)", sha1(b"abc").to_vec(), "a9993e364706816aba3e25717850c26c9cd0d89d")?;
    chk("sha1('')", sha1(b"").to_vec(), "da39a3ee5e6b4b0d3255bfef95601890afd80709")?;
    chk("sha256(abc)", sha256(b"abc").to_vec(), "ba7816bf8f01cfea414140de5dae2223b00361a396177a9cb410ff61f20015ad")?;
    chk("sha256('')", sha256(b"").to_vec(), "e3b0c44298fc1c149afbf4c8996fb92427ae41e4649b934ca495991b7852b855")?;
    chk(
        "sha256(448 bits)",
        sha256(b"abcdbcdecdefdefgefghfghighijhijkijkljklmklmnlmnomnopnopq").to_vec(),
        "248d6a61d20638b8e5c026930c3e6039a33ce45964ff2167f6ecedd419db06c1",
    )?;
    chk(
        "sha512(abc)",
        sha512(b"abc").to_vec(),
        "ddaf35a193617abacc417349ae20413112e6fa4e89a97ea20a9eeee64b55d39a2192992a274fc1a836ba3c23a3feebbd454d4423643ce80e2a9ac94fa54ca49f",
    )?;
    chk(
        "sha512('')",
        sha512(b"").to_vec(),
        "cf83e1357eefb8bdf1542850d66d8007d620e4050b5715dc83f4a921d36ce9ce47d0d13c5d85f2b0ff8318d2877eec2f63b931bd47417a81a538327af927da3e",
    )?;
    chk("ripemd160('')", ripemd160(b"").to_vec(), "9c1185a5c5e9fc54612808977ee8f548b2258d31")?;
    chk("ripemd160(abc)", ripemd160(b"abc").to_vec(), "8eb208f7e05d987a9b044a8e98c6b087f15a0bfc")?;
    chk("ripemd160(message digest)", ripemd160(b"message digest").to_vec(), "5d0689ef49d2fae572b881b123a85ffa21595f36")?;
    chk(
        "ripemd160(a..z)",
        ripemd160(b"abcdefghijklmnopqrstuvwxyz").to_vec(),
        "f71c27109c692c1b56bbdceb5b9d2865b3708dbc",
    )?;
    // RFC 4231 test case 2
    chk(
        "hmac-sha256 rfc4231#2",
        hmac(H::Sha256, b"Jefe", b"what do ya want for nothing?"),
        "5bdcc146bf60754e6a042426089575c75a003f089d2739839dec58b964ec3843",
    )?;
    chk(
        "hmac-sha512 rfc4231#2",
        hmac(H::Sha512, b"Jefe", b"what do ya want for nothing?"),
        "164b7a7bfcf819e2e395fbe73b56e0a387bd64222e831fd610270cd7ea2505549758bf75c05a994a6d034f65f8f0e6fdcaeab1a34d4a6b4b636e070a38bce737",
    )?;
    // RFC 4231 test case 6 (key longer than block)
    chk(
        "hmac-sha256 rfc4231#6",
        hmac(H::Sha256, &[0xaa; 131], b"Test Using Larger Than Block-Size Key - Hash Key First"),
        "60e431591ee0b67f0d8a26aacbf5b77f8e0bc6213728c5140546040f0ee37f54",
    )?;
    // RFC 2202
    chk("hmac-sha1 rfc2202#2", hmac(H::Sha1, b"Jefe", b"what do ya want for nothing?"), "effcdf6ae5eb2fa2d27416d5f184df9c259a7c79")?;
    // RFC 2286
    chk(
        "hmac-ripemd160 rfc2286#2",
        hmac(H::Ripemd160, b"Jefe", b"what do ya want for nothing?"),
        "dda6c0213a485a9e24f4742064a7f033b43c4069",
    )?;
    // RFC 6070
    chk("pbkdf2-sha1 rfc6070#1", pbkdf2(H::Sha1, b"password", b"salt", 1, 20), "0c60c80f961f0e71f3a9b524af6012062fe037a6")?;
    chk("pbkdf2-sha1 rfc6070#2", pbkdf2(H::Sha1, b"password", b"salt", 2, 20), "ea6c014dc72d6f8ccd1ed92ace1d41f0d8de8957")?;
    chk(
        "pbkdf2-sha1 rfc6070#5",
        pbkdf2(H::Sha1, b"passwordPASSWORDpassword", b"saltSALTsaltSALTsaltSALTsaltSALTsalt", 4096, 25),
        "3d2eec4fe41c849b80c8d83662c0e44a8b291a964cf2f07038",
    )?;
    chk(
        "pbkdf2-sha256",
        pbkdf2(H::Sha256, b"password", b"salt", 2, 32),
        "ae4d0c95af6b46d32d0adff928f06dd02a303f8ef3c251dfd6e2d85a95474c43",
    )?;
    Ok(n)
}
