//! Reference Base58 / Base58Check / WIF / P2PKH address / BIP32, written from the
//! Bitcoin wiki descriptions and BIP32 on top of num-bigint, `refs::hashes` and
//! `refs::secp` only. Written for obviousness, not speed.

use super::hashes;
use super::secp;
use num_bigint::BigUint;
use num_traits::Zero;

// ---------------------------------------------------------------------------
// Base58
// ---------------------------------------------------------------------------

const ALPHABET: &[u8; 58] = b"123456789ABCDEFGHJKLMNPQRSTUVWXYZabcdefghijkmnopqrstuvwxyz";

/// Bitcoin alphabet; the input is read as one big-endian number, each leading zero
/// byte becomes one leading '1'.
pub fn b58_encode(data: &[u8]) -> String {
    let zeros = data.iter().take_while(|b| **b == 0).count();
    let mut num = BigUint::from_bytes_be(data);
    let fifty_eight = BigUint::from(58u32);
    let mut digits: Vec<u8> = Vec::new(); // least significant first
    while !num.is_zero() {
        let rem = &num % &fifty_eight;
        num = &num / &fifty_eight;
        let idx = rem.to_u32_digits().first().copied().unwrap_or(0) as usize;
        digits.push(ALPHABET[idx]);
    }
    let mut out = String::new();
    for _ in 0..zeros {
        out.push('1');
    }
    for d in digits.iter().rev() {
        out.push(*d as char);
    }
    out
}

/// None on any character outside the alphabet (no whitespace trimming).
/// The empty string decodes to the empty byte string.
pub fn b58_decode(s: &str) -> Option<Vec<u8>> {
    let mut num = BigUint::zero();
    for c in s.bytes() {
        let idx = ALPHABET.iter().position(|a| *a == c)?;
        num = num * 58u32 + idx as u32;
    }
    let ones = s.bytes().take_while(|c| *c == b'1').count();
    let mut out = vec![0u8; ones];
    if !num.is_zero() {
        out.extend_from_slice(&num.to_bytes_be());
    }
    Some(out)
}

/// payload || sha256d(payload)[0..4]
pub fn check_encode(payload: &[u8]) -> String {
    let mut data = payload.to_vec();
    data.extend_from_slice(&hashes::sha256d(payload)[0..4]);
    b58_encode(&data)
}

/// payload if the checksum matches and the decoded length is >= 4
pub fn check_decode(s: &str) -> Option<Vec<u8>> {
    let data = b58_decode(s)?;
    if data.len() < 4 {
        return None;
    }
    let (payload, checksum) = data.split_at(data.len() - 4);
    if hashes::sha256d(payload)[0..4] != *checksum {
        return None;
    }
    Some(payload.to_vec())
}

// ---------------------------------------------------------------------------
// WIF, addresses, scripts
// ---------------------------------------------------------------------------

/// prefix || key || (01 if compressed), Base58Check
pub fn wif_encode(key32: &[u8; 32], compressed: bool, prefix: u8) -> String {
    let mut payload = vec![prefix];
    payload.extend_from_slice(key32);
    if compressed {
        payload.push(0x01);
    }
    check_encode(&payload)
}

/// (prefix, key, compressed): payload must be exactly 33 bytes, or 34 bytes ending in 0x01.
/// The key value itself is not range checked.
pub fn wif_decode(s: &str) -> Option<(u8, [u8; 32], bool)> {
    let payload = check_decode(s)?;
    let compressed = match payload.len() {
        33 => false,
        34 if payload[33] == 0x01 => true,
        _ => return None,
    };
    let mut key = [0u8; 32];
    key.copy_from_slice(&payload[1..33]);
    Some((payload[0], key, compressed))
}

pub fn address_encode(prefix: u8, hash160: &[u8; 20]) -> String {
    let mut payload = vec![prefix];
    payload.extend_from_slice(hash160);
    check_encode(&payload)
}

/// payload must be exactly 21 bytes
pub fn address_decode(s: &str) -> Option<(u8, [u8; 20])> {
    let payload = check_decode(s)?;
    if payload.len() != 21 {
        return None;
    }
    let mut h = [0u8; 20];
    h.copy_from_slice(&payload[1..21]);
    Some((payload[0], h))
}

/// OP_DUP OP_HASH160 <20 bytes> OP_EQUALVERIFY OP_CHECKSIG = 76 a9 14 <h> 88 ac
pub fn p2pkh_script(hash160: &[u8; 20]) -> Vec<u8> {
    let mut s = vec![0x76, 0xa9, 0x14];
    s.extend_from_slice(hash160);
    s.push(0x88);
    s.push(0xac);
    s
}

// ---------------------------------------------------------------------------
// BIP32
// ---------------------------------------------------------------------------

#[derive(Clone, Debug, PartialEq, Eq)]
pub struct XKey {
    pub is_private: bool,
    pub version: u32,
    pub depth: u8,
    pub parent_fp: [u8; 4],
    pub index: u32,
    pub chain_code: [u8; 32],
    /// 32-byte secret for private keys, 33-byte compressed point for public keys
    pub key: Vec<u8>,
}

pub const XPRV_VERSION: u32 = 0x0488ade4;
pub const XPUB_VERSION: u32 = 0x0488b21e;
const TPRV_VERSION: u32 = 0x04358394;
const TPUB_VERSION: u32 = 0x043587cf;

fn split_i(i: &[u8; 64]) -> (BigUint, [u8; 32]) {
    let il = secp::from_be(&i[0..32]);
    let mut ir = [0u8; 32];
    ir.copy_from_slice(&i[32..64]);
    (il, ir)
}

/// Compressed public key (33 bytes) of an extended key, private or public.
fn xkey_pubkey(k: &XKey) -> Vec<u8> {
    if k.is_private {
        secp::encode_point(&secp::mul_g(&secp::from_be(&k.key)), true)
    } else {
        k.key.clone()
    }
}

/// I = HMAC-SHA512(key = "Bitcoin seed", data = seed); None if IL == 0 or IL >= n.
/// The seed length is not restricted here.
pub fn bip32_master(seed: &[u8]) -> Option<XKey> {
    let i = hashes::hmac_sha512(b"Bitcoin seed", seed);
    let (il, ir) = split_i(&i);
    if il.is_zero() || il >= secp::n() {
        return None;
    }
    Some(XKey {
        is_private: true,
        version: XPRV_VERSION,
        depth: 0,
        parent_fp: [0; 4],
        index: 0,
        chain_code: ir,
        key: secp::be32(&il).to_vec(),
    })
}

/// CKDpriv. Hardened iff index >= 2^31. None if the parent is not private, the
/// parent depth is 255, IL >= n or the child key is 0.
pub fn bip32_ckd_priv(parent: &XKey, index: u32) -> Option<XKey> {
    if !parent.is_private || parent.key.len() != 32 {
        return None;
    }
    let depth = parent.depth.checked_add(1)?;
    let k_par = secp::from_be(&parent.key);
    let mut data: Vec<u8> = Vec::new();
    if index >= 0x8000_0000 {
        data.push(0x00);
        data.extend_from_slice(&parent.key);
    } else {
        data.extend_from_slice(&xkey_pubkey(parent));
    }
    data.extend_from_slice(&index.to_be_bytes());
    let i = hashes::hmac_sha512(&parent.chain_code, &data);
    let (il, ir) = split_i(&i);
    let n = secp::n();
    if il >= n {
        return None;
    }
    let k_child = (il + k_par) % &n;
    if k_child.is_zero() {
        return None;
    }
    Some(XKey {
        is_private: true,
        version: parent.version,
        depth,
        parent_fp: bip32_fingerprint(parent),
        index,
        chain_code: ir,
        key: secp::be32(&k_child).to_vec(),
    })
}

/// CKDpub. None if the parent is not public, the index is hardened, the parent
/// depth is 255, the parent key is not a valid point, IL >= n or the child is infinity.
pub fn bip32_ckd_pub(parent: &XKey, index: u32) -> Option<XKey> {
    if parent.is_private || index >= 0x8000_0000 {
        return None;
    }
    let depth = parent.depth.checked_add(1)?;
    if parent.key.len() != 33 {
        return None;
    }
    let k_par = secp::decode_point(&parent.key)?;
    let mut data = parent.key.clone();
    data.extend_from_slice(&index.to_be_bytes());
    let i = hashes::hmac_sha512(&parent.chain_code, &data);
    let (il, ir) = split_i(&i);
    if il >= secp::n() {
        return None;
    }
    let child = secp::add(&secp::mul_g(&il), &k_par);
    if child == secp::Point::Infinity {
        return None;
    }
    Some(XKey {
        is_private: false,
        version: parent.version,
        depth,
        parent_fp: bip32_fingerprint(parent),
        index,
        chain_code: ir,
        key: secp::encode_point(&child, true),
    })
}

/// N(): private -> public with the same chain code. xprv/tprv versions map to
/// xpub/tpub, any other version is kept. Public keys are returned unchanged.
pub fn bip32_neuter(k: &XKey) -> XKey {
    if !k.is_private {
        return k.clone();
    }
    let version = match k.version {
        XPRV_VERSION => XPUB_VERSION,
        TPRV_VERSION => TPUB_VERSION,
        v => v,
    };
    XKey {
        is_private: false,
        version,
        depth: k.depth,
        parent_fp: k.parent_fp,
        index: k.index,
        chain_code: k.chain_code,
        key: xkey_pubkey(k),
    }
}

/// version(4) depth(1) parent_fp(4) index(4) chain_code(32) key(33; private: 00 || k), Base58Check
pub fn bip32_serialize(k: &XKey) -> String {
    let mut payload: Vec<u8> = Vec::with_capacity(78);
    payload.extend_from_slice(&k.version.to_be_bytes());
    payload.push(k.depth);
    payload.extend_from_slice(&k.parent_fp);
    payload.extend_from_slice(&k.index.to_be_bytes());
    payload.extend_from_slice(&k.chain_code);
    if k.is_private {
        assert!(k.key.len() == 32, "bip32_serialize: private key must be 32 bytes");
        payload.push(0x00);
    } else {
        assert!(k.key.len() == 33, "bip32_serialize: public key must be 33 bytes");
    }
    payload.extend_from_slice(&k.key);
    check_encode(&payload)
}

/// Strict: checksum ok, payload exactly 78 bytes, version is XPRV_VERSION (then byte
/// 45 must be 00 and the key in [1, n-1]) or XPUB_VERSION (then bytes 45..78 must
/// decode as a compressed curve point). Otherwise None.
/// (The depth-0 consistency rules of BIP32 test vector 5 are NOT applied here.)
pub fn bip32_deserialize(s: &str) -> Option<XKey> {
    let payload = check_decode(s)?;
    if payload.len() != 78 {
        return None;
    }
    let version = u32::from_be_bytes([payload[0], payload[1], payload[2], payload[3]]);
    let depth = payload[4];
    let mut parent_fp = [0u8; 4];
    parent_fp.copy_from_slice(&payload[5..9]);
    let index = u32::from_be_bytes([payload[9], payload[10], payload[11], payload[12]]);
    let mut chain_code = [0u8; 32];
    chain_code.copy_from_slice(&payload[13..45]);
    let (is_private, key) = if version == XPRV_VERSION {
        if payload[45] != 0x00 {
            return None;
        }
        let k = secp::from_be(&payload[46..78]);
        if k.is_zero() || k >= secp::n() {
            return None;
        }
        (true, payload[46..78].to_vec())
    } else if version == XPUB_VERSION {
        secp::decode_point(&payload[45..78])?;
        (false, payload[45..78].to_vec())
    } else {
        return None;
    };
    Some(XKey { is_private, version, depth, parent_fp, index, chain_code, key })
}

/// hash160(compressed pubkey)[0..4]
pub fn bip32_fingerprint(k: &XKey) -> [u8; 4] {
    let h = hashes::hash160(&xkey_pubkey(k));
    [h[0], h[1], h[2], h[3]]
}

// ---------------------------------------------------------------------------
// Self test
// ---------------------------------------------------------------------------

const H: u32 = 0x8000_0000;

pub fn selftest() -> Result<usize, String> {
    let mut count = 0usize;
    let mut chk = |name: &str, ok: bool| -> Result<(), String> {
        count += 1;
        if ok {
            Ok(())
        } else {
            Err(format!("refs::b58 selftest failed: {}", name))
        }
    };
    let unhex = |s: &str| hex::decode(s).unwrap();

    // Base58 basics
    chk("encode empty", b58_encode(&[]) == "")?;
    chk("decode empty", b58_decode("") == Some(vec![]))?;
    chk("encode 00", b58_encode(&[0]) == "1")?;
    chk("encode 0000", b58_encode(&[0, 0]) == "11")?;
    chk("decode 11", b58_decode("11") == Some(vec![0, 0]))?;
    chk("encode 57", b58_encode(&[57]) == "z")?;
    chk("encode 58", b58_encode(&[58]) == "21")?;
    chk("encode 00 58", b58_encode(&[0, 58]) == "121")?;
    chk("decode 121", b58_decode("121") == Some(vec![0, 58]))?;
    chk("encode 'Hello World!'", b58_encode(b"Hello World!") == "2NEpo7TZRRrLZSi2U")?;
    chk(
        "encode quick brown fox",
        b58_encode(b"The quick brown fox jumps over the lazy dog.") == "USm3fpXnKG5EUBx2ndxBDMPVciP5hGey2Jh4NDv6gmeo1LkMeiKrLJUUBk6Z",
    )?;
    chk("encode 0x0000287fb4cd", b58_encode(&unhex("0000287fb4cd")) == "11233QC4")?;
    chk("decode 11233QC4", b58_decode("11233QC4") == Some(unhex("0000287fb4cd")))?;
    for bad in ["0", "O", "I", "l", " 1", "1 ", "1\n", "abc+", "é"] {
        chk("invalid character rejected", b58_decode(bad).is_none())?;
    }
    for len in 0..40usize {
        for lead in 0..3usize {
            let mut data = vec![0u8; lead];
            for i in 0..len {
                data.push(hashes::sha256(&[len as u8, i as u8])[0]);
            }
            let enc = b58_encode(&data);
            chk("b58 round trip", b58_decode(&enc) == Some(data.clone()))?;
            let c = check_encode(&data);
            chk("check round trip", check_decode(&c) == Some(data.clone()))?;
            // corrupt one character
            let mut cb = c.clone().into_bytes();
            let last = cb.len() - 1;
            cb[last] = if cb[last] == b'2' { b'3' } else { b'2' };
            chk("corrupted checksum rejected", check_decode(std::str::from_utf8(&cb).unwrap()).is_none())?;
        }
    }
    chk("check_decode too short", check_decode("").is_none() && check_decode("1").is_none() && check_decode("111").is_none())?;
    chk("check_encode empty", check_encode(&[]) == "3QJmnh" && check_decode("3QJmnh") == Some(vec![]))?;

    // Private key 1
    let mut key1 = [0u8; 32];
    key1[31] = 1;
    let g = secp::g();
    let pub_c = secp::encode_point(&g, true);
    let pub_u = secp::encode_point(&g, false);
    let h_c = hashes::hash160(&pub_c);
    let h_u = hashes::hash160(&pub_u);
    chk("hash160 of compressed G", hex::encode(h_c) == "751e76e8199196d454941c45d1b3a323f1433bd6")?;
    chk("hash160 of uncompressed G", hex::encode(h_u) == "91b24bf9f5288532960ac687abb035127b1d28a5")?;
    chk("address key 1 compressed", address_encode(0x00, &h_c) == "1BgGZ9tcN4rm9KBzDn7KprQz87SZ26SAMH")?;
    chk("address key 1 uncompressed", address_encode(0x00, &h_u) == "1EHNa6Q4Jz2uvNExL497mE43ikXhwF6kZm")?;
    chk("address decode", address_decode("1BgGZ9tcN4rm9KBzDn7KprQz87SZ26SAMH") == Some((0x00, h_c)))?;
    chk("address decode 2", address_decode("1EHNa6Q4Jz2uvNExL497mE43ikXhwF6kZm") == Some((0x00, h_u)))?;
    chk("testnet address round trip", address_decode(&address_encode(0x6f, &h_c)) == Some((0x6f, h_c)))?;
    chk("address of wrong length rejected", address_decode(&check_encode(&[0u8; 20])).is_none() && address_decode(&check_encode(&[0u8; 22])).is_none())?;
    chk("WIF key 1 compressed", wif_encode(&key1, true, 0x80) == "KwDiBf89QgGbjEhKnhXJuH7LrciVrZi3qYjgd9M7rFU73sVHnoWn")?;
    chk("WIF key 1 uncompressed", wif_encode(&key1, false, 0x80) == "5HpHagT65TZzG1PH3CSu63k8DbpvD8s5ip4nEB3kEsreAnchuDf")?;
    chk("WIF decode compressed", wif_decode("KwDiBf89QgGbjEhKnhXJuH7LrciVrZi3qYjgd9M7rFU73sVHnoWn") == Some((0x80, key1, true)))?;
    chk("WIF decode uncompressed", wif_decode("5HpHagT65TZzG1PH3CSu63k8DbpvD8s5ip4nEB3kEsreAnchuDf") == Some((0x80, key1, false)))?;
    chk("WIF testnet round trip", wif_decode(&wif_encode(&key1, true, 0xef)) == Some((0xef, key1, true)))?;
    {
        // 34-byte payload not ending in 01, and wrong lengths
        let mut p = vec![0x80u8];
        p.extend_from_slice(&key1);
        p.push(0x02);
        chk("WIF bad compression flag", wif_decode(&check_encode(&p)).is_none())?;
        p.pop();
        p.pop();
        chk("WIF 32-byte payload", wif_decode(&check_encode(&p)).is_none())?;
        p.extend_from_slice(&[1, 1, 1]);
        chk("WIF 35-byte payload", wif_decode(&check_encode(&p)).is_none())?;
        chk("address is not a WIF", wif_decode("1BgGZ9tcN4rm9KBzDn7KprQz87SZ26SAMH").is_none())?;
        chk("WIF is not an address", address_decode("5HpHagT65TZzG1PH3CSu63k8DbpvD8s5ip4nEB3kEsreAnchuDf").is_none())?;
    }
    chk(
        "p2pkh script",
        hex::encode(p2pkh_script(&h_c)) == "76a914751e76e8199196d454941c45d1b3a323f1433bd688ac",
    )?;

    // BIP32 test vector 1
    let tv1: [(u32, &str, &str); 6] = [
        (
            0,
            "xpub661MyMwAqRbcFtXgS5sYJABqqG9YLmC4Q1Rdap9gSE8NqtwybGhePY2gZ29ESFjqJoCu1Rupje8YtGqsefD265TMg7usUDFdp6W1EGMcet8",
            "xprv9s21ZrQH143K3QTDL4LXw2F7HEK3wJUD2nW2nRk4stbPy6cq3jPPqjiChkVvvNKmPGJxWUtg6LnF5kejMRNNU3TGtRBeJgk33yuGBxrMPHi",
        ),
        (
            H,
            "xpub68Gmy5EdvgibQVfPdqkBBCHxA5htiqg55crXYuXoQRKfDBFA1WEjWgP6LHhwBZeNK1VTsfTFUHCdrfp1bgwQ9xv5ski8PX9rL2dZXvgGDnw",
            "xprv9uHRZZhk6KAJC1avXpDAp4MDc3sQKNxDiPvvkX8Br5ngLNv1TxvUxt4cV1rGL5hj6KCesnDYUhd7oWgT11eZG7XnxHrnYeSvkzY7d2bhkJ7",
        ),
        (
            1,
            "xpub6ASuArnXKPbfEwhqN6e3mwBcDTgzisQN1wXN9BJcM47sSikHjJf3UFHKkNAWbWMiGj7Wf5uMash7SyYq527Hqck2AxYysAA7xmALppuCkwQ",
            "xprv9wTYmMFdV23N2TdNG573QoEsfRrWKQgWeibmLntzniatZvR9BmLnvSxqu53Kw1UmYPxLgboyZQaXwTCg8MSY3H2EU4pWcQDnRnrVA1xe8fs",
        ),
        (
            2 + H,
            "xpub6D4BDPcP2GT577Vvch3R8wDkScZWzQzMMUm3PWbmWvVJrZwQY4VUNgqFJPMM3No2dFDFGTsxxpG5uJh7n7epu4trkrX7x7DogT5Uv6fcLW5",
            "xprv9z4pot5VBttmtdRTWfWQmoH1taj2axGVzFqSb8C9xaxKymcFzXBDptWmT7FwuEzG3ryjH4ktypQSAewRiNMjANTtpgP4mLTj34bhnZX7UiM",
        ),
        (
            2,
            "xpub6FHa3pjLCk84BayeJxFW2SP4XRrFd1JYnxeLeU8EqN3vDfZmbqBqaGJAyiLjTAwm6ZLRQUMv1ZACTj37sR62cfN7fe5JnJ7dh8zL4fiyLHV",
            "xprvA2JDeKCSNNZky6uBCviVfJSKyQ1mDYahRjijr5idH2WwLsEd4Hsb2Tyh8RfQMuPh7f7RtyzTtdrbdqqsunu5Mm3wDvUAKRHSC34sJ7in334",
        ),
        (
            1000000000,
            "xpub6H1LXWLaKsWFhvm6RVpEL9P4KfRZSW7abD2ttkWP3SSQvnyA8FSVqNTEcYFgJS2UaFcxupHiYkro49S8yGasTvXEYBVPamhGW6cFJodrTHy",
            "xprvA41z7zogVVwxVSgdKUHDy1SKmdb533PjDz7J6N6mV6uS3ze1ai8FHa8kmHScGpWmj4WggLyQjgPie1rFSruoUihUZREPSL39UNdE3BBDu76",
        ),
    ];
    let seed1 = unhex("000102030405060708090a0b0c0d0e0f");
    let mut cur = match bip32_master(&seed1) {
        Some(k) => k,
        None => return Err("refs::b58 selftest failed: tv1 master".into()),
    };
    for (step, (index, xpub, xprv)) in tv1.iter().enumerate() {
        if step > 0 {
            let parent = cur.clone();
            cur = match bip32_ckd_priv(&parent, *index) {
                Some(k) => k,
                None => return Err(format!("refs::b58 selftest failed: tv1 step {} derive", step)),
            };
            if *index < H {
                let via_pub = bip32_ckd_pub(&bip32_neuter(&parent), *index);
                chk(&format!("tv1 step {} CKDpub(N(parent)) == N(CKDpriv(parent))", step), via_pub == Some(bip32_neuter(&cur)))?;
            } else {
                chk("hardened CKDpub rejected", bip32_ckd_pub(&bip32_neuter(&parent), *index).is_none())?;
            }
        }
        chk(&format!("tv1 step {} xprv", step), bip32_serialize(&cur) == *xprv)?;
        chk(&format!("tv1 step {} xpub", step), bip32_serialize(&bip32_neuter(&cur)) == *xpub)?;
        chk(&format!("tv1 step {} xprv deserialize", step), bip32_deserialize(xprv) == Some(cur.clone()))?;
        chk(&format!("tv1 step {} xpub deserialize", step), bip32_deserialize(xpub) == Some(bip32_neuter(&cur)))?;
        chk("depth", cur.depth as usize == step)?;
    }
    chk(
        "tv1 final xprv (m/0'/1/2'/2/1000000000)",
        bip32_serialize(&cur) == "xprvA41z7zogVVwxVSgdKUHDy1SKmdb533PjDz7J6N6mV6uS3ze1ai8FHa8kmHScGpWmj4WggLyQjgPie1rFSruoUihUZREPSL39UNdE3BBDu76",
    )?;

    // BIP32 test vectors 2, 3 and 4 (4 has private keys with leading zero bytes)
    let seed2 = unhex("fffcf9f6f3f0edeae7e4e1dedbd8d5d2cfccc9c6c3c0bdbab7b4b1aeaba8a5a29f9c999693908d8a8784817e7b7875726f6c696663605d5a5754514e4b484542");
    let more: [(&str, Vec<u8>, Vec<(u32, &str, &str)>); 3] = [
        (
            "tv2",
            seed2.clone(),
            vec![
                (
                    0,
                    "xpub661MyMwAqRbcFW31YEwpkMuc5THy2PSt5bDMsktWQcFF8syAmRUapSCGu8ED9W6oDMSgv6Zz8idoc4a6mr8BDzTJY47LJhkJ8UB7WEGuduB",
                    "xprv9s21ZrQH143K31xYSDQpPDxsXRTUcvj2iNHm5NUtrGiGG5e2DtALGdso3pGz6ssrdK4PFmM8NSpSBHNqPqm55Qn3LqFtT2emdEXVYsCzC2U",
                ),
                (
                    0,
                    "xpub69H7F5d8KSRgmmdJg2KhpAK8SR3DjMwAdkxj3ZuxV27CprR9LgpeyGmXUbC6wb7ERfvrnKZjXoUmmDznezpbZb7ap6r1D3tgFxHmwMkQTPH",
                    "xprv9vHkqa6EV4sPZHYqZznhT2NPtPCjKuDKGY38FBWLvgaDx45zo9WQRUT3dKYnjwih2yJD9mkrocEZXo1ex8G81dwSM1fwqWpWkeS3v86pgKt",
                ),
                (
                    2147483647 + H,
                    "xpub6ASAVgeehLbnwdqV6UKMHVzgqAG8Gr6riv3Fxxpj8ksbH9ebxaEyBLZ85ySDhKiLDBrQSARLq1uNRts8RuJiHjaDMBU4Zn9h8LZNnBC5y4a",
                    "xprv9wSp6B7kry3Vj9m1zSnLvN3xH8RdsPP1Mh7fAaR7aRLcQMKTR2vidYEeEg2mUCTAwCd6vnxVrcjfy2kRgVsFawNzmjuHc2YmYRmagcEPdU9",
                ),
                (
                    1,
                    "xpub6DF8uhdarytz3FWdA8TvFSvvAh8dP3283MY7p2V4SeE2wyWmG5mg5EwVvmdMVCQcoNJxGoWaU9DCWh89LojfZ537wTfunKau47EL2dhHKon",
                    "xprv9zFnWC6h2cLgpmSA46vutJzBcfJ8yaJGg8cX1e5StJh45BBciYTRXSd25UEPVuesF9yog62tGAQtHjXajPPdbRCHuWS6T8XA2ECKADdw4Ef",
                ),
                (
                    2147483646 + H,
                    "xpub6ERApfZwUNrhLCkDtcHTcxd75RbzS1ed54G1LkBUHQVHQKqhMkhgbmJbZRkrgZw4koxb5JaHWkY4ALHY2grBGRjaDMzQLcgJvLJuZZvRcEL",
                    "xprvA1RpRA33e1JQ7ifknakTFpgNXPmW2YvmhqLQYMmrj4xJXXWYpDPS3xz7iAxn8L39njGVyuoseXzU6rcxFLJ8HFsTjSyQbLYnMpCqE2VbFWc",
                ),
                (
                    2,
                    "xpub6FnCn6nSzZAw5Tw7cgR9bi15UV96gLZhjDstkXXxvCLsUXBGXPdSnLFbdpq8p9HmGsApME5hQTZ3emM2rnY5agb9rXpVGyy3bdW6EEgAtqt",
                    "xprvA2nrNbFZABcdryreWet9Ea4LvTJcGsqrMzxHx98MMrotbir7yrKCEXw7nadnHM8Dq38EGfSh6dqA9QWTyefMLEcBYJUuekgW4BYPJcr9E7j",
                ),
            ],
        ),
        (
            "tv3",
            unhex("4b381541583be4423346c643850da4b320e46a87ae3d2a4e6da11eba819cd4acba45d239319ac14f863b8d5ab5a0d0c64d2e8a1e7d1457df2e5a3c51c73235be"),
            vec![
                (
                    0,
                    "xpub661MyMwAqRbcEZVB4dScxMAdx6d4nFc9nvyvH3v4gJL378CSRZiYmhRoP7mBy6gSPSCYk6SzXPTf3ND1cZAceL7SfJ1Z3GC8vBgp2epUt13",
                    "xprv9s21ZrQH143K25QhxbucbDDuQ4naNntJRi4KUfWT7xo4EKsHt2QJDu7KXp1A3u7Bi1j8ph3EGsZ9Xvz9dGuVrtHHs7pXeTzjuxBrCmmhgC6",
                ),
                (
                    H,
                    "xpub68NZiKmJWnxxS6aaHmn81bvJeTESw724CRDs6HbuccFQN9Ku14VQrADWgqbhhTHBaohPX4CjNLf9fq9MYo6oDaPPLPxSb7gwQN3ih19Zm4Y",
                    "xprv9uPDJpEQgRQfDcW7BkF7eTya6RPxXeJCqCJGHuCJ4GiRVLzkTXBAJMu2qaMWPrS7AANYqdq6vcBcBUdJCVVFceUvJFjaPdGZ2y9WACViL4L",
                ),
            ],
        ),
        (
            "tv4",
            unhex("3ddd5602285899a946114506157c7997e5444528f3003f6134712147db19b678"),
            vec![
                (
                    0,
                    "xpub661MyMwAqRbcGczjuMoRm6dXaLDEhW1u34gKenbeYqAix21mdUKJyuyu5F1rzYGVxyL6tmgBUAEPrEz92mBXjByMRiJdba9wpnN37RLLAXa",
                    "xprv9s21ZrQH143K48vGoLGRPxgo2JNkJ3J3fqkirQC2zVdk5Dgd5w14S7fRDyHH4dWNHUgkvsvNDCkvAwcSHNAQwhwgNMgZhLtQC63zxwhQmRv",
                ),
                (
                    H,
                    "xpub69AUMk3qDBi3uW1sXgjCmVjJ2G6WQoYSnNHyzkmdCHEhSZ4tBok37xfFEqHd2AddP56Tqp4o56AePAgCjYdvpW2PU2jbUPFKsav5ut6Ch1m",
                    "xprv9vB7xEWwNp9kh1wQRfCCQMnZUEG21LpbR9NPCNN1dwhiZkjjeGRnaALmPXCX7SgjFTiCTT6bXes17boXtjq3xLpcDjzEuGLQBM5ohqkao9G",
                ),
                (
                    1 + H,
                    "xpub6BJA1jSqiukeaesWfxe6sNK9CCGaujFFSJLomWHprUL9DePQ4JDkM5d88n49sMGJxrhpjazuXYWdMf17C9T5XnxkopaeS7jGk1GyyVziaMt",
                    "xprv9xJocDuwtYCMNAo3Zw76WENQeAS6WGXQ55RCy7tDJ8oALr4FWkuVoHJeHVAcAqiZLE7Je3vZJHxspZdFHfnBEjHqU5hG1Jaj32dVoS6XLT1",
                ),
            ],
        ),
    ];
    for (name, seed, chain) in more.iter() {
        let mut cur = match bip32_master(seed) {
            Some(k) => k,
            None => return Err(format!("refs::b58 selftest failed: {} master", name)),
        };
        for (step, (index, xpub, xprv)) in chain.iter().enumerate() {
            if step > 0 {
                let parent = cur.clone();
                cur = match bip32_ckd_priv(&parent, *index) {
                    Some(k) => k,
                    None => return Err(format!("refs::b58 selftest failed: {} step {} derive", name, step)),
                };
                if *index < H {
                    let via_pub = bip32_ckd_pub(&bip32_neuter(&parent), *index);
                    chk(&format!("{} step {} CKDpub(N(parent)) == N(CKDpriv(parent))", name, step), via_pub == Some(bip32_neuter(&cur)))?;
                }
            }
            chk(&format!("{} step {} xprv", name, step), bip32_serialize(&cur) == *xprv)?;
            chk(&format!("{} step {} xpub", name, step), bip32_serialize(&bip32_neuter(&cur)) == *xpub)?;
            chk(&format!("{} step {} xprv deserialize", name, step), bip32_deserialize(xprv) == Some(cur.clone()))?;
            chk(&format!("{} step {} xpub deserialize", name, step), bip32_deserialize(xpub) == Some(bip32_neuter(&cur)))?;
        }
    }
    let m2 = bip32_master(&seed2).unwrap();

    // CKDpub / CKDpriv agreement over a range of normal indices and depths
    {
        let mut parent = m2.clone();
        for i in 0..8u32 {
            let index = i * 0x0101_0101 % H;
            let child = bip32_ckd_priv(&parent, index);
            let child_pub = bip32_ckd_pub(&bip32_neuter(&parent), index);
            chk("CKDpub(N(parent)) == N(CKDpriv(parent))", child.is_some() && child_pub == child.as_ref().map(bip32_neuter))?;
            let child = child.unwrap();
            chk("child parent_fp", child.parent_fp == bip32_fingerprint(&parent) && child.parent_fp == bip32_fingerprint(&bip32_neuter(&parent)))?;
            chk("child serialize round trip", bip32_deserialize(&bip32_serialize(&child)) == Some(child.clone()))?;
            let cp = bip32_neuter(&child);
            chk("child xpub serialize round trip", bip32_deserialize(&bip32_serialize(&cp)) == Some(cp.clone()))?;
            chk("neuter is idempotent", bip32_neuter(&cp) == cp)?;
            parent = child;
        }
        chk("CKDpriv on a public key rejected", bip32_ckd_priv(&bip32_neuter(&m2), 0).is_none())?;
        chk("CKDpub on a private key rejected", bip32_ckd_pub(&m2, 0).is_none())?;
        let mut deep = m2.clone();
        deep.depth = 255;
        chk("depth overflow rejected (priv)", bip32_ckd_priv(&deep, 0).is_none())?;
        chk("depth overflow rejected (pub)", bip32_ckd_pub(&bip32_neuter(&deep), 0).is_none())?;
        deep.depth = 254;
        chk("depth 254 -> 255 ok", bip32_ckd_priv(&deep, 0).map(|k| k.depth) == Some(255))?;
    }

    // Strict deserialisation
    {
        let good = check_decode(&bip32_serialize(&m2)).unwrap();
        let good_pub = check_decode(&bip32_serialize(&bip32_neuter(&m2))).unwrap();
        chk("payload is 78 bytes", good.len() == 78 && good_pub.len() == 78)?;
        let reenc = |p: &[u8]| check_encode(p);
        chk("re-encoded payload accepted", bip32_deserialize(&reenc(&good)).is_some() && bip32_deserialize(&reenc(&good_pub)).is_some())?;
        let mut b = good.clone();
        b[45] = 0x01;
        chk("xprv with byte 45 != 00 rejected", bip32_deserialize(&reenc(&b)).is_none())?;
        let mut b = good.clone();
        for x in b[46..78].iter_mut() {
            *x = 0;
        }
        chk("xprv with key 0 rejected", bip32_deserialize(&reenc(&b)).is_none())?;
        let mut b = good.clone();
        b[46..78].copy_from_slice(&secp::be32(&secp::n()));
        chk("xprv with key n rejected", bip32_deserialize(&reenc(&b)).is_none())?;
        b[46..78].copy_from_slice(&secp::be32(&(secp::n() - 1u32)));
        chk("xprv with key n-1 accepted", bip32_deserialize(&reenc(&b)).is_some())?;
        let mut b = good.clone();
        b[0..4].copy_from_slice(&XPUB_VERSION.to_be_bytes());
        chk("xpub version with private key data rejected", bip32_deserialize(&reenc(&b)).is_none())?;
        let mut b = good_pub.clone();
        b[0..4].copy_from_slice(&XPRV_VERSION.to_be_bytes());
        chk("xprv version with public key data rejected", bip32_deserialize(&reenc(&b)).is_none())?;
        let mut b = good_pub.clone();
        b[45] = 0x04;
        chk("xpub with tag 04 rejected", bip32_deserialize(&reenc(&b)).is_none())?;
        let mut b = good_pub.clone();
        b[46..78].copy_from_slice(&secp::be32(&BigUint::from(5u32)));
        chk("xpub with x not on curve rejected", bip32_deserialize(&reenc(&b)).is_none())?;
        let mut b = good.clone();
        b[0..4].copy_from_slice(&0x04358394u32.to_be_bytes());
        chk("tprv version rejected", bip32_deserialize(&reenc(&b)).is_none())?;
        let mut b = good.clone();
        b.push(0);
        chk("79-byte payload rejected", bip32_deserialize(&reenc(&b)).is_none())?;
        chk("77-byte payload rejected", bip32_deserialize(&reenc(&good[..77])).is_none())?;
        let mut s = bip32_serialize(&m2).into_bytes();
        let last = s.len() - 1;
        s[last] = if s[last] == b'2' { b'3' } else { b'2' };
        chk("bad checksum rejected", bip32_deserialize(std::str::from_utf8(&s).unwrap()).is_none())?;
        chk("garbage rejected", bip32_deserialize("xprv").is_none() && bip32_deserialize("").is_none())?;
    }

    Ok(count)
}
