//! Reference Bitcoin transaction wire format: compact-size integers, encoder,
//! strict decoder (canonical sizes, exact length) and lenient decoder.
use super::hashes::sha256d;

pub fn cs_encode(n: u64) -> Vec<u8> {
    if n <= 252 {
        vec![n as u8]
    } else if n <= 0xffff {
        let mut v = vec![0xfd];
        v.extend_from_slice(&(n as u16).to_le_bytes());
        v
    } else if n <= 0xffff_ffff {
        let mut v = vec![0xfe];
        v.extend_from_slice(&(n as u32).to_le_bytes());
        v
    } else {
        let mut v = vec![0xff];
        v.extend_from_slice(&n.to_le_bytes());
        v
    }
}

/// Every encoding of n: (width tag, bytes); the first is canonical.
pub fn cs_all_encodings(n: u64) -> Vec<Vec<u8>> {
    let mut out = vec![cs_encode(n)];
    let mut push = |v: Vec<u8>| {
        if !out.contains(&v) {
            out.push(v)
        }
    };
    if n <= 0xffff {
        let mut v = vec![0xfd];
        v.extend_from_slice(&(n as u16).to_le_bytes());
        push(v);
    }
    if n <= 0xffff_ffff {
        let mut v = vec![0xfe];
        v.extend_from_slice(&(n as u32).to_le_bytes());
        push(v);
    }
    let mut v = vec![0xff];
    v.extend_from_slice(&n.to_le_bytes());
    push(v);
    out
}

#[derive(Clone, Debug, PartialEq, Eq)]
pub struct RIn {
    /// 32 bytes exactly as they appear on the wire
    pub txid_wire: [u8; 32],
    pub vout: u32,
    pub script: Vec<u8>,
    pub sequence: u32,
}

#[derive(Clone, Debug, PartialEq, Eq)]
pub struct ROut {
    pub value: u64,
    pub script: Vec<u8>,
}

#[derive(Clone, Debug, PartialEq, Eq)]
pub struct RTx {
    pub version: u32,
    pub inputs: Vec<RIn>,
    pub outputs: Vec<ROut>,
    pub locktime: u32,
}

impl RIn {
    pub fn is_coinbase_outpoint(&self) -> bool {
        self.txid_wire == [0u8; 32] && self.vout == 0xffff_ffff
    }
    pub fn txid_display(&self) -> Vec<u8> {
        let mut v = self.txid_wire.to_vec();
        v.reverse();
        v
    }
    pub fn outpoint_wire(&self) -> Vec<u8> {
        let mut v = self.txid_wire.to_vec();
        v.extend_from_slice(&self.vout.to_le_bytes());
        v
    }
    pub fn encode(&self) -> Vec<u8> {
        let mut b = self.txid_wire.to_vec();
        b.extend_from_slice(&self.vout.to_le_bytes());
        b.extend(cs_encode(self.script.len() as u64));
        b.extend_from_slice(&self.script);
        b.extend_from_slice(&self.sequence.to_le_bytes());
        b
    }
}

impl ROut {
    pub fn encode(&self) -> Vec<u8> {
        let mut b = self.value.to_le_bytes().to_vec();
        b.extend(cs_encode(self.script.len() as u64));
        b.extend_from_slice(&self.script);
        b
    }
}

impl RTx {
    pub fn encode(&self) -> Vec<u8> {
        let mut b = self.version.to_le_bytes().to_vec();
        b.extend(cs_encode(self.inputs.len() as u64));
        for i in &self.inputs {
            b.extend(i.encode());
        }
        b.extend(cs_encode(self.outputs.len() as u64));
        for o in &self.outputs {
            b.extend(o.encode());
        }
        b.extend_from_slice(&self.locktime.to_le_bytes());
        b
    }
    pub fn is_coinbase(&self) -> bool {
        self.inputs.len() == 1 && self.inputs[0].is_coinbase_outpoint()
    }
}

/// txid in display order: reverse(SHA256d(bytes))
pub fn txid_display(bytes: &[u8]) -> Vec<u8> {
    let mut h = sha256d(bytes).to_vec();
    h.reverse();
    h
}

#[derive(Clone, Debug, PartialEq, Eq)]
pub enum WireErr {
    Truncated,
}

pub struct Reader<'a> {
    pub b: &'a [u8],
    pub pos: usize,
    /// set when a compact-size was not in its shortest form
    pub noncanonical: bool,
    /// byte offsets and widths of every compact-size field read
    pub cs_fields: Vec<(usize, usize, u64)>,
}

impl<'a> Reader<'a> {
    pub fn new(b: &'a [u8]) -> Reader<'a> {
        Reader { b, pos: 0, noncanonical: false, cs_fields: vec![] }
    }
    fn take(&mut self, n: usize) -> Result<&'a [u8], WireErr> {
        if self.b.len() - self.pos < n {
            return Err(WireErr::Truncated);
        }
        let s = &self.b[self.pos..self.pos + n];
        self.pos += n;
        Ok(s)
    }
    fn u32(&mut self) -> Result<u32, WireErr> {
        let s = self.take(4)?;
        Ok(u32::from_le_bytes([s[0], s[1], s[2], s[3]]))
    }
    fn u64(&mut self) -> Result<u64, WireErr> {
        let s = self.take(8)?;
        let mut a = [0u8; 8];
        a.copy_from_slice(s);
        Ok(u64::from_le_bytes(a))
    }
    fn cs(&mut self) -> Result<u64, WireErr> {
        let at = self.pos;
        let tag = self.take(1)?[0];
        let (n, w) = match tag {
            0xfd => {
                let s = self.take(2)?;
                (u16::from_le_bytes([s[0], s[1]]) as u64, 3)
            }
            0xfe => (self.u32()? as u64, 5),
            0xff => (self.u64()?, 9),
            v => (v as u64, 1),
        };
        if cs_encode(n).len() != w {
            self.noncanonical = true;
        }
        self.cs_fields.push((at, w, n));
        Ok(n)
    }
    fn input(&mut self) -> Result<RIn, WireErr> {
        let mut txid_wire = [0u8; 32];
        txid_wire.copy_from_slice(self.take(32)?);
        let vout = self.u32()?;
        let n = self.cs()?;
        if n > (self.b.len() - self.pos) as u64 {
            return Err(WireErr::Truncated);
        }
        let script = self.take(n as usize)?.to_vec();
        let sequence = self.u32()?;
        Ok(RIn { txid_wire, vout, script, sequence })
    }
    fn output(&mut self) -> Result<ROut, WireErr> {
        let value = self.u64()?;
        let n = self.cs()?;
        if n > (self.b.len() - self.pos) as u64 {
            return Err(WireErr::Truncated);
        }
        let script = self.take(n as usize)?.to_vec();
        Ok(ROut { value, script })
    }
    pub fn tx(&mut self) -> Result<RTx, WireErr> {
        let version = self.u32()?;
        let nin = self.cs()?;
        let mut inputs = vec![];
        for _ in 0..nin {
            inputs.push(self.input()?);
        }
        let nout = self.cs()?;
        let mut outputs = vec![];
        for _ in 0..nout {
            outputs.push(self.output()?);
        }
        let locktime = self.u32()?;
        Ok(RTx { version, inputs, outputs, locktime })
    }
}

pub struct Decoded {
    pub tx: RTx,
    pub consumed: usize,
    pub noncanonical: bool,
    pub cs_fields: Vec<(usize, usize, u64)>,
}

/// Lenient structural decode: reports what a permissive reader sees.
pub fn decode(b: &[u8]) -> Result<Decoded, WireErr> {
    let mut r = Reader::new(b);
    let tx = r.tx()?;
    Ok(Decoded { tx, consumed: r.pos, noncanonical: r.noncanonical, cs_fields: r.cs_fields })
}

pub fn decode_input(b: &[u8]) -> Result<(RIn, usize, bool), WireErr> {
    let mut r = Reader::new(b);
    let i = r.input()?;
    Ok((i, r.pos, r.noncanonical))
}

pub fn decode_output(b: &[u8]) -> Result<(ROut, usize, bool), WireErr> {
    let mut r = Reader::new(b);
    let o = r.output()?;
    Ok((o, r.pos, r.noncanonical))
}

/// Strictly well-formed: canonical compact sizes and no trailing bytes.
pub fn decode_strict(b: &[u8]) -> Option<RTx> {
    match decode(b) {
        Ok(d) if !d.noncanonical && d.consumed == b.len() => Some(d.tx),
        _ => None,
    }
}

pub fn selftest() -> Result<usize, String> {
    let mut n = 0;
    for (v, want) in [(0u64, "00"), (252, "fc"), (253, "fdfd00"), (65535, "fdffff"), (65536, "fe00000100"), (0xffff_ffff, "feffffffff"), (0x1_0000_0000, "ff0000000001000000")] {
        if hex::encode(cs_encode(v)) != want {
            return Err(format!("refs::wire cs_encode({})", v));
        }
        n += 1;
    }
    // Bitcoin genesis coinbase transaction
    let genesis = hex::decode("01000000010000000000000000000000000000000000000000000000000000000000000000ffffffff4d04ffff001d0104455468652054696d65732030332f4a616e2f32303039204368616e63656c6c6f72206f6e206272696e6b206f66207365636f6e64206261696c6f757420666f722062616e6b73ffffffff0100f2052a01000000434104678afdb0fe5548271967f1a67130b7105cd6a828e03909a67962e0ea1f61deb649f6bc3f4cef38c4f35504e51ec112de5c384df7ba0b8d578a4c702b6bf11d5fac00000000").unwrap();
    let tx = decode_strict(&genesis).ok_or("refs::wire genesis decode")?;
    if !tx.is_coinbase() || tx.outputs[0].value != 5_000_000_000 || tx.encode() != genesis {
        return Err("refs::wire genesis fields".into());
    }
    if hex::encode(txid_display(&genesis)) != "4a5e1e4baab89f3a32518a88c31bc87f618f76673e2cc77ab2127b7afdeda33b" {
        return Err("refs::wire genesis txid".into());
    }
    n += 3;
    let mut t = genesis.clone();
    t.push(0);
    if decode_strict(&t).is_some() || decode_strict(&genesis[..genesis.len() - 1]).is_some() {
        return Err("refs::wire strictness".into());
    }
    n += 1;
    Ok(n)
}
