//! Reference AES-128 / AES-256 with CBC (PKCS#7) and CTR modes, written from
//! FIPS-197 and NIST SP 800-38A. No cipher crates; `hex` is used only by the
//! self-test and the refdump. Deliberately boring: the S-box is computed from
//! its definition (GF(2^8) inverse followed by the affine map), the state is a
//! plain 16-byte array, MixColumns multiplies in GF(2^8) bit by bit.
//!
//! State layout (FIPS-197 section 3.4): state byte (row r, column c) lives at
//! index r + 4*c, which is exactly the input byte order, so no transposition
//! is needed when loading or storing a block.

// ---------------------------------------------------------------- GF(2^8)

/// Multiplication in GF(2^8) modulo x^8 + x^4 + x^3 + x + 1 (FIPS-197 section 4.2).
fn gmul(a: u8, b: u8) -> u8 {
    let mut a = a;
    let mut b = b;
    let mut p = 0u8;
    for _ in 0..8 {
        if b & 1 == 1 {
            p ^= a;
        }
        let hi = a & 0x80 != 0;
        a <<= 1;
        if hi {
            a ^= 0x1b;
        }
        b >>= 1;
    }
    p
}

/// Multiplicative inverse in GF(2^8); 0 maps to 0. a^254 = a^-1.
fn ginv(a: u8) -> u8 {
    let mut r = 1u8;
    for _ in 0..254 {
        r = gmul(r, a);
    }
    if a == 0 {
        0
    } else {
        r
    }
}

/// S-box entry from its definition (FIPS-197 section 5.1.1):
/// b'_i = b_i ^ b_(i+4) ^ b_(i+5) ^ b_(i+6) ^ b_(i+7) ^ c_i with c = 0x63, b = inverse of the input.
fn sbox_entry(x: u8) -> u8 {
    let b = ginv(x);
    let mut out = 0u8;
    for i in 0..8 {
        let bit = ((b >> i) & 1)
            ^ ((b >> ((i + 4) % 8)) & 1)
            ^ ((b >> ((i + 5) % 8)) & 1)
            ^ ((b >> ((i + 6) % 8)) & 1)
            ^ ((b >> ((i + 7) % 8)) & 1)
            ^ ((0x63u8 >> i) & 1);
        out |= bit << i;
    }
    out
}

/// The S-box, computed once from the definition and then cached (computing it costs
/// about 65000 field multiplications, too much to repeat for every block).
fn sbox() -> &'static [u8; 256] {
    static SBOX: std::sync::OnceLock<[u8; 256]> = std::sync::OnceLock::new();
    SBOX.get_or_init(|| {
        let mut t = [0u8; 256];
        for x in 0..256usize {
            t[x] = sbox_entry(x as u8);
        }
        t
    })
}

/// The inverse S-box is the S-box table read backwards.
fn inv_sbox() -> &'static [u8; 256] {
    static INV: std::sync::OnceLock<[u8; 256]> = std::sync::OnceLock::new();
    INV.get_or_init(|| {
        let s = sbox();
        let mut t = [0u8; 256];
        for x in 0..256usize {
            t[s[x] as usize] = x as u8;
        }
        t
    })
}

// ---------------------------------------------------------------- key schedule

/// Number of rounds: 10 for a 16-byte key, 14 for a 32-byte key.
fn rounds(key: &[u8]) -> usize {
    match key.len() {
        16 => 10,
        32 => 14,
        n => panic!("refs::aes: unsupported key length {}", n),
    }
}

/// FIPS-197 section 5.2. Returns Nr+1 round keys of 16 bytes each
/// (word i of the schedule is bytes 4*(i%4).. of round key i/4).
fn expand_key(key: &[u8]) -> Vec<[u8; 16]> {
    let nr = rounds(key);
    let nk = key.len() / 4;
    let s = sbox();
    let total_words = 4 * (nr + 1);
    let mut w: Vec<[u8; 4]> = Vec::with_capacity(total_words);
    for i in 0..nk {
        w.push([key[4 * i], key[4 * i + 1], key[4 * i + 2], key[4 * i + 3]]);
    }
    let mut rcon = 1u8;
    for i in nk..total_words {
        let mut t = w[i - 1];
        if i % nk == 0 {
            // RotWord, SubWord, xor Rcon
            t = [t[1], t[2], t[3], t[0]];
            for b in t.iter_mut() {
                *b = s[*b as usize];
            }
            t[0] ^= rcon;
            rcon = gmul(rcon, 2);
        } else if nk > 6 && i % nk == 4 {
            for b in t.iter_mut() {
                *b = s[*b as usize];
            }
        }
        let p = w[i - nk];
        w.push([p[0] ^ t[0], p[1] ^ t[1], p[2] ^ t[2], p[3] ^ t[3]]);
    }
    let mut rks = vec![];
    for r in 0..=nr {
        let mut rk = [0u8; 16];
        for c in 0..4 {
            for row in 0..4 {
                rk[row + 4 * c] = w[4 * r + c][row];
            }
        }
        rks.push(rk);
    }
    rks
}

// ---------------------------------------------------------------- round functions

fn add_round_key(st: &mut [u8; 16], rk: &[u8; 16]) {
    for i in 0..16 {
        st[i] ^= rk[i];
    }
}

fn sub_bytes(st: &mut [u8; 16], table: &[u8; 256]) {
    for b in st.iter_mut() {
        *b = table[*b as usize];
    }
}

/// Row r is rotated left by r positions: new(r, c) = old(r, (c + r) mod 4).
fn shift_rows(st: &mut [u8; 16]) {
    let old = *st;
    for r in 0..4 {
        for c in 0..4 {
            st[r + 4 * c] = old[r + 4 * ((c + r) % 4)];
        }
    }
}

/// Row r is rotated right by r positions: new(r, (c + r) mod 4) = old(r, c).
fn inv_shift_rows(st: &mut [u8; 16]) {
    let old = *st;
    for r in 0..4 {
        for c in 0..4 {
            st[r + 4 * ((c + r) % 4)] = old[r + 4 * c];
        }
    }
}

/// Each column is multiplied by the circulant matrix whose first row is `m`
/// (02 03 01 01 for MixColumns, 0e 0b 0d 09 for InvMixColumns).
fn mix_columns_with(st: &mut [u8; 16], m: [u8; 4]) {
    for c in 0..4 {
        let col = [st[4 * c], st[4 * c + 1], st[4 * c + 2], st[4 * c + 3]];
        for r in 0..4 {
            let mut acc = 0u8;
            for k in 0..4 {
                // matrix entry (r, k) of a circulant matrix = m[(k - r) mod 4]
                acc ^= gmul(m[(k + 4 - r) % 4], col[k]);
            }
            st[4 * c + r] = acc;
        }
    }
}

fn mix_columns(st: &mut [u8; 16]) {
    mix_columns_with(st, [0x02, 0x03, 0x01, 0x01]);
}

fn inv_mix_columns(st: &mut [u8; 16]) {
    mix_columns_with(st, [0x0e, 0x0b, 0x0d, 0x09]);
}

// ---------------------------------------------------------------- block cipher

/// FIPS-197 section 5.1 (Cipher). key.len() must be 16 or 32.
pub fn encrypt_block(key: &[u8], block: &[u8; 16]) -> [u8; 16] {
    let rks = expand_key(key);
    let nr = rks.len() - 1;
    let s = sbox();
    let mut st = *block;
    add_round_key(&mut st, &rks[0]);
    for r in 1..nr {
        sub_bytes(&mut st, s);
        shift_rows(&mut st);
        mix_columns(&mut st);
        add_round_key(&mut st, &rks[r]);
    }
    sub_bytes(&mut st, s);
    shift_rows(&mut st);
    add_round_key(&mut st, &rks[nr]);
    st
}

/// FIPS-197 section 5.3 (InvCipher, the straightforward one). key.len() must be 16 or 32.
pub fn decrypt_block(key: &[u8], block: &[u8; 16]) -> [u8; 16] {
    let rks = expand_key(key);
    let nr = rks.len() - 1;
    let is = inv_sbox();
    let mut st = *block;
    add_round_key(&mut st, &rks[nr]);
    for r in (1..nr).rev() {
        inv_shift_rows(&mut st);
        sub_bytes(&mut st, is);
        add_round_key(&mut st, &rks[r]);
        inv_mix_columns(&mut st);
    }
    inv_shift_rows(&mut st);
    sub_bytes(&mut st, is);
    add_round_key(&mut st, &rks[0]);
    st
}

// ---------------------------------------------------------------- modes

fn xor16(a: &[u8; 16], b: &[u8; 16]) -> [u8; 16] {
    let mut o = [0u8; 16];
    for i in 0..16 {
        o[i] = a[i] ^ b[i];
    }
    o
}

fn block_at(data: &[u8], i: usize) -> [u8; 16] {
    let mut b = [0u8; 16];
    b.copy_from_slice(&data[16 * i..16 * i + 16]);
    b
}

/// Raw CBC without padding (SP 800-38A section 6.2); msg.len() must be a multiple of 16.
/// Used to manufacture ciphertexts with chosen final plaintext blocks.
pub fn cbc_encrypt_nopad(key: &[u8], iv: &[u8; 16], msg: &[u8]) -> Vec<u8> {
    assert!(msg.len() % 16 == 0, "refs::aes: cbc_encrypt_nopad needs whole blocks");
    let mut out = Vec::with_capacity(msg.len());
    let mut prev = *iv;
    for i in 0..msg.len() / 16 {
        let c = encrypt_block(key, &xor16(&block_at(msg, i), &prev));
        out.extend_from_slice(&c);
        prev = c;
    }
    out
}

/// CBC with PKCS#7 padding (always adds 1..=16 bytes).
pub fn cbc_encrypt(key: &[u8], iv: &[u8; 16], msg: &[u8]) -> Vec<u8> {
    let p = 16 - msg.len() % 16;
    let mut padded = msg.to_vec();
    for _ in 0..p {
        padded.push(p as u8);
    }
    cbc_encrypt_nopad(key, iv, &padded)
}

/// Err(()) when the length is zero or not a multiple of 16, or the PKCS#7 padding is invalid
/// (the last byte p must satisfy 1 <= p <= 16 and the last p bytes must all equal p).
pub fn cbc_decrypt(key: &[u8], iv: &[u8; 16], ct: &[u8]) -> Result<Vec<u8>, ()> {
    if ct.is_empty() || ct.len() % 16 != 0 {
        return Err(());
    }
    let mut out = Vec::with_capacity(ct.len());
    let mut prev = *iv;
    for i in 0..ct.len() / 16 {
        let c = block_at(ct, i);
        out.extend_from_slice(&xor16(&decrypt_block(key, &c), &prev));
        prev = c;
    }
    let p = out[out.len() - 1] as usize;
    if p < 1 || p > 16 {
        return Err(());
    }
    for j in 0..p {
        if out[out.len() - 1 - j] as usize != p {
            return Err(());
        }
    }
    out.truncate(out.len() - p);
    Ok(out)
}

/// CTR mode (SP 800-38A section 6.5) with the whole IV as a 128-bit big-endian counter:
/// keystream block i = AES(key, (IV + i) mod 2^128). Output length == input length;
/// encryption == decryption.
pub fn ctr_xor(key: &[u8], iv: &[u8; 16], msg: &[u8]) -> Vec<u8> {
    let start = u128::from_be_bytes(*iv);
    let mut out = Vec::with_capacity(msg.len());
    for (i, chunk) in msg.chunks(16).enumerate() {
        let counter = start.wrapping_add(i as u128).to_be_bytes();
        let ks = encrypt_block(key, &counter);
        for (j, m) in chunk.iter().enumerate() {
            out.push(m ^ ks[j]);
        }
    }
    out
}

/// True if adding ceil(len/16)-1 to the low 64 bits (big-endian, bytes 8..16) of iv would
/// overflow them, i.e. a 64-bit-counter implementation and a 128-bit-counter implementation
/// would produce different keystreams for a message of `len` bytes.
pub fn ctr_low64_wraps(iv: &[u8; 16], len: usize) -> bool {
    let blocks = (len as u128 + 15) / 16;
    if blocks <= 1 {
        return false;
    }
    let mut low = [0u8; 8];
    low.copy_from_slice(&iv[8..16]);
    let low = u64::from_be_bytes(low) as u128;
    low + (blocks - 1) > u64::MAX as u128
}

// ---------------------------------------------------------------- self-test

fn unhex(s: &str) -> Vec<u8> {
    hex::decode(s).expect("refs::aes: bad hex constant")
}

fn unhex16(s: &str) -> [u8; 16] {
    let v = unhex(s);
    let mut b = [0u8; 16];
    b.copy_from_slice(&v);
    b
}

/// Known-answer tests: FIPS-197 appendix C.1 and C.3, SP 800-38A F.2.1/F.2.2 (CBC-AES128),
/// F.2.5/F.2.6 (CBC-AES256), F.5.1 (CTR-AES128), F.5.5 (CTR-AES256), S-box spot values from
/// FIPS-197 figure 7, the key-expansion tail words from appendix A.1 / A.3, PKCS#7 accept /
/// reject cases, ctr_low64_wraps edge cases, and round trips.
/// Returns the number of checks or a description of the first failure.
pub fn selftest() -> Result<usize, String> {
    let mut n = 0usize;
    macro_rules! check {
        ($cond:expr, $($msg:tt)*) => {
            if !($cond) {
                return Err(format!("refs::aes selftest: {}", format!($($msg)*)));
            }
            n += 1;
        };
    }

    // S-box spot checks (FIPS-197 figure 7 / figure 14)
    let s = sbox();
    let is = inv_sbox();
    check!(s[0x00] == 0x63, "sbox[00]");
    check!(s[0x01] == 0x7c, "sbox[01]");
    check!(s[0x53] == 0xed, "sbox[53]");
    check!(s[0xff] == 0x16, "sbox[ff]");
    check!(is[0x00] == 0x52, "inv_sbox[00]");
    check!((0..256).all(|x| is[s[x] as usize] as usize == x), "inv_sbox inverts sbox");
    // GF(2^8) example from FIPS-197 section 4.2: {57} x {83} = {c1}, {57} x {13} = {fe}
    check!(gmul(0x57, 0x83) == 0xc1, "gmul 57*83");
    check!(gmul(0x57, 0x13) == 0xfe, "gmul 57*13");

    // Key expansion: last word of appendix A.1 (w43) and A.3 (w59)
    let k128 = unhex("2b7e151628aed2a6abf7158809cf4f3c");
    let k256 = unhex("603deb1015ca71be2b73aef0857d77811f352c073b6108d72d9810a30914dff4");
    let rk = expand_key(&k128);
    check!(rk.len() == 11 && rk[10][12..16] == unhex("b6630ca6")[..], "key expansion A.1 w43");
    let rk = expand_key(&k256);
    check!(rk.len() == 15 && rk[14][12..16] == unhex("706c631e")[..], "key expansion A.3 w59");

    // FIPS-197 appendix C.1 / C.3
    let pt = unhex16("00112233445566778899aabbccddeeff");
    let kc1 = unhex("000102030405060708090a0b0c0d0e0f");
    let kc3 = unhex("000102030405060708090a0b0c0d0e0f101112131415161718191a1b1c1d1e1f");
    let c1 = unhex16("69c4e0d86a7b0430d8cdb78070b4c55a");
    let c3 = unhex16("8ea2b7ca516745bfeafc49904b496089");
    check!(encrypt_block(&kc1, &pt) == c1, "FIPS-197 C.1 encrypt");
    check!(decrypt_block(&kc1, &c1) == pt, "FIPS-197 C.1 decrypt");
    check!(encrypt_block(&kc3, &pt) == c3, "FIPS-197 C.3 encrypt");
    check!(decrypt_block(&kc3, &c3) == pt, "FIPS-197 C.3 decrypt");
    // FIPS-197 appendix B
    check!(
        encrypt_block(&k128, &unhex16("3243f6a8885a308d313198a2e0370734")) == unhex16("3925841d02dc09fbdc118597196a0b32"),
        "FIPS-197 appendix B"
    );

    // SP 800-38A
    let msg = unhex(concat!(
        "6bc1bee22e409f96e93d7e117393172a",
        "ae2d8a571e03ac9c9eb76fac45af8e51",
        "30c81c46a35ce411e5fbc1191a0a52ef",
        "f69f2445df4f9b17ad2b417be66c3710"
    ));
    let cbc_iv = unhex16("000102030405060708090a0b0c0d0e0f");
    let ctr_iv = unhex16("f0f1f2f3f4f5f6f7f8f9fafbfcfdfeff");
    let f21 = unhex(concat!(
        "7649abac8119b246cee98e9b12e9197d",
        "5086cb9b507219ee95db113a917678b2",
        "73bed6b8e3c1743b7116e69e22229516",
        "3ff1caa1681fac09120eca307586e1a7"
    ));
    let f25 = unhex(concat!(
        "f58c4c04d6e5f1ba779eabfb5f7bfbd6",
        "9cfc4e967edb808d679f777bc6702c7d",
        "39f23369a9d9bacfa530e26304231461",
        "b2eb05e2c39be9fcda6c19078c6a9d1b"
    ));
    let f51 = unhex(concat!(
        "874d6191b620e3261bef6864990db6ce",
        "9806f66b7970fdff8617187bb9fffdff",
        "5ae4df3edbd5d35e5b4f09020db03eab",
        "1e031dda2fbe03d1792170a0f3009cee"
    ));
    let f55 = unhex(concat!(
        "601ec313775789a5b7a7f504bbf3d228",
        "f443e3ca4d62b59aca84e990cacaf5c5",
        "2b0930daa23de94ce87017ba2d84988d",
        "dfc9c58db67aada613c2dd08457941a6"
    ));
    for (name, key, want) in [("F.2.1 CBC-AES128", &k128, &f21), ("F.2.5 CBC-AES256", &k256, &f25)] {
        check!(cbc_encrypt_nopad(key, &cbc_iv, &msg) == *want, "{} nopad", name);
        let padded = cbc_encrypt(key, &cbc_iv, &msg);
        check!(padded.len() == 80 && padded[..64] == want[..], "{} padded prefix", name);
        check!(cbc_decrypt(key, &cbc_iv, &padded) == Ok(msg.clone()), "{} decrypt", name);
        // F.2.2 / F.2.6: decrypting the no-padding ciphertext block by block
        let mut prev = cbc_iv;
        let mut back = vec![];
        for i in 0..4 {
            let c = block_at(want, i);
            back.extend_from_slice(&xor16(&decrypt_block(key, &c), &prev));
            prev = c;
        }
        check!(back == msg, "{} raw decrypt", name);
    }
    for (name, key, want) in [("F.5.1 CTR-AES128", &k128, &f51), ("F.5.5 CTR-AES256", &k256, &f55)] {
        check!(ctr_xor(key, &ctr_iv, &msg) == *want, "{} encrypt", name);
        check!(ctr_xor(key, &ctr_iv, want) == msg, "{} decrypt", name);
        check!(ctr_xor(key, &ctr_iv, &msg[..37]) == want[..37], "{} partial", name);
    }

    // PKCS#7 accept / reject, manufactured with the no-padding encryptor
    for key in [&k128, &k256] {
        let mk = |last: [u8; 16]| {
            let mut m = vec![0xaau8; 16];
            m.extend_from_slice(&last);
            cbc_encrypt_nopad(key, &cbc_iv, &m)
        };
        let mut b = [0x41u8; 16];
        b[15] = 1;
        check!(cbc_decrypt(key, &cbc_iv, &mk(b)).map(|v| v.len()) == Ok(31), "pad 01 accepted");
        check!(cbc_decrypt(key, &cbc_iv, &mk([16u8; 16])) == Ok(vec![0xaau8; 16]), "pad 16x10 accepted");
        b[15] = 0;
        check!(cbc_decrypt(key, &cbc_iv, &mk(b)) == Err(()), "pad 00 rejected");
        b[15] = 17;
        check!(cbc_decrypt(key, &cbc_iv, &mk(b)) == Err(()), "pad 0x11 rejected");
        check!(cbc_decrypt(key, &cbc_iv, &mk([17u8; 16])) == Err(()), "pad 16x11 rejected");
        b[15] = 2;
        check!(cbc_decrypt(key, &cbc_iv, &mk(b)) == Err(()), "pad ..41 02 rejected");
        b[14] = 2;
        check!(cbc_decrypt(key, &cbc_iv, &mk(b)).map(|v| v.len()) == Ok(30), "pad 02 02 accepted");
        let mut c = [16u8; 16];
        c[0] = 15;
        check!(cbc_decrypt(key, &cbc_iv, &mk(c)) == Err(()), "pad 0f 10x15 rejected");
        check!(cbc_decrypt(key, &cbc_iv, &[]) == Err(()), "empty ciphertext rejected");
        check!(cbc_decrypt(key, &cbc_iv, &mk(b)[..31]) == Err(()), "31-byte ciphertext rejected");
        check!(cbc_decrypt(key, &cbc_iv, &mk(b)[..15]) == Err(()), "15-byte ciphertext rejected");
        // a lone block of sixteen 0x10 decrypts to the empty message
        check!(cbc_decrypt(key, &cbc_iv, &cbc_encrypt_nopad(key, &cbc_iv, &[16u8; 16])) == Ok(vec![]), "empty message");
    }

    // round trips over lengths 0..=70
    for key in [&k128, &k256] {
        for len in 0..=70usize {
            let m: Vec<u8> = (0..len).map(|i| (i * 7 + len) as u8).collect();
            let c = cbc_encrypt(key, &ctr_iv, &m);
            check!(c.len() == (len / 16 + 1) * 16, "cbc length, len {}", len);
            check!(cbc_decrypt(key, &ctr_iv, &c) == Ok(m.clone()), "cbc round trip, len {}", len);
            let c = ctr_xor(key, &ctr_iv, &m);
            check!(c.len() == len, "ctr length, len {}", len);
            check!(ctr_xor(key, &ctr_iv, &c) == m, "ctr round trip, len {}", len);
        }
    }

    // CTR counter is 128 bits wide: carry out of the low 64 bits and wrap at 2^128
    let mut iv = [0u8; 16];
    iv[7] = 0x33;
    for b in iv[8..].iter_mut() {
        *b = 0xff;
    }
    let two = ctr_xor(&k128, &iv, &[0u8; 32]);
    let mut next = [0u8; 16];
    next[7] = 0x34;
    check!(two[..16] == encrypt_block(&k128, &iv) && two[16..] == encrypt_block(&k128, &next), "ctr carry into high half");
    let two = ctr_xor(&k128, &[0xff; 16], &[0u8; 32]);
    check!(two[16..] == encrypt_block(&k128, &[0u8; 16]), "ctr wraps mod 2^128");

    // ctr_low64_wraps
    check!(!ctr_low64_wraps(&iv, 0), "wraps len 0");
    check!(!ctr_low64_wraps(&iv, 16), "wraps len 16");
    check!(ctr_low64_wraps(&iv, 17), "wraps len 17");
    iv[15] = 0xfe;
    check!(!ctr_low64_wraps(&iv, 32), "wraps fe len 32");
    check!(ctr_low64_wraps(&iv, 33), "wraps fe len 33");
    check!(!ctr_low64_wraps(&ctr_iv, 1 << 20), "wraps NIST iv");
    check!(!ctr_low64_wraps(&[0u8; 16], usize::MAX), "wraps zero iv, huge len");

    // refdump sanity: shape, and no CTR line wraps the low 64 bits
    let lines = refdump_lines();
    check!(lines.len() == 80, "refdump line count {}", lines.len());
    for l in &lines {
        let f: Vec<&str> = l.split(' ').collect();
        check!(f.len() == 5 && f.iter().all(|x| !x.is_empty()), "refdump line shape: {}", l);
    }
    Ok(n)
}

// ---------------------------------------------------------------- refdump

fn hex_or_dash(b: &[u8]) -> String {
    if b.is_empty() {
        "-".to_string()
    } else {
        hex::encode(b)
    }
}

/// Lines "<mode> <key hex> <iv hex> <plaintext hex> <ciphertext hex>" for an external
/// cross-check against the openssl CLI. <mode> is one of aes-128-cbc, aes-256-cbc,
/// aes-128-ctr, aes-256-ctr; CBC lines use PKCS#7 padding. An empty field is written "-".
/// Two key/IV sets per mode, message lengths 0,1,15,16,17,31,32,33,48,100.
/// CTR IV set 0 ends in ff ff (carry crosses a byte boundary inside the low 64 bits),
/// CTR IV set 1 ends in ff ff ff ff (carry crosses the 32-bit boundary); neither wraps the
/// low 64 bits for these lengths.
pub fn refdump_lines() -> Vec<String> {
    let mut out = vec![];
    for (mode, klen, is_ctr) in [
        ("aes-128-cbc", 16usize, false),
        ("aes-256-cbc", 32, false),
        ("aes-128-ctr", 16, true),
        ("aes-256-ctr", 32, true),
    ] {
        for set in 0..2usize {
            let key: Vec<u8> = (0..klen).map(|i| (i * 11 + 0x21 + 0x5b * set) as u8).collect();
            let mut iv = [0u8; 16];
            for i in 0..16 {
                iv[i] = (i * 13 + 0x80 + 0x37 * set + klen) as u8;
            }
            if is_ctr {
                let ff_tail = if set == 0 { 2 } else { 4 };
                for i in 16 - ff_tail..16 {
                    iv[i] = 0xff;
                }
            }
            for len in [0usize, 1, 15, 16, 17, 31, 32, 33, 48, 100] {
                let msg: Vec<u8> = (0..len).map(|i| (i * 7 + len * 3 + 0x10 * set + 1) as u8).collect();
                let ct = if is_ctr {
                    assert!(!ctr_low64_wraps(&iv, len));
                    ctr_xor(&key, &iv, &msg)
                } else {
                    cbc_encrypt(&key, &iv, &msg)
                };
                out.push(format!(
                    "{} {} {} {} {}",
                    mode,
                    hex::encode(&key),
                    hex::encode(iv),
                    hex_or_dash(&msg),
                    hex_or_dash(&ct)
                ));
            }
        }
    }
    out
}
