//! Reference signature-hash preimages: the replay-protected (FORKID) digest
//! algorithm of the BCH/BSV specification and the original Bitcoin SignatureHash.
use super::hashes::sha256d;
use super::script as rs;
use super::wire::{cs_encode, RIn, ROut, RTx};

pub const ALL: u32 = 1;
pub const NONE: u32 = 2;
pub const SINGLE: u32 = 3;
pub const FORKID: u32 = 0x40;
pub const ANYONECANPAY: u32 = 0x80;

pub const FORKID_FLAGS: [u32; 6] = [0x41, 0x42, 0x43, 0xc1, 0xc2, 0xc3];
pub const LEGACY_FLAGS: [u32; 6] = [0x01, 0x02, 0x03, 0x81, 0x82, 0x83];

#[derive(Debug, Clone, PartialEq, Eq)]
pub enum Pre {
    /// the specified preimage
    Bytes(Vec<u8>),
    /// SINGLE with no output at the input's index: the specification still defines a value (given here), the library may refuse
    SingleOutOfRange(Vec<u8>),
    /// input index out of range: undefined
    NoSuchInput,
}

pub fn forkid_preimage(tx: &RTx, idx: usize, subscript: &[u8], value: u64, flag: u32) -> Pre {
    if idx >= tx.inputs.len() {
        return Pre::NoSuchInput;
    }
    let base = flag & 0x1f;
    let acp = flag & ANYONECANPAY != 0;
    let zero = [0u8; 32];
    let hash_prevouts = if !acp {
        let mut b = vec![];
        for i in &tx.inputs {
            b.extend(i.outpoint_wire());
        }
        sha256d(&b)
    } else {
        zero
    };
    let hash_sequence = if !acp && base != SINGLE && base != NONE {
        let mut b = vec![];
        for i in &tx.inputs {
            b.extend_from_slice(&i.sequence.to_le_bytes());
        }
        sha256d(&b)
    } else {
        zero
    };
    let mut out_of_range = false;
    let hash_outputs = if base != SINGLE && base != NONE {
        let mut b = vec![];
        for o in &tx.outputs {
            b.extend(o.encode());
        }
        sha256d(&b)
    } else if base == SINGLE && idx < tx.outputs.len() {
        sha256d(&tx.outputs[idx].encode())
    } else {
        if base == SINGLE {
            out_of_range = true;
        }
        zero
    };
    let inp = &tx.inputs[idx];
    let mut p = tx.version.to_le_bytes().to_vec();
    p.extend_from_slice(&hash_prevouts);
    p.extend_from_slice(&hash_sequence);
    p.extend(inp.outpoint_wire());
    p.extend(cs_encode(subscript.len() as u64));
    p.extend_from_slice(subscript);
    p.extend_from_slice(&value.to_le_bytes());
    p.extend_from_slice(&inp.sequence.to_le_bytes());
    p.extend_from_slice(&hash_outputs);
    p.extend_from_slice(&tx.locktime.to_le_bytes());
    p.extend_from_slice(&flag.to_le_bytes());
    if out_of_range {
        Pre::SingleOutOfRange(p)
    } else {
        Pre::Bytes(p)
    }
}

/// Original Bitcoin SignatureHash serialisation (before hashing), with the 4-byte type appended.
/// `subscript` must tokenize; every OP_CODESEPARATOR is removed from it.
pub fn legacy_preimage(tx: &RTx, idx: usize, subscript: &[u8], flag: u32) -> Pre {
    if idx >= tx.inputs.len() {
        return Pre::NoSuchInput;
    }
    let base = flag & 0x1f;
    let acp = flag & ANYONECANPAY != 0;
    let script = match rs::tokenize(subscript) {
        Ok(t) => rs::serialize(&rs::strip_codeseparators(&t)),
        Err(_) => subscript.to_vec(),
    };
    let mut inputs: Vec<RIn> = tx
        .inputs
        .iter()
        .enumerate()
        .map(|(k, i)| RIn {
            txid_wire: i.txid_wire,
            vout: i.vout,
            script: if k == idx { script.clone() } else { vec![] },
            sequence: if k != idx && (base == NONE || base == SINGLE) { 0 } else { i.sequence },
        })
        .collect();
    let mut out_of_range = false;
    let outputs: Vec<ROut> = if base == NONE {
        vec![]
    } else if base == SINGLE {
        if idx >= tx.outputs.len() {
            out_of_range = true;
            vec![]
        } else {
            (0..=idx).map(|k| if k < idx { ROut { value: u64::MAX, script: vec![] } } else { tx.outputs[k].clone() }).collect()
        }
    } else {
        tx.outputs.clone()
    };
    if acp {
        inputs = vec![inputs[idx].clone()];
    }
    let t = RTx { version: tx.version, inputs, outputs, locktime: tx.locktime };
    let mut p = t.encode();
    p.extend_from_slice(&flag.to_le_bytes());
    if out_of_range {
        Pre::SingleOutOfRange(p)
    } else {
        Pre::Bytes(p)
    }
}

pub fn preimage(tx: &RTx, idx: usize, subscript: &[u8], value: u64, flag: u32) -> Pre {
    if flag & FORKID != 0 {
        forkid_preimage(tx, idx, subscript, value, flag)
    } else {
        legacy_preimage(tx, idx, subscript, flag)
    }
}

pub fn selftest() -> Result<usize, String> {
    // Cross-check on the BIP143 example structure: field offsets and lengths.
    let tx = RTx {
        version: 1,
        inputs: vec![RIn { txid_wire: [7; 32], vout: 1, script: vec![], sequence: 0xffffffee }, RIn { txid_wire: [9; 32], vout: 0, script: vec![], sequence: 0xffffffff }],
        outputs: vec![ROut { value: 5, script: vec![0x51] }],
        locktime: 17,
    };
    let sub = vec![0x76, 0xa9];
    let p = match forkid_preimage(&tx, 1, &sub, 600, 0x41) {
        Pre::Bytes(p) => p,
        _ => return Err("refs::sighash forkid".into()),
    };
    if p.len() != 4 + 32 + 32 + 36 + 1 + 2 + 8 + 4 + 32 + 4 + 4 || p[0..4] != [1, 0, 0, 0] || p[p.len() - 4..] != [0x41, 0, 0, 0] || p[68..100] != [9; 32] {
        return Err("refs::sighash forkid layout".into());
    }
    match forkid_preimage(&tx, 1, &sub, 600, 0xc3) {
        Pre::SingleOutOfRange(p) if p[4..68] == [0u8; 64] => {}
        _ => return Err("refs::sighash forkid single out of range".into()),
    }
    // legacy: SINGLE at index 0 keeps one output, zeroes the other sequence
    let l = match legacy_preimage(&tx, 0, &[0xab, 0x51, 0xab], 0x03) {
        Pre::Bytes(p) => p,
        _ => return Err("refs::sighash legacy".into()),
    };
    let want_in0 = {
        let mut b = vec![7u8; 32];
        b.extend_from_slice(&[1, 0, 0, 0, 1, 0x51, 0xee, 0xff, 0xff, 0xff]);
        b
    };
    if l[5..5 + want_in0.len()] != want_in0[..] || l[l.len() - 4..] != [3, 0, 0, 0] {
        return Err("refs::sighash legacy layout".into());
    }
    // vectors the repository's own tests took from bsv.js (name txhex subscript value flag expected)
    let mut n = 4;
    for line in include_str!("sighash_vectors.txt").lines() {
        let f: Vec<&str> = line.split(' ').collect();
        if f.len() != 6 {
            continue;
        }
        let txb = hex::decode(f[1]).map_err(|e| e.to_string())?;
        let tx = super::wire::decode_strict(&txb).ok_or("refs::sighash vector tx")?;
        let sub = hex::decode(f[2]).map_err(|e| e.to_string())?;
        let got = match preimage(&tx, 0, &sub, f[3].parse().unwrap(), f[4].parse().unwrap()) {
            Pre::Bytes(p) => p,
            _ => return Err(format!("refs::sighash vector {}", f[0])),
        };
        if hex::encode(&got) != f[5] {
            return Err(format!("refs::sighash vector {} differs: {}", f[0], hex::encode(got)));
        }
        n += 1;
    }
    Ok(n)
}
