//! Reference script tokenizer / serializer (Bitcoin script byte format).
//! Independent of the library's parser: flat token list, explicit bounds checks.

#[derive(Clone, Debug, PartialEq, Eq, Hash)]
pub enum Tok {
    /// a non-push opcode byte (including OP_0 = 0x00 and 0x4f..0xff)
    Op(u8),
    /// direct push: opcode byte 0x01..=0x4b is the length
    Push(Vec<u8>),
    /// OP_PUSHDATA1/2/4 (0x4c/0x4d/0x4e) with its payload
    PushData(u8, Vec<u8>),
}

#[derive(Clone, Debug, PartialEq, Eq)]
pub enum Malformed {
    /// a push (or its length field) declares more bytes than remain; offset of the push opcode
    TruncatedPush { at: usize, form: u8 },
}

pub const OP_PUSHDATA1: u8 = 0x4c;
pub const OP_PUSHDATA2: u8 = 0x4d;
pub const OP_PUSHDATA4: u8 = 0x4e;
pub const OP_IF: u8 = 0x63;
pub const OP_NOTIF: u8 = 0x64;
pub const OP_VERIF: u8 = 0x65;
pub const OP_VERNOTIF: u8 = 0x66;
pub const OP_ELSE: u8 = 0x67;
pub const OP_ENDIF: u8 = 0x68;
pub const OP_CODESEPARATOR: u8 = 0xab;

/// Split a byte string into tokens. Does not judge opcode validity or nesting.
pub fn tokenize(b: &[u8]) -> Result<Vec<Tok>, Malformed> {
    let mut out = Vec::new();
    let mut i = 0usize;
    while i < b.len() {
        let op = b[i];
        let at = i;
        i += 1;
        match op {
            0x01..=0x4b => {
                let n = op as usize;
                if b.len() - i < n {
                    return Err(Malformed::TruncatedPush { at, form: 0 });
                }
                out.push(Tok::Push(b[i..i + n].to_vec()));
                i += n;
            }
            OP_PUSHDATA1 | OP_PUSHDATA2 | OP_PUSHDATA4 => {
                let w = match op {
                    OP_PUSHDATA1 => 1,
                    OP_PUSHDATA2 => 2,
                    _ => 4,
                };
                if b.len() - i < w {
                    return Err(Malformed::TruncatedPush { at, form: op });
                }
                let mut n: u64 = 0;
                for k in 0..w {
                    n |= (b[i + k] as u64) << (8 * k);
                }
                i += w;
                if ((b.len() - i) as u64) < n {
                    return Err(Malformed::TruncatedPush { at, form: op });
                }
                out.push(Tok::PushData(op, b[i..i + n as usize].to_vec()));
                i += n as usize;
            }
            _ => out.push(Tok::Op(op)),
        }
    }
    Ok(out)
}

/// If the string contains a push whose (complete) length field declares more
/// payload than remains, return the declared length of that push.
pub fn declared_overrun(b: &[u8]) -> Option<u64> {
    let mut i = 0usize;
    while i < b.len() {
        let op = b[i];
        i += 1;
        let (w, direct) = match op {
            0x01..=0x4b => (0usize, Some(op as u64)),
            OP_PUSHDATA1 => (1, None),
            OP_PUSHDATA2 => (2, None),
            OP_PUSHDATA4 => (4, None),
            _ => continue,
        };
        let n = match direct {
            Some(n) => n,
            None => {
                if b.len() - i < w {
                    return None;
                }
                let mut n: u64 = 0;
                for k in 0..w {
                    n |= (b[i + k] as u64) << (8 * k);
                }
                i += w;
                n
            }
        };
        if ((b.len() - i) as u64) < n {
            return Some(n);
        }
        i += n as usize;
    }
    None
}

pub fn serialize(toks: &[Tok]) -> Vec<u8> {
    let mut out = Vec::new();
    for t in toks {
        match t {
            Tok::Op(o) => out.push(*o),
            Tok::Push(d) => {
                out.push(d.len() as u8);
                out.extend_from_slice(d);
            }
            Tok::PushData(op, d) => {
                out.push(*op);
                match *op {
                    OP_PUSHDATA1 => out.push(d.len() as u8),
                    OP_PUSHDATA2 => out.extend_from_slice(&(d.len() as u16).to_le_bytes()),
                    _ => out.extend_from_slice(&(d.len() as u32).to_le_bytes()),
                }
                out.extend_from_slice(d);
            }
        }
    }
    out
}

/// Conditional depth left open at the end of the token list, scanning left to
/// right; ENDIF at depth 0 is ignored. `openers` says which opcodes open a block.
pub fn open_depth(toks: &[Tok], openers: &[u8]) -> usize {
    let mut d = 0usize;
    for t in toks {
        if let Tok::Op(o) = t {
            if openers.contains(o) {
                d += 1;
            } else if *o == OP_ENDIF && d > 0 {
                d -= 1;
            }
        }
    }
    d
}

/// Minimal push prefix for a payload of length n (1..=2^32-1).
pub fn minimal_push_prefix(n: u64) -> Vec<u8> {
    if n <= 75 {
        vec![n as u8]
    } else if n <= 0xff {
        vec![OP_PUSHDATA1, n as u8]
    } else if n <= 0xffff {
        let mut v = vec![OP_PUSHDATA2];
        v.extend_from_slice(&(n as u16).to_le_bytes());
        v
    } else {
        let mut v = vec![OP_PUSHDATA4];
        v.extend_from_slice(&(n as u32).to_le_bytes());
        v
    }
}

/// The minimal push token for `data` (len >= 1).
pub fn minimal_push(data: &[u8]) -> Tok {
    let n = data.len();
    if n <= 75 {
        Tok::Push(data.to_vec())
    } else if n <= 0xff {
        Tok::PushData(OP_PUSHDATA1, data.to_vec())
    } else if n <= 0xffff {
        Tok::PushData(OP_PUSHDATA2, data.to_vec())
    } else {
        Tok::PushData(OP_PUSHDATA4, data.to_vec())
    }
}

pub fn is_minimal(t: &Tok) -> bool {
    match t {
        Tok::Op(_) => true,
        Tok::Push(d) => !d.is_empty(),
        Tok::PushData(op, d) => match *op {
            OP_PUSHDATA1 => d.len() > 75,
            OP_PUSHDATA2 => d.len() > 0xff,
            _ => d.len() > 0xffff,
        },
    }
}

/// Remove every OP_CODESEPARATOR token (at any nesting depth: the list is flat).
pub fn strip_codeseparators(toks: &[Tok]) -> Vec<Tok> {
    toks.iter().filter(|t| **t != Tok::Op(OP_CODESEPARATOR)).cloned().collect()
}

pub fn selftest() -> Result<usize, String> {
    let mut n = 0;
    let p2pkh = hex::decode("76a914000102030405060708090a0b0c0d0e0f1011121388ac").unwrap();
    let t = tokenize(&p2pkh).map_err(|e| format!("{:?}", e))?;
    if t.len() != 5 || serialize(&t) != p2pkh {
        return Err("refs::script p2pkh tokenization".into());
    }
    n += 1;
    if tokenize(&[0x05, 1, 2]).is_ok() || tokenize(&[0x4c]).is_ok() || tokenize(&[0x4d, 1]).is_ok() || tokenize(&[0x4e, 1, 0, 0, 0]).is_ok() {
        return Err("refs::script accepts truncated push".into());
    }
    n += 1;
    if tokenize(&[0x4c, 0]).unwrap() != vec![Tok::PushData(0x4c, vec![])] {
        return Err("refs::script empty pushdata1".into());
    }
    n += 1;
    if open_depth(&tokenize(&[0x63, 0x68, 0x68, 0x64]).unwrap(), &[OP_IF, OP_NOTIF]) != 1 {
        return Err("refs::script open_depth".into());
    }
    n += 1;
    if minimal_push_prefix(75) != vec![75] || minimal_push_prefix(76) != vec![0x4c, 76] || minimal_push_prefix(256) != vec![0x4d, 0, 1] || minimal_push_prefix(65536) != vec![0x4e, 0, 0, 1, 0] {
        return Err("refs::script minimal_push_prefix".into());
    }
    n += 1;
    Ok(n)
}
