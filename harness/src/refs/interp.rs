//! Reference Bitcoin SV (post-Genesis) script machine for the non-signature
//! opcodes. Flat token list + execution-flag stack; independent of the
//! library's branch splicing. Semantics are written out in DESIGN.md §6 C14.
use super::hashes;
use super::script::Tok;
use num_bigint::{BigInt, Sign};
use num_traits::{Signed, ToPrimitive, Zero};

pub type Stack = Vec<Vec<u8>>;

pub fn cast_to_bool(x: &[u8]) -> bool {
    for (i, b) in x.iter().enumerate() {
        if *b != 0 {
            // negative zero
            return !(i == x.len() - 1 && *b == 0x80);
        }
    }
    false
}

/// little-endian sign-magnitude, any length, non-minimal accepted
pub fn num(x: &[u8]) -> BigInt {
    if x.is_empty() {
        return BigInt::zero();
    }
    let mut mag = x.to_vec();
    let last = mag.len() - 1;
    let neg = mag[last] & 0x80 != 0;
    mag[last] &= 0x7f;
    let v = BigInt::from_bytes_le(Sign::Plus, &mag);
    if neg {
        -v
    } else {
        v
    }
}

/// minimal encoding (zero = empty)
pub fn enc(v: &BigInt) -> Vec<u8> {
    if v.is_zero() {
        return vec![];
    }
    let (_, mut mag) = v.abs().to_bytes_le();
    let last = mag.len() - 1;
    if mag[last] & 0x80 != 0 {
        mag.push(if v.is_negative() { 0x80 } else { 0x00 });
    } else if v.is_negative() {
        mag[last] |= 0x80;
    }
    mag
}

fn bool_item(b: bool) -> Vec<u8> {
    if b {
        vec![1]
    } else {
        vec![]
    }
}

#[derive(Clone, Debug, Default)]
pub struct Machine {
    pub stack: Stack,
    pub alt: Stack,
    /// one entry per open conditional: is this branch executing?
    pub exec: Vec<bool>,
    pub else_seen: Vec<bool>,
    /// OP_RETURN executed: nothing further executes
    pub returned: bool,
}

#[derive(Clone, Debug, PartialEq, Eq)]
pub enum Step {
    /// token was executed and may have changed the stacks
    Executed,
    /// token is structural (ELSE/ENDIF) or lies in a branch that is not executing: the library performs no step for it
    Silent,
}

#[derive(Clone, Debug, PartialEq, Eq)]
pub enum Fail {
    /// script fails here under BSV semantics
    Error(&'static str),
    /// the prescription is ambiguous / outside the claimed opcode set: no comparison
    Ambiguous(&'static str),
}

const MAX_INDEX_BYTES: usize = 4;

impl Machine {
    pub fn executing(&self) -> bool {
        !self.returned && self.exec.iter().all(|b| *b)
    }

    fn pop(&mut self) -> Result<Vec<u8>, Fail> {
        self.stack.pop().ok_or(Fail::Error("stack underflow"))
    }
    fn need(&self, n: usize) -> Result<(), Fail> {
        if self.stack.len() < n {
            Err(Fail::Error("stack underflow"))
        } else {
            Ok(())
        }
    }
    fn pop_num(&mut self) -> Result<BigInt, Fail> {
        Ok(num(&self.pop()?))
    }
    /// index-type operand (PICK/ROLL n, SPLIT position, NUM2BIN size, shift count)
    fn pop_index(&mut self) -> Result<BigInt, Fail> {
        let x = self.pop()?;
        if x.len() > MAX_INDEX_BYTES {
            return Err(Fail::Ambiguous("index operand longer than 4 bytes"));
        }
        Ok(num(&x))
    }
    fn top(&self, back: usize) -> &Vec<u8> {
        &self.stack[self.stack.len() - 1 - back]
    }

    pub fn step(&mut self, t: &Tok) -> Result<Step, Fail> {
        let op = match t {
            Tok::Push(d) | Tok::PushData(_, d) => {
                if !self.executing() {
                    return Ok(Step::Silent);
                }
                self.stack.push(d.clone());
                return Ok(Step::Executed);
            }
            Tok::Op(o) => *o,
        };
        // conditionals are processed whether or not the branch executes
        match op {
            0x63 | 0x64 => {
                if self.returned {
                    self.exec.push(false);
                    self.else_seen.push(false);
                    return Ok(Step::Silent);
                }
                if !self.executing() {
                    self.exec.push(false);
                    self.else_seen.push(false);
                    return Ok(Step::Silent);
                }
                let c = self.pop()?;
                let mut v = cast_to_bool(&c);
                if op == 0x64 {
                    v = !v;
                }
                self.exec.push(v);
                self.else_seen.push(false);
                return Ok(Step::Executed);
            }
            0x67 => {
                if self.exec.is_empty() {
                    return Err(Fail::Error("OP_ELSE without open conditional"));
                }
                let i = self.exec.len() - 1;
                if self.else_seen[i] {
                    return Err(Fail::Ambiguous("second OP_ELSE in one conditional"));
                }
                self.else_seen[i] = true;
                self.exec[i] = !self.exec[i];
                return Ok(Step::Silent);
            }
            0x68 => {
                if self.exec.is_empty() {
                    return Err(Fail::Error("OP_ENDIF without open conditional"));
                }
                self.exec.pop();
                self.else_seen.pop();
                return Ok(Step::Silent);
            }
            0x65 | 0x66 => return Err(Fail::Ambiguous("OP_VERIF/OP_VERNOTIF")),
            _ => {}
        }
        if !self.executing() {
            return Ok(Step::Silent);
        }
        self.exec_op(op)?;
        Ok(Step::Executed)
    }

    fn unary_num(&mut self, f: impl Fn(BigInt) -> BigInt) -> Result<(), Fail> {
        let a = self.pop_num()?;
        self.stack.push(enc(&f(a)));
        Ok(())
    }

    /// a = second from top, b = top
    fn binary_num(&mut self, f: impl Fn(BigInt, BigInt) -> Result<Vec<u8>, Fail>) -> Result<(), Fail> {
        self.need(2)?;
        let b = self.pop_num()?;
        let a = self.pop_num()?;
        let r = f(a, b)?;
        self.stack.push(r);
        Ok(())
    }

    fn exec_op(&mut self, op: u8) -> Result<(), Fail> {
        match op {
            0x00 => self.stack.push(vec![]),
            0x4f => self.stack.push(vec![0x81]),
            0x51..=0x60 => self.stack.push(vec![op - 0x50]),
            0x61 | 0xb0 | 0xb3..=0xb9 => {}
            0xb1 | 0xb2 => return Err(Fail::Ambiguous("CLTV/CSV")),
            0x50 | 0x62 | 0x89 | 0x8a => return Err(Fail::Ambiguous("reserved opcode")),
            0x69 => {
                let x = self.pop()?;
                if !cast_to_bool(&x) {
                    return Err(Fail::Error("OP_VERIFY failed"));
                }
            }
            0x6a => {
                self.returned = true;
            }
            0x6b => {
                let x = self.pop()?;
                self.alt.push(x);
            }
            0x6c => {
                let x = self.alt.pop().ok_or(Fail::Error("alt stack underflow"))?;
                self.stack.push(x);
            }
            0x6d => {
                self.need(2)?;
                self.stack.pop();
                self.stack.pop();
            }
            0x6e => {
                self.need(2)?;
                let (a, b) = (self.top(1).clone(), self.top(0).clone());
                self.stack.push(a);
                self.stack.push(b);
            }
            0x6f => {
                self.need(3)?;
                let (a, b, c) = (self.top(2).clone(), self.top(1).clone(), self.top(0).clone());
                self.stack.push(a);
                self.stack.push(b);
                self.stack.push(c);
            }
            0x70 => {
                self.need(4)?;
                let (a, b) = (self.top(3).clone(), self.top(2).clone());
                self.stack.push(a);
                self.stack.push(b);
            }
            0x71 => {
                self.need(6)?;
                let n = self.stack.len();
                let a = self.stack.remove(n - 6);
                let b = self.stack.remove(n - 6);
                self.stack.push(a);
                self.stack.push(b);
            }
            0x72 => {
                self.need(4)?;
                let n = self.stack.len();
                self.stack.swap(n - 4, n - 2);
                self.stack.swap(n - 3, n - 1);
            }
            0x73 => {
                self.need(1)?;
                let x = self.top(0).clone();
                if cast_to_bool(&x) {
                    self.stack.push(x);
                }
            }
            0x74 => {
                let d = self.stack.len();
                self.stack.push(enc(&BigInt::from(d)));
            }
            0x75 => {
                self.pop()?;
            }
            0x76 => {
                self.need(1)?;
                let x = self.top(0).clone();
                self.stack.push(x);
            }
            0x77 => {
                self.need(2)?;
                let n = self.stack.len();
                self.stack.remove(n - 2);
            }
            0x78 => {
                self.need(2)?;
                let x = self.top(1).clone();
                self.stack.push(x);
            }
            0x79 | 0x7a => {
                self.need(2)?;
                let n = self.pop_index()?;
                let depth = self.stack.len();
                let k = match n.to_usize() {
                    Some(k) if !n.is_negative() && k < depth => k,
                    _ => return Err(Fail::Error("PICK/ROLL index out of range")),
                };
                let x = if op == 0x79 { self.stack[depth - 1 - k].clone() } else { self.stack.remove(depth - 1 - k) };
                self.stack.push(x);
            }
            0x7b => {
                self.need(3)?;
                let n = self.stack.len();
                let x = self.stack.remove(n - 3);
                self.stack.push(x);
            }
            0x7c => {
                self.need(2)?;
                let n = self.stack.len();
                self.stack.swap(n - 2, n - 1);
            }
            0x7d => {
                self.need(2)?;
                let x = self.top(0).clone();
                let n = self.stack.len();
                self.stack.insert(n - 2, x);
            }
            0x7e => {
                self.need(2)?;
                let b = self.pop()?;
                let mut a = self.pop()?;
                a.extend_from_slice(&b);
                self.stack.push(a);
            }
            0x7f => {
                self.need(2)?;
                let n = self.pop_index()?;
                let x = self.pop()?;
                let k = match n.to_usize() {
                    Some(k) if !n.is_negative() && k <= x.len() => k,
                    _ => return Err(Fail::Error("SPLIT position out of range")),
                };
                self.stack.push(x[..k].to_vec());
                self.stack.push(x[k..].to_vec());
            }
            0x80 => {
                self.need(2)?;
                let size = self.pop_index()?;
                let x = self.pop()?;
                if size.is_negative() {
                    return Err(Fail::Error("NUM2BIN negative size"));
                }
                let size = match size.to_usize() {
                    Some(s) if s <= (1 << 20) => s,
                    _ => return Err(Fail::Ambiguous("NUM2BIN size above 1 MiB")),
                };
                let mut raw = enc(&num(&x));
                if raw.len() > size {
                    return Err(Fail::Error("NUM2BIN value does not fit"));
                }
                if raw.len() < size {
                    let mut sign = 0u8;
                    if let Some(l) = raw.last_mut() {
                        sign = *l & 0x80;
                        *l &= 0x7f;
                    }
                    raw.resize(size - 1, 0);
                    raw.push(sign);
                }
                self.stack.push(raw);
            }
            0x81 => {
                let x = self.pop()?;
                self.stack.push(enc(&num(&x)));
            }
            0x82 => {
                self.need(1)?;
                let l = self.top(0).len();
                self.stack.push(enc(&BigInt::from(l)));
            }
            0x83 => {
                let x = self.pop()?;
                self.stack.push(x.iter().map(|b| !b).collect());
            }
            0x84 | 0x85 | 0x86 => {
                self.need(2)?;
                let b = self.pop()?;
                let a = self.pop()?;
                if a.len() != b.len() {
                    return Err(Fail::Error("bitwise operands of unequal length"));
                }
                self.stack.push(a.iter().zip(b.iter()).map(|(x, y)| if op == 0x84 { x & y } else if op == 0x85 { x | y } else { x ^ y }).collect());
            }
            0x87 | 0x88 => {
                self.need(2)?;
                let b = self.pop()?;
                let a = self.pop()?;
                if op == 0x87 {
                    self.stack.push(bool_item(a == b));
                } else if a != b {
                    return Err(Fail::Error("EQUALVERIFY failed"));
                }
            }
            0x8b => self.unary_num(|a| a + 1)?,
            0x8c => self.unary_num(|a| a - 1)?,
            0x8d | 0x8e => return Err(Fail::Ambiguous("OP_2MUL/OP_2DIV")),
            0x8f => self.unary_num(|a| -a)?,
            0x90 => self.unary_num(|a| a.abs())?,
            0x91 => {
                let a = self.pop_num()?;
                self.stack.push(bool_item(a.is_zero()));
            }
            0x92 => {
                let a = self.pop_num()?;
                self.stack.push(bool_item(!a.is_zero()));
            }
            0x93 => self.binary_num(|a, b| Ok(enc(&(a + b))))?,
            0x94 => self.binary_num(|a, b| Ok(enc(&(a - b))))?,
            0x95 => self.binary_num(|a, b| Ok(enc(&(a * b))))?,
            0x96 => self.binary_num(|a, b| if b.is_zero() { Err(Fail::Error("division by zero")) } else { Ok(enc(&(a / b))) })?,
            0x97 => self.binary_num(|a, b| if b.is_zero() { Err(Fail::Error("modulo by zero")) } else { Ok(enc(&(a % b))) })?,
            0x98 | 0x99 => {
                self.need(2)?;
                let n = self.pop_index()?;
                let x = self.pop()?;
                if n.is_negative() {
                    return Err(Fail::Error("negative shift count"));
                }
                let n = n.to_usize().unwrap_or(usize::MAX);
                self.stack.push(shift_bits(&x, n, op == 0x98));
            }
            0x9a => self.binary_num(|a, b| Ok(bool_item(!a.is_zero() && !b.is_zero())))?,
            0x9b => self.binary_num(|a, b| Ok(bool_item(!a.is_zero() || !b.is_zero())))?,
            0x9c => self.binary_num(|a, b| Ok(bool_item(a == b)))?,
            0x9d => {
                self.need(2)?;
                let b = self.pop_num()?;
                let a = self.pop_num()?;
                if a != b {
                    return Err(Fail::Error("NUMEQUALVERIFY failed"));
                }
            }
            0x9e => self.binary_num(|a, b| Ok(bool_item(a != b)))?,
            0x9f => self.binary_num(|a, b| Ok(bool_item(a < b)))?,
            0xa0 => self.binary_num(|a, b| Ok(bool_item(a > b)))?,
            0xa1 => self.binary_num(|a, b| Ok(bool_item(a <= b)))?,
            0xa2 => self.binary_num(|a, b| Ok(bool_item(a >= b)))?,
            0xa3 => self.binary_num(|a, b| Ok(enc(if a < b { &a } else { &b })))?,
            0xa4 => self.binary_num(|a, b| Ok(enc(if a > b { &a } else { &b })))?,
            0xa5 => {
                self.need(3)?;
                let max = self.pop_num()?;
                let min = self.pop_num()?;
                let x = self.pop_num()?;
                self.stack.push(bool_item(min <= x && x < max));
            }
            0xa6 => {
                let x = self.pop()?;
                self.stack.push(hashes::ripemd160(&x).to_vec());
            }
            0xa7 => {
                let x = self.pop()?;
                self.stack.push(hashes::sha1(&x).to_vec());
            }
            0xa8 => {
                let x = self.pop()?;
                self.stack.push(hashes::sha256(&x).to_vec());
            }
            0xa9 => {
                let x = self.pop()?;
                self.stack.push(hashes::hash160(&x).to_vec());
            }
            0xaa => {
                let x = self.pop()?;
                self.stack.push(hashes::sha256d(&x).to_vec());
            }
            0xab => {}
            0xac..=0xaf => return Err(Fail::Ambiguous("signature opcode (C15)")),
            _ => return Err(Fail::Ambiguous("opcode outside the claimed set")),
        }
        Ok(())
    }
}

/// Logical shift of a byte string read as a big-endian bit string; length preserved.
pub fn shift_bits(x: &[u8], n: usize, left: bool) -> Vec<u8> {
    let bits = x.len() * 8;
    let mut out = vec![0u8; x.len()];
    if n >= bits {
        return out;
    }
    for i in 0..bits {
        // bit i counted from the most significant bit of byte 0
        let src = if left { i + n } else { i.wrapping_sub(n) };
        if src < bits {
            let bit = (x[src / 8] >> (7 - src % 8)) & 1;
            out[i / 8] |= bit << (7 - i % 8);
        }
    }
    out
}

#[derive(Clone, Debug, PartialEq, Eq)]
pub enum End {
    /// every token processed, conditionals balanced
    Completed,
    /// script fails while processing token `at`
    Failed { at: usize, why: &'static str },
    /// conditionals left open at the end of the script
    Unbalanced,
    Ambiguous { at: usize, why: &'static str },
}

pub struct Trace {
    /// (token index, main stack, alt stack) after every executed token
    pub states: Vec<(usize, Stack, Stack)>,
    pub end: End,
}

pub fn run(tokens: &[Tok]) -> Trace {
    let mut m = Machine::default();
    let mut states = vec![];
    for (i, t) in tokens.iter().enumerate() {
        match m.step(t) {
            Ok(Step::Executed) => {
                states.push((i, m.stack.clone(), m.alt.clone()));
                if m.returned && m.exec.is_empty() {
                    // top-level OP_RETURN ends execution successfully
                    return Trace { states, end: End::Completed };
                }
            }
            Ok(Step::Silent) => {}
            Err(Fail::Error(why)) => return Trace { states, end: End::Failed { at: i, why } },
            Err(Fail::Ambiguous(why)) => return Trace { states, end: End::Ambiguous { at: i, why } },
        }
    }
    let end = if m.exec.is_empty() { End::Completed } else { End::Unbalanced };
    Trace { states, end }
}

pub fn selftest() -> Result<usize, String> {
    let mut n = 0;
    let mut chk = |name: &str, ok: bool| -> Result<(), String> {
        n += 1;
        if ok {
            Ok(())
        } else {
            Err(format!("refs::interp selftest {}", name))
        }
    };
    chk("enc/num", enc(&BigInt::from(-1)) == vec![0x81] && enc(&BigInt::from(128)) == vec![0x80, 0x00] && enc(&BigInt::from(-128)) == vec![0x80, 0x80] && enc(&BigInt::from(255)) == vec![0xff, 0x00] && enc(&BigInt::from(0)).is_empty())?;
    chk("num", num(&[0x80]) == BigInt::zero() && num(&[0x01, 0x00]) == BigInt::from(1) && num(&[0xff, 0xff, 0x7f]) == BigInt::from(0x7fffff) && num(&[0x00, 0x81]) == BigInt::from(-256))?;
    chk("bool", !cast_to_bool(&[]) && !cast_to_bool(&[0]) && !cast_to_bool(&[0x80]) && !cast_to_bool(&[0, 0x80]) && cast_to_bool(&[0x80, 0]) && cast_to_bool(&[0x81]) && cast_to_bool(&[0, 0, 0, 0, 1]))?;
    let run_hex = |h: &str| -> Trace { run(&super::script::tokenize(&hex::decode(h).unwrap()).unwrap()) };
    let top = |t: &Trace| t.states.last().map(|s| s.1.clone()).unwrap_or_default();
    // 1 2 SUB -> -1 ; 6 3 DIV -> 2 ; -7 2 MOD -> -1 ; 1 2 LESSTHAN -> true
    chk("sub", top(&run_hex("515294")) == vec![vec![0x81]])?;
    chk("div", top(&run_hex("565396")) == vec![vec![2]])?;
    chk("mod", top(&run_hex("0187 52 97".replace(' ', "").as_str())) == vec![vec![0x81]])?;
    chk("lessthan", top(&run_hex("51529f")) == vec![vec![1]])?;
    chk("within", top(&run_hex("515153a5")) == vec![vec![1]] && top(&run_hex("535153a5")) == vec![Vec::<u8>::new()])?;
    chk("cat/split", top(&run_hex("01aa01bb7e")) == vec![vec![0xaa, 0xbb]] && top(&run_hex("02aabb517f")) == vec![vec![0xaa], vec![0xbb]])?;
    chk("num2bin", top(&run_hex("0181 54 80".replace(' ', "").as_str())) == vec![vec![1, 0, 0, 0x80]] && top(&run_hex("00 52 80".replace(' ', "").as_str())) == vec![vec![0, 0]])?;
    chk("lshift", shift_bits(&[0x00, 0x80], 1, true) == vec![0x01, 0x00] && shift_bits(&[0x01, 0x00], 1, false) == vec![0x00, 0x80] && shift_bits(&[0xff], 8, true) == vec![0])?;
    chk("2swap", top(&run_hex("5152535472")) == vec![vec![3], vec![4], vec![1], vec![2]])?;
    chk("2dup/3dup", top(&run_hex("51526e")) == vec![vec![1], vec![2], vec![1], vec![2]] && top(&run_hex("5152536f")).len() == 6)?;
    chk("ifdup", top(&run_hex("5173")) == vec![vec![1], vec![1]] && top(&run_hex("0073")) == vec![Vec::<u8>::new()])?;
    chk("if/notif/else", top(&run_hex("00635167526851")) == vec![vec![2], vec![1]] && top(&run_hex("0064516752 68".replace(' ', "").as_str())) == vec![vec![1]])?;
    chk("return", {
        let t = run_hex("516a52");
        t.end == End::Completed && top(&t) == vec![vec![1]]
    })?;
    chk("stray endif", matches!(run_hex("5168").end, End::Failed { .. }) && run_hex("5163").end == End::Unbalanced)?;
    chk("verify", matches!(run_hex("0069").end, End::Failed { .. }) && run_hex("5169").end == End::Completed)?;
    chk("pick/roll", top(&run_hex("5152535279")) == vec![vec![1], vec![2], vec![3], vec![1]] && top(&run_hex("515253527a")) == vec![vec![2], vec![3], vec![1]] && matches!(run_hex("51 53 79".replace(' ', "").as_str()).end, End::Failed { .. }))?;
    chk("add minimal", top(&run_hex("4f5193")) == vec![Vec::<u8>::new()] && top(&run_hex("4f4f93")) == vec![vec![0x82]])?;
    chk("and length", matches!(run_hex("01ff02ffff84").end, End::Failed { .. }))?;
    chk("hash160", top(&run_hex("00a9")) == vec![hex::decode("b472a266d0bd89c13706a4132ccfb16f7c3b9fcb").unwrap()])?;
    Ok(n)
}
