//! Independent reference models. None of them uses a crate the library uses
//! for the same job.
pub mod aes;
pub mod b58;
pub mod hashes;
pub mod interp;
pub mod script;
pub mod secp;
pub mod sighash;
pub mod wire;

pub fn selftest() -> Result<usize, String> {
    let mut n = 0;
    n += hashes::selftest()?;
    n += script::selftest()?;
    n += aes::selftest()?;
    n += secp::selftest()?;
    n += b58::selftest()?;
    n += wire::selftest()?;
    n += sighash::selftest()?;
    n += interp::selftest()?;
    Ok(n)
}

/// Lines "algo <hex input> <hex output>" cross-checked by /verif/oracles/xcheck.py
/// against Python hashlib / the openssl CLI.
pub fn refdump() -> Vec<String> {
    let mut out = vec![];
    for h in hashes::ALL {
        for len in [0usize, 1, 55, 56, 63, 64, 65, 111, 112, 119, 120, 127, 128, 129, 200, 300] {
            for p in 0..3u64 {
                let m = crate::props::pattern(p, len);
                out.push(format!("{} {} {}", h.name(), hex::encode(&m), hex::encode(hashes::hash(h, &m))));
            }
        }
    }
    for h in [hashes::H::Sha1, hashes::H::Sha256, hashes::H::Sha512, hashes::H::Ripemd160] {
        for klen in [0usize, 1, 63, 64, 65, 127, 128, 129, 200] {
            for mlen in [0usize, 1, 64, 150] {
                let k = crate::props::pattern(2, klen);
                let m = crate::props::pattern(4, mlen);
                out.push(format!("hmac-{} {} {} {}", h.name(), hex::encode(&k), hex::encode(&m), hex::encode(hashes::hmac(h, &k, &m))));
            }
        }
    }
    for h in [hashes::H::Sha1, hashes::H::Sha256, hashes::H::Sha512] {
        for (pl, sl, it, ol) in [(0usize, 0usize, 1u32, 1usize), (8, 8, 3, 20), (65, 65, 10, 100), (129, 1, 2, 130), (5, 129, 1000, 64)] {
            let p = crate::props::pattern(2, pl);
            let s = crate::props::pattern(5, sl);
            out.push(format!("pbkdf2-{} {} {} {} {} {}", h.name(), hex::encode(&p), hex::encode(&s), it, ol, hex::encode(hashes::pbkdf2(h, &p, &s, it, ol))));
        }
    }
    out.extend(aes::refdump_lines());
    out
}
