//! E3: isolating runner (child processes) — filled in with C09/C16.
pub fn child_main(_args: &[String]) -> ! {
    std::process::exit(2)
}
