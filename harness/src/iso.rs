//! E3: isolating runner. Cases that may abort the process (stack overflow,
//! allocation failure) are evaluated in child processes of this binary. The
//! child publishes the index it is about to run in a shared mmap'd file, runs
//! under a counting global allocator that refuses over-budget requests, and
//! streams violations to the parent. A child death is attributed to the
//! in-flight index and the parent restarts after it.

use crate::engine::{Acc, Tier};
use crate::props::Case;
use serde_json::{json, Value};
use std::alloc::{GlobalAlloc, Layout, System};
use std::io::{BufRead, BufReader, Write};
use std::process::{Command, Stdio};
use std::sync::atomic::{AtomicBool, AtomicU64, AtomicUsize, Ordering};

// ---------------------------------------------------------------- allocator

pub struct Counting;

static ARMED: AtomicBool = AtomicBool::new(false);
static BUDGET: AtomicU64 = AtomicU64::new(u64::MAX);
static LIVE: AtomicU64 = AtomicU64::new(0);
static PEAK: AtomicU64 = AtomicU64::new(0);
static REFUSED: AtomicU64 = AtomicU64::new(0);
static SHM: AtomicUsize = AtomicUsize::new(0);

unsafe impl GlobalAlloc for Counting {
    unsafe fn alloc(&self, l: Layout) -> *mut u8 {
        if ARMED.load(Ordering::Relaxed) && !self.admit(l.size() as u64) {
            return std::ptr::null_mut();
        }
        System.alloc(l)
    }
    unsafe fn alloc_zeroed(&self, l: Layout) -> *mut u8 {
        if ARMED.load(Ordering::Relaxed) && !self.admit(l.size() as u64) {
            return std::ptr::null_mut();
        }
        System.alloc_zeroed(l)
    }
    unsafe fn dealloc(&self, p: *mut u8, l: Layout) {
        if ARMED.load(Ordering::Relaxed) {
            let s = l.size() as u64;
            let _ = LIVE.fetch_update(Ordering::Relaxed, Ordering::Relaxed, |v| Some(v.saturating_sub(s)));
        }
        System.dealloc(p, l)
    }
    unsafe fn realloc(&self, p: *mut u8, l: Layout, new: usize) -> *mut u8 {
        if ARMED.load(Ordering::Relaxed) {
            if new > l.size() {
                if !self.admit((new - l.size()) as u64) {
                    return std::ptr::null_mut();
                }
            } else {
                let s = (l.size() - new) as u64;
                let _ = LIVE.fetch_update(Ordering::Relaxed, Ordering::Relaxed, |v| Some(v.saturating_sub(s)));
            }
        }
        System.realloc(p, l, new)
    }
}

impl Counting {
    fn admit(&self, size: u64) -> bool {
        let live = LIVE.fetch_add(size, Ordering::Relaxed) + size;
        if live > BUDGET.load(Ordering::Relaxed) {
            LIVE.fetch_sub(size, Ordering::Relaxed);
            REFUSED.store(size.max(1), Ordering::Relaxed);
            // publish for the parent: the process is about to abort in handle_alloc_error
            let shm = SHM.load(Ordering::Relaxed);
            if shm != 0 {
                unsafe {
                    std::ptr::write_volatile((shm as *mut u64).add(5), size.max(1));
                    std::ptr::write_volatile((shm as *mut u64).add(6), live);
                }
            }
            return false;
        }
        PEAK.fetch_max(live, Ordering::Relaxed);
        true
    }
}

/// Arm the allocator for one library call: at most `budget` live bytes above the current level.
pub fn arm(budget: u64) {
    LIVE.store(0, Ordering::Relaxed);
    PEAK.store(0, Ordering::Relaxed);
    REFUSED.store(0, Ordering::Relaxed);
    BUDGET.store(budget, Ordering::Relaxed);
    ARMED.store(true, Ordering::Relaxed);
}

/// Disarm and return the peak number of live bytes observed while armed.
pub fn disarm() -> u64 {
    ARMED.store(false, Ordering::Relaxed);
    PEAK.load(Ordering::Relaxed)
}

pub fn in_child() -> bool {
    SHM.load(Ordering::Relaxed) != 0
}

// ---------------------------------------------------------------- shared page

const SHM_WORDS: usize = 16;
// [0]=in-flight idx+1 (0 = none)  [1]=cases finished  [5]=refused request size  [6]=live bytes at refusal

fn map_shared(path: &str, create: bool) -> *mut u64 {
    use std::os::unix::io::AsRawFd;
    let f = std::fs::OpenOptions::new().read(true).write(true).create(create).truncate(false).open(path).expect("open shm file");
    if create {
        f.set_len((SHM_WORDS * 8) as u64).expect("size shm");
    }
    unsafe {
        let p = libc::mmap(std::ptr::null_mut(), SHM_WORDS * 8, libc::PROT_READ | libc::PROT_WRITE, libc::MAP_SHARED, f.as_raw_fd(), 0);
        if p == libc::MAP_FAILED {
            panic!("mmap failed");
        }
        p as *mut u64
    }
}

// ---------------------------------------------------------------- child

/// bsvmc child <ID> <tier> <space> <shm path>; indices arrive on stdin as "lo hi" ranges, one per line.
pub fn child_main(args: &[String]) -> ! {
    if args.len() < 4 {
        std::process::exit(2);
    }
    let id = args[0].to_uppercase();
    let tier = if args[1] == "thorough" { Tier::Thorough } else { Tier::Quick };
    let space_name = args[2].clone();
    let shm = map_shared(&args[3], false);
    SHM.store(shm as usize, Ordering::Relaxed);
    unsafe {
        // safety nets: address space and core dumps
        let lim = libc::rlimit { rlim_cur: 24 << 30, rlim_max: 24 << 30 };
        libc::setrlimit(libc::RLIMIT_AS, &lim);
        let nocore = libc::rlimit { rlim_cur: 0, rlim_max: 0 };
        libc::setrlimit(libc::RLIMIT_CORE, &nocore);
    }
    // keep the pipe to the parent on a private fd; the library's own println!s go to /dev/null
    let pipe_fd = unsafe { libc::dup(1) };
    unsafe {
        let devnull = libc::open(b"/dev/null\0".as_ptr() as *const libc::c_char, libc::O_WRONLY);
        libc::dup2(devnull, 1);
        libc::dup2(devnull, 2);
    }
    let mut pipe = unsafe { <std::fs::File as std::os::unix::io::FromRawFd>::from_raw_fd(pipe_fd) };
    crate::engine::install_panic_hook();
    let spaces = match crate::props::lookup(&id).and_then(|p| p.spaces) {
        Some(mk) => mk(tier),
        None => std::process::exit(2),
    };
    let sp = match spaces.into_iter().find(|s| s.name == space_name) {
        Some(s) => s,
        None => std::process::exit(2),
    };
    let stdin = std::io::stdin();
    let mut ranges: Vec<(u64, u64)> = vec![];
    for line in stdin.lock().lines() {
        let line = line.unwrap_or_default();
        let mut it = line.split_whitespace();
        if let (Some(a), Some(b)) = (it.next(), it.next()) {
            if let (Ok(a), Ok(b)) = (a.parse(), b.parse()) {
                ranges.push((a, b));
            }
        }
    }
    let mut acc = Acc::new();
    let mut finished: u64 = 0;
    for (lo, hi) in ranges {
        for idx in lo..hi {
            unsafe { std::ptr::write_volatile(shm, idx + 1) };
            let case = Case { space: &sp.name, idx, tier };
            (sp.eval)(&case, &mut acc);
            finished += 1;
            unsafe {
                std::ptr::write_volatile(shm.add(1), finished);
                std::ptr::write_volatile(shm, 0);
            }
            if !acc.violations.is_empty() {
                for (k, (n, vs)) in std::mem::take(&mut acc.violations) {
                    for v in vs {
                        let _ = writeln!(pipe, "V {}", json!({"key": k, "order": v.order, "case": v.case, "detail": v.detail, "n": n}));
                    }
                }
            }
        }
    }
    let summary = json!({
        "evaluations": acc.evaluations, "transitions": acc.transitions, "traces": acc.traces,
        "nontrivial": acc.n_nontrivial(), "states": acc.n_states(),
        "outcomes": acc.outcomes.iter().collect::<Vec<_>>(),
        "samples": acc.samples.iter().map(|s| json!([s.0, s.1])).collect::<Vec<_>>(),
        "info": acc.info,
    });
    let _ = writeln!(pipe, "S {}", summary);
    let _ = pipe.flush();
    std::process::exit(0)
}

// ---------------------------------------------------------------- parent

pub struct Death {
    pub idx: u64,
    pub reason: String,
}

pub struct IsoOutcome {
    pub acc: Acc,
    pub deaths: Vec<Death>,
    pub done: u64,
    pub unattributed: Vec<String>,
}

fn signal_name(sig: i32) -> String {
    match sig {
        6 => "SIGABRT".into(),
        9 => "SIGKILL".into(),
        11 => "SIGSEGV".into(),
        7 => "SIGBUS".into(),
        n => format!("signal {}", n),
    }
}

struct ChunkResult {
    acc: Acc,
    deaths: Vec<Death>,
    done: u64,
    unattributed: Vec<String>,
}

/// Run [lo,hi) of `space` in a child; restart after each death.
fn run_chunk(id: &str, tier: Tier, space: &str, lo: u64, hi: u64, worker: usize, max_deaths: usize) -> ChunkResult {
    use std::os::unix::process::ExitStatusExt;
    let exe = std::env::current_exe().expect("current_exe");
    // shared page for the in-flight index: /dev/shm when it exists and is writable, the temporary directory otherwise
    let shm_dir = if std::fs::metadata("/dev/shm").map(|m| m.is_dir()).unwrap_or(false) && std::fs::File::create(format!("/dev/shm/bsvmc-probe-{}", std::process::id())).map(|_| std::fs::remove_file(format!("/dev/shm/bsvmc-probe-{}", std::process::id())).is_ok()).unwrap_or(false) { "/dev/shm".to_string() } else { std::env::temp_dir().to_string_lossy().to_string() };
    let shm_path = format!("{}/bsvmc-{}-{}.shm", shm_dir, std::process::id(), worker);
    let shm = map_shared(&shm_path, true);
    let mut res = ChunkResult { acc: Acc::new(), deaths: vec![], done: 0, unattributed: vec![] };
    let mut cur = lo;
    while cur < hi {
        unsafe {
            for w in 0..SHM_WORDS {
                std::ptr::write_volatile(shm.add(w), 0);
            }
        }
        let mut spawned = None;
        for attempt in 0..8 {
            match Command::new(&exe).args(["child", id, tier.name(), space, &shm_path]).stdin(Stdio::piped()).stdout(Stdio::piped()).stderr(Stdio::null()).spawn() {
                Ok(c) => {
                    spawned = Some(c);
                    break;
                }
                Err(_) => std::thread::sleep(std::time::Duration::from_millis(200 * (attempt + 1))),
            }
        }
        let mut child = match spawned {
            Some(c) => c,
            None => {
                res.unattributed.push(format!("cannot spawn a child process for {}/{}", id, space));
                break;
            }
        };
        {
            let mut si = child.stdin.take().unwrap();
            let _ = writeln!(si, "{} {}", cur, hi);
        }
        let so = child.stdout.take().unwrap();
        let mut got_summary = false;
        for line in BufReader::new(so).lines() {
            let line = match line {
                Ok(l) => l,
                Err(_) => break,
            };
            if let Some(rest) = line.strip_prefix("V ") {
                if let Ok(v) = serde_json::from_str::<Value>(rest) {
                    res.acc.violate(v["key"].as_str().unwrap_or("?").to_string(), v["order"].as_u64().unwrap_or(0), v["case"].clone(), v["detail"].as_str().unwrap_or("").to_string());
                }
            } else if let Some(rest) = line.strip_prefix("S ") {
                if let Ok(v) = serde_json::from_str::<Value>(rest) {
                    got_summary = true;
                    res.acc.evaluations += v["evaluations"].as_u64().unwrap_or(0);
                    res.acc.transitions += v["transitions"].as_u64().unwrap_or(0);
                    res.acc.traces += v["traces"].as_u64().unwrap_or(0);
                    res.acc.nontrivial_structural += v["nontrivial"].as_u64().unwrap_or(0);
                    res.acc.states_structural += v["states"].as_u64().unwrap_or(0);
                    if let Some(o) = v["outcomes"].as_array() {
                        for h in o {
                            if let Some(h) = h.as_u64() {
                                res.acc.outcomes.insert(h);
                            }
                        }
                    }
                    if let Some(ss) = v["samples"].as_array() {
                        for s in ss {
                            let ord = s[0].as_u64().unwrap_or(0);
                            let val = s[1].clone();
                            res.acc.sample(ord, || val);
                        }
                    }
                    if let Some(info) = v["info"].as_object() {
                        for (k, n) in info {
                            res.acc.bump(k, n.as_u64().unwrap_or(0));
                        }
                    }
                }
            }
        }
        let status = child.wait().expect("wait child");
        let finished = unsafe { std::ptr::read_volatile(shm.add(1)) };
        if status.success() && got_summary {
            res.done += finished;
            break;
        }
        let inflight = unsafe { std::ptr::read_volatile(shm) };
        let refused = unsafe { std::ptr::read_volatile(shm.add(5)) };
        let live = unsafe { std::ptr::read_volatile(shm.add(6)) };
        let how = match status.signal() {
            Some(s) => signal_name(s),
            None => format!("exit code {:?}", status.code()),
        };
        if inflight == 0 {
            res.unattributed.push(format!("child for {}/{} [{}..{}) died ({}) with no case in flight", id, space, cur, hi, how));
            break;
        }
        let idx = inflight - 1;
        let reason = if refused > 0 {
            format!("abort: allocation request of {} bytes refused (live {} bytes > per-case budget), {}", refused, live, how)
        } else {
            format!("process died: {}", how)
        };
        res.deaths.push(Death { idx, reason });
        // counters of the finished cases before the death are lost with the child; count the cases
        res.done += finished + 1;
        res.acc.evaluations += finished + 1;
        cur = idx + 1;
        if res.deaths.len() >= max_deaths {
            break;
        }
    }
    let _ = std::fs::remove_file(&shm_path);
    res
}

/// Evaluate exactly [lo,hi) in one child (used by replay).
pub fn run_range_isolated(id: &str, tier: Tier, space: &str, lo: u64, hi: u64) -> IsoOutcome {
    let r = run_chunk(id, tier, space, lo, hi, 9999, 4);
    IsoOutcome { acc: r.acc, deaths: r.deaths, done: r.done, unattributed: r.unattributed }
}

/// Evaluate indices [0,n) of a space in child processes, `workers` in parallel.
pub fn run_space_isolated(id: &str, tier: Tier, space: &str, n: u64, workers: usize, max_deaths_per_worker: usize) -> IsoOutcome {
    let workers = workers.max(1).min(n.max(1) as usize);
    let per = (n + workers as u64 - 1) / workers as u64;
    let mut out = IsoOutcome { acc: Acc::new(), deaths: vec![], done: 0, unattributed: vec![] };
    let results: Vec<ChunkResult> = std::thread::scope(|s| {
        let hs: Vec<_> = (0..workers)
            .map(|w| {
                let lo = (w as u64 * per).min(n);
                let hi = ((w as u64 + 1) * per).min(n);
                s.spawn(move || run_chunk(id, tier, space, lo, hi, w, max_deaths_per_worker))
            })
            .collect();
        hs.into_iter().map(|h| h.join().expect("iso worker")).collect()
    });
    for r in results {
        out.acc.merge(r.acc);
        out.deaths.extend(r.deaths);
        out.done += r.done;
        out.unattributed.extend(r.unattributed);
    }
    out.deaths.sort_by_key(|d| d.idx);
    out
}
