//! C09 — every public decoder is total: Ok or Err on any input, no panic, no
//! abort, peak memory bounded by the input length (not by a declared length).
//! Everything runs in child processes (E3) under the counting allocator.
use super::{hx, replay_spaces_for, run_spaces_for, Case, Prop, Space};
use crate::engine::{guard, panic_site, Acc, Ctx, Report, Tier};
use crate::refs::wire::{self as rw, RIn, ROut, RTx};
use crate::refs::{b58, secp};
use bsv::{
    AESAlgorithms, ECIESCiphertext, ExtendedPrivateKey, ExtendedPublicKey, Hash, P2PKHAddress, PrivateKey, PublicKey, Script, ScriptTemplate, SighashSignature, Signature, Transaction, TxIn, TxOut, AES, ECDSA,
    ECIES, KDF,
};
use serde_json::{json, Value};
use std::sync::Arc;

pub const PROP: Prop = Prop {
    run,
    replay,
    spaces: Some(spaces),
    level_note: "no result model: only totality is judged. Panics are caught per call; aborts (stack overflow, allocation failure) kill the child and are attributed to the in-flight case; the memory bound is heap bytes requested through the global allocator while the call is armed: 4 MiB + 2048 x input length, any request above it is refused. Kernel overcommit effects and stack memory are not modelled (stack depth is bounded by the 8 MiB main-thread stack of the child)",
};

fn budget(len: usize) -> u64 {
    (4 << 20) + 2048 * len as u64
}

type Call = Box<dyn Fn(&[u8]) + Send + Sync>;

struct Entry {
    name: &'static str,
    text: bool,
    seeds: Vec<Vec<u8>>,
    call: Call,
}

const BYTE_ALPHA: [u8; 24] = [0x00, 0x01, 0x02, 0x1b, 0x4b, 0x4c, 0x4d, 0x4e, 0x5b, 0x7b, 0x7f, 0x80, 0x9b, 0x9f, 0xbb, 0xbf, 0xfb, 0xfc, 0xfd, 0xfe, 0xff, 0x30, 0x22, 0x7a];
const TEXT_ALPHA: [&str; 24] = ["0", "1", "9", "a", "f", "F", "g", "z", "O", "I", "l", "m", "/", "'", "h", "H", " ", "\n", "\"", "{", "[", "_", "P", "é"];

/// multi-byte insertions that declare enormous lengths/counts (CBOR heads, compact sizes, PUSHDATA4, DER long form)
fn bombs() -> Vec<Vec<u8>> {
    let h = |s: &str| hex::decode(s).unwrap();
    vec![
        h("9bffffffffffffffff"),
        h("9b0000000100000000"),
        h("9affffffff"),
        h("5bffffffffffffffff"),
        h("5a7fffffff"),
        h("7b00000000ffffffff"),
        h("bbffffffffffffffff"),
        h("ffffffffffffffffff"),
        h("ff0000000001000000"),
        h("feffffffff"),
        h("fe00000080"),
        h("4effffffff"),
        h("4e00000001"),
        h("4dffff"),
        h("3084ffffffff"),
        h("0284ffffffff"),
        // nested CBOR arrays each declaring 39321 elements (pre-allocation per nesting level)
        vec![0x99; 64],
        vec![0xb9; 64],
    ]
}

fn text_bombs() -> Vec<String> {
    vec!["[".repeat(200), "{\"a\":".repeat(200), "9".repeat(400), "f".repeat(4096), "m/".to_string() + &"1/".repeat(300), "OP_IF ".repeat(300), "1".repeat(120)]
}

struct Plan {
    entry: Entry,
    /// prefix sums of case classes
    n_short: u64,
    per_seed: Vec<(u64, u64, u64)>,
    total: u64,
}

fn short_count(text: bool) -> u64 {
    if text {
        1 + 24 + 24 * 24 + 24 * 24 * 24
    } else {
        1 + 256 + 65536
    }
}

fn nth_short(text: bool, mut idx: u64) -> Vec<u8> {
    if text {
        let mut len = 0;
        let mut block = 1u64;
        while idx >= block {
            idx -= block;
            len += 1;
            block *= 24;
        }
        let mut s = String::new();
        let mut parts = vec![];
        for _ in 0..len {
            parts.push(TEXT_ALPHA[(idx % 24) as usize]);
            idx /= 24;
        }
        parts.reverse();
        for p in parts {
            s.push_str(p);
        }
        s.into_bytes()
    } else if idx == 0 {
        vec![]
    } else if idx <= 256 {
        vec![(idx - 1) as u8]
    } else {
        let k = idx - 257;
        vec![(k >> 8) as u8, k as u8]
    }
}

impl Plan {
    fn new(entry: Entry) -> Plan {
        let n_short = short_count(entry.text);
        let nb = if entry.text { text_bombs().len() } else { bombs().len() } as u64;
        let mut per_seed = vec![];
        let mut total = n_short;
        for s in &entry.seeds {
            let l = s.len() as u64;
            let prefixes = l + 1;
            let subst = l * 24;
            let bomb = (l + 1) * nb;
            per_seed.push((prefixes, subst, bomb));
            total += prefixes + subst + bomb;
        }
        Plan { entry, n_short, per_seed, total }
    }

    fn nth(&self, mut idx: u64) -> (String, Vec<u8>) {
        if idx < self.n_short {
            return ("short".into(), nth_short(self.entry.text, idx));
        }
        idx -= self.n_short;
        for (si, (p, s, b)) in self.per_seed.iter().enumerate() {
            let seed = &self.entry.seeds[si];
            if idx < *p {
                // for text decoders cut only at character boundaries
                let mut cut = idx as usize;
                if self.entry.text {
                    while cut > 0 && !std::str::from_utf8(&seed[..cut]).is_ok() {
                        cut -= 1;
                    }
                }
                return (format!("seed{}:prefix{}", si, cut), seed[..cut].to_vec());
            }
            idx -= p;
            if idx < *s {
                let (pos, k) = ((idx / 24) as usize, (idx % 24) as usize);
                let mut v = seed.clone();
                if self.entry.text {
                    // replace one byte by one alphabet character; seeds are ASCII
                    let mut out = seed[..pos].to_vec();
                    out.extend_from_slice(TEXT_ALPHA[k].as_bytes());
                    out.extend_from_slice(&seed[pos + 1..]);
                    v = out;
                } else {
                    v[pos] = BYTE_ALPHA[k];
                }
                return (format!("seed{}:byte{}:={}", si, pos, k), v);
            }
            idx -= s;
            if idx < *b {
                if self.entry.text {
                    let tb = text_bombs();
                    let nb = tb.len() as u64;
                    let (pos, k) = ((idx / nb) as usize, (idx % nb) as usize);
                    let mut out = seed[..pos].to_vec();
                    out.extend_from_slice(tb[k].as_bytes());
                    out.extend_from_slice(&seed[pos..]);
                    return (format!("seed{}:insert{}@{}", si, k, pos), out);
                } else {
                    let bb = bombs();
                    let nb = bb.len() as u64;
                    let (pos, k) = ((idx / nb) as usize, (idx % nb) as usize);
                    let mut out = seed[..pos].to_vec();
                    out.extend_from_slice(&bb[k]);
                    // overwrite as many bytes as the bomb is long (keeps the following structure plausible)
                    let skip = (pos + bb[k].len()).min(seed.len());
                    out.extend_from_slice(&seed[skip..]);
                    return (format!("seed{}:bomb{}@{}", si, k, pos), out);
                }
            }
            idx -= b;
        }
        ("out-of-range".into(), vec![])
    }
}

thread_local! {
    static DECODED: std::cell::Cell<bool> = std::cell::Cell::new(false);
}

/// remember whether the decoder under test returned Ok (only used to tell outcomes apart in the evidence)
fn mark<T, E>(r: Result<T, E>) -> Result<T, E> {
    if r.is_ok() {
        DECODED.with(|d| d.set(true));
    }
    r
}

fn s(b: &[u8]) -> String {
    String::from_utf8_lossy(b).into_owned()
}

fn key1() -> PrivateKey {
    PrivateKey::from_hex("c0ffee254729296a45a3885639ac7e10f9d54979a0f5b2d1e8b1c4a7d3f6e5b9").unwrap()
}

fn sample_tx() -> RTx {
    RTx {
        version: 1,
        inputs: vec![
            RIn { txid_wire: [7; 32], vout: 1, script: vec![0x02, 0xaa, 0xbb, 0x4c, 0x01, 0x07, 0x51], sequence: 0xfffffffe },
            RIn { txid_wire: [9; 32], vout: 0, script: vec![0x63, 0x51, 0x67, 0x52, 0x68], sequence: 5 },
        ],
        outputs: vec![ROut { value: 5000, script: vec![0x76, 0xa9, 0x14, 1, 2, 3, 4, 5, 6, 7, 8, 9, 10, 11, 12, 13, 14, 15, 16, 17, 18, 19, 20, 0x88, 0xac] }, ROut { value: 0, script: vec![0x6a, 0x04, 1, 2, 3, 4] }],
        locktime: 0,
    }
}

fn entries() -> Vec<Entry> {
    let mut v: Vec<Entry> = vec![];
    let txb = sample_tx().encode();
    let genesis = hex::decode("01000000010000000000000000000000000000000000000000000000000000000000000000ffffffff4d04ffff001d0104455468652054696d65732030332f4a616e2f32303039204368616e63656c6c6f72206f6e206272696e6b206f66207365636f6e64206261696c6f757420666f722062616e6b73ffffffff0100f2052a01000000434104678afdb0fe5548271967f1a67130b7105cd6a828e03909a67962e0ea1f61deb649f6bc3f4cef38c4f35504e51ec112de5c384df7ba0b8d578a4c702b6bf11d5fac00000000").unwrap();
    let tx = Transaction::from_bytes(&txb).unwrap();
    let txin0 = tx.get_input(0).unwrap();
    let txout0 = tx.get_output(0).unwrap();
    let script = sample_tx().inputs[0].script.clone();
    let cond_script = vec![0x51, 0x63, 0x02, 0xaa, 0xbb, 0x67, 0x4d, 0x02, 0x00, 0x01, 0x02, 0x68, 0xac];
    // a data-carrier script: the parser is lenient about what follows an OP_RETURN, so length fields behind one are a separate path
    let opret_script = vec![0x00, 0x6a, 0x04, 0x01, 0x02, 0x03, 0x04, 0x4c, 0x02, 0xaa, 0xbb, 0x4d, 0x01, 0x00, 0xcc];
    let k = key1();
    let pk = k.to_public_key().unwrap();
    let pk_unc = pk.to_decompressed().unwrap();
    let sig = k.sign_message(b"hello").unwrap();
    let xprv = ExtendedPrivateKey::from_seed(&[7u8; 32]).unwrap();
    let xpub = ExtendedPublicKey::from_xpriv(&xprv);
    let addr = P2PKHAddress::from_pubkey(&pk).unwrap();
    let ecies = ECIES::encrypt(b"attack at dawn", &k, &pk, false).unwrap().to_bytes();
    let ecies_nopk = ECIES::encrypt(b"attack at dawn", &k, &pk, true).unwrap().to_bytes();
    // hand-built BIE1 buffers whose embedded key is in uncompressed form (a decoder might accept both forms)
    let ecies_unc = {
        let mut b = b"BIE1".to_vec();
        b.extend_from_slice(&pk_unc.to_bytes().unwrap());
        b.extend_from_slice(&ecies[37..]);
        b
    };
    let ecies_long = ECIES::encrypt(&[0x5au8; 100], &k, &pk, false).unwrap().to_bytes();
    let mut der_flag = sig.to_der_bytes();
    der_flag.push(0x41);

    macro_rules! bytes_entry {
        ($name:expr, $seeds:expr, $f:expr) => {
            v.push(Entry { name: $name, text: false, seeds: $seeds, call: Box::new($f) })
        };
    }
    macro_rules! text_entry {
        ($name:expr, $seeds:expr, $f:expr) => {
            v.push(Entry { name: $name, text: true, seeds: $seeds.into_iter().map(|x: String| x.into_bytes()).collect(), call: Box::new($f) })
        };
    }

    bytes_entry!("Transaction::from_bytes", vec![txb.clone(), genesis.clone()], |b: &[u8]| {
        if let Ok(t) = mark(Transaction::from_bytes(b)) {
            let _ = t.to_bytes();
            let _ = t.get_id_hex();
            let _ = t.to_json_string();
            let _ = t.get_size();
        }
    });
    bytes_entry!("Transaction::from_compact_bytes", vec![tx.to_compact_bytes().unwrap()], |b: &[u8]| {
        if let Ok(t) = mark(Transaction::from_compact_bytes(b)) {
            let _ = t.to_bytes();
        }
    });
    bytes_entry!("TxIn::from_compact_bytes", vec![txin0.to_compact_bytes().unwrap()], |b: &[u8]| {
        if let Ok(t) = mark(TxIn::from_compact_bytes(b)) {
            let _ = t.to_bytes();
        }
    });
    bytes_entry!("TxIn::from_outpoint_bytes", vec![txin0.get_outpoint_bytes(Some(true))], |b: &[u8]| {
        let _ = mark(TxIn::from_outpoint_bytes(b));
    });
    bytes_entry!("Script::from_bytes", vec![script.clone(), cond_script.clone(), opret_script.clone()], |b: &[u8]| {
        if let Ok(sc) = mark(Script::from_bytes(b)) {
            let _ = sc.to_asm_string();
            let _ = sc.to_extended_asm_string();
            let _ = sc.to_bytes();
            let _ = ScriptTemplate::from_script(&sc);
        }
    });
    bytes_entry!("Script::from_coinbase_bytes", vec![script.clone()], |b: &[u8]| {
        if let Ok(sc) = mark(Script::from_coinbase_bytes(b)) {
            let _ = sc.to_asm_string();
            let _ = sc.to_bytes();
        }
    });
    bytes_entry!("Script::from_chunks", vec![cond_script.clone()], |b: &[u8]| {
        let mid = b.len() / 2;
        let _ = Script::from_chunks(vec![b[..mid].to_vec(), b[mid..].to_vec()]);
    });
    bytes_entry!("PrivateKey::from_bytes", vec![k.to_bytes()], |b: &[u8]| {
        if let Ok(p) = mark(PrivateKey::from_bytes(b)) {
            let _ = p.to_wif();
            let _ = p.to_public_key();
        }
    });
    {
        // library objects are rebuilt inside the entry (never shared between worker threads)
        let (k2, sigc) = (k.clone(), sig.to_compact_bytes(None));
        bytes_entry!("PublicKey::from_bytes", vec![pk.to_bytes().unwrap(), pk_unc.to_bytes().unwrap()], move |b: &[u8]| {
            let Ok(sig2) = Signature::from_compact_bytes(&sigc) else { return };
            if let Ok(p) = mark(PublicKey::from_bytes(b)) {
                let _ = p.to_compressed();
                let _ = p.to_decompressed();
                let _ = p.to_p2pkh_address();
                let _ = p.to_hex();
                // a decoded key is handed on to every consumer of public keys
                let _ = ECDSA::verify_hashbuf(&[0x11; 32], &p, &sig2);
                let _ = ECDSA::verify_digest(b"hello", &p, &sig2, bsv::SigningHash::Sha256);
                let _ = bsv::ECDH::derive_shared_key(&k2, &p);
                let _ = ECIES::encrypt(b"m", &k2, &p, false);
                let _ = p.verify_message(b"hello", &sig2);
            }
        });
    }
    bytes_entry!("P2PKHAddress::from_pubkey_hash", vec![addr.to_pubkey_hash()], |b: &[u8]| {
        if let Ok(a) = mark(P2PKHAddress::from_pubkey_hash(b)) {
            let _ = a.to_string();
            let _ = a.get_locking_script();
        }
    });
    bytes_entry!("Signature::from_der", vec![sig.to_der_bytes(), der_flag.clone()], |b: &[u8]| {
        if let Ok(sg) = mark(Signature::from_der(b)) {
            let _ = sg.to_der_bytes();
            let _ = sg.to_compact_bytes(None);
        }
    });
    bytes_entry!("Signature::from_compact_bytes", vec![sig.to_compact_bytes(None)], |b: &[u8]| {
        if let Ok(sg) = mark(Signature::from_compact_bytes(b)) {
            let _ = sg.to_compact_bytes(None);
            let _ = sg.recover_public_key(b"hello", bsv::SigningHash::Sha256);
            let _ = sg.recover_public_key_from_digest(&[1u8; 32]);
        }
    });
    bytes_entry!("SighashSignature::from_bytes", vec![der_flag.clone()], |b: &[u8]| {
        if let Ok(sg) = mark(SighashSignature::from_bytes(b, &[])) {
            let _ = sg.to_bytes();
        }
    });
    {
        let (k2, pk2) = (k.clone(), pk.clone());
        bytes_entry!("ECIESCiphertext::from_bytes(has_pub_key)", vec![ecies.clone(), ecies_unc.clone(), ecies_long.clone()], move |b: &[u8]| {
            if let Ok(c) = mark(ECIESCiphertext::from_bytes(b, true)) {
                let _ = c.extract_public_key();
                let _ = ECIES::decrypt(&c, &k2, &pk2);
                let _ = c.to_bytes();
            }
        });
    }
    {
        let (k2, pk2) = (k.clone(), pk.clone());
        bytes_entry!("ECIESCiphertext::from_bytes(no_pub_key)", vec![ecies_nopk.clone()], move |b: &[u8]| {
            if let Ok(c) = mark(ECIESCiphertext::from_bytes(b, false)) {
                let _ = c.extract_public_key();
                let _ = ECIES::decrypt(&c, &k2, &pk2);
            }
        });
    }
    // digests / outpoints / key material of arbitrary length. A digest is an arbitrary 32-byte string: the seeds include
    // the values around the group order n and the field prime p, where a scalar conversion may reject instead of reduce
    let digest_seeds = || -> Vec<Vec<u8>> {
        let n = hex::decode("fffffffffffffffffffffffffffffffebaaedce6af48a03bbfd25e8cd0364141").unwrap();
        let pf = hex::decode("fffffffffffffffffffffffffffffffffffffffffffffffffffffffefffffc2f").unwrap();
        let mut nm1 = n.clone();
        nm1[31] -= 1;
        let mut np1 = n.clone();
        np1[31] += 1;
        let mut half = vec![0u8; 32];
        half[0] = 0x80;
        vec![vec![0x11; 32], vec![0u8; 32], nm1, n, np1, pf, vec![0xff; 32], half]
    };
    {
        let (pk2, sigc) = (pk.clone(), sig.to_compact_bytes(None));
        bytes_entry!("ECDSA::verify_hashbuf(digest)", digest_seeds(), move |b: &[u8]| {
            let Ok(sig2) = Signature::from_compact_bytes(&sigc) else { return };
            let _ = mark(ECDSA::verify_hashbuf(b, &pk2, &sig2));
        });
    }
    {
        let k2 = k.clone();
        bytes_entry!("ECDSA::sign_digest_with_deterministic_k(digest)", digest_seeds(), move |b: &[u8]| {
            let _ = mark(ECDSA::sign_digest_with_deterministic_k(&k2, b));
        });
    }
    {
        let sigc = sig.to_compact_bytes(None);
        bytes_entry!("Signature::recover_public_key_from_digest(digest)", digest_seeds(), move |b: &[u8]| {
            let Ok(sig2) = Signature::from_compact_bytes(&sigc) else { return };
            let _ = mark(sig2.recover_public_key_from_digest(b));
        });
    }
    bytes_entry!("ExtendedPrivateKey::from_seed", vec![vec![7u8; 32]], |b: &[u8]| {
        let _ = mark(ExtendedPrivateKey::from_seed(b));
    });
    bytes_entry!("ExtendedPrivateKey::from_mnemonic", vec![b"legal winner thank year wave sausage worth useful legal winner thank yellow".to_vec()], |b: &[u8]| {
        if b.len() <= 8 {
            // PBKDF2 with 2048 rounds is slow: only short inputs from the exhaustive part, seeds via d1
            let _ = ExtendedPrivateKey::from_mnemonic(b, None);
        }
    });

    // ---- text decoders
    text_entry!("Transaction::from_hex", vec![hex::encode(&txb)], |b: &[u8]| {
        let _ = mark(Transaction::from_hex(&s(b)));
    });
    text_entry!("Transaction::from_json_string", vec![tx.to_json_string().unwrap()], |b: &[u8]| {
        if let Ok(t) = mark(Transaction::from_json_string(&s(b))) {
            let _ = t.to_bytes();
        }
    });
    text_entry!("Transaction::from_compact_hex", vec![tx.to_compact_hex().unwrap()], |b: &[u8]| {
        let _ = mark(Transaction::from_compact_hex(&s(b)));
    });
    text_entry!("TxIn::from_hex", vec![txin0.to_hex().unwrap()], |b: &[u8]| {
        let _ = mark(TxIn::from_hex(&s(b)));
    });
    text_entry!("TxIn::from_compact_hex", vec![txin0.to_compact_hex().unwrap()], |b: &[u8]| {
        let _ = mark(TxIn::from_compact_hex(&s(b)));
    });
    text_entry!("serde_json::<TxIn>", vec![txin0.to_json_string().unwrap()], |b: &[u8]| {
        if let Ok(t) = mark(serde_json::from_str::<TxIn>(&s(b))) {
            let _ = t.to_bytes();
        }
    });
    text_entry!("TxOut::from_hex", vec![txout0.to_hex().unwrap(), tx.get_output(1).unwrap().to_hex().unwrap()], |b: &[u8]| {
        let _ = mark(TxOut::from_hex(&s(b)));
    });
    text_entry!("serde_json::<TxOut>", vec![txout0.to_json_string().unwrap()], |b: &[u8]| {
        if let Ok(t) = mark(serde_json::from_str::<TxOut>(&s(b))) {
            let _ = t.to_bytes();
        }
    });
    text_entry!("Script::from_hex", vec![hex::encode(&cond_script), hex::encode(&opret_script)], |b: &[u8]| {
        let _ = mark(Script::from_hex(&s(b)));
    });
    text_entry!("Script::from_asm_string", vec![Script::from_bytes(&cond_script).unwrap().to_asm_string(), "OP_DUP OP_HASH160 0102030405060708090a0b0c0d0e0f1011121314 OP_EQUALVERIFY OP_CHECKSIG".to_string()], |b: &[u8]| {
        if let Ok(sc) = mark(Script::from_asm_string(&s(b))) {
            let _ = sc.to_bytes();
        }
    });
    text_entry!("ScriptTemplate::from_asm_string", vec!["OP_DUP OP_HASH160 OP_PUBKEYHASH OP_EQUALVERIFY OP_CHECKSIG OP_DATA>=20 OP_DATA=3 OP_SIG OP_PUBKEY".to_string()], |b: &[u8]| {
        if let Ok(t) = mark(ScriptTemplate::from_asm_string(&s(b))) {
            let sc = Script::from_bytes(&[0x76, 0xa9, 0x14, 1, 2, 3, 4, 5, 6, 7, 8, 9, 10, 11, 12, 13, 14, 15, 16, 17, 18, 19, 20, 0x88, 0xac]).unwrap();
            let _ = sc.matches(&t);
        }
    });
    text_entry!("PrivateKey::from_hex", vec![k.to_hex()], |b: &[u8]| {
        let _ = mark(PrivateKey::from_hex(&s(b)));
    });
    text_entry!("PrivateKey::from_wif", vec![k.to_wif().unwrap(), k.compress_public_key(false).to_wif().unwrap()], |b: &[u8]| {
        if let Ok(p) = mark(PrivateKey::from_wif(&s(b))) {
            let _ = p.to_public_key();
        }
    });
    text_entry!("PublicKey::from_hex", vec![pk.to_hex().unwrap(), pk_unc.to_hex().unwrap()], |b: &[u8]| {
        if let Ok(p) = mark(PublicKey::from_hex(&s(b))) {
            let _ = p.to_decompressed();
            let _ = p.to_compressed();
        }
    });
    text_entry!("ExtendedPrivateKey::from_string", vec![xprv.to_string().unwrap()], |b: &[u8]| {
        if let Ok(x) = mark(ExtendedPrivateKey::from_string(&s(b))) {
            let _ = x.derive(1);
            let _ = x.to_string();
        }
    });
    text_entry!("ExtendedPublicKey::from_string", vec![xpub.to_string().unwrap()], |b: &[u8]| {
        if let Ok(x) = mark(ExtendedPublicKey::from_string(&s(b))) {
            let _ = x.derive(1);
            let _ = x.to_string();
        }
    });
    {
        let x = ExtendedPrivateKey::from_seed(&[7u8; 32]).unwrap();
        text_entry!("ExtendedPrivateKey::derive_from_path", vec!["m/0'/1/2h/2147483647/4294967295".to_string(), "m/44'/0'/0'/0/0".to_string()], move |b: &[u8]| {
            let _ = mark(x.derive_from_path(&s(b)));
        });
    }
    {
        let x = ExtendedPublicKey::from_xpriv(&ExtendedPrivateKey::from_seed(&[7u8; 32]).unwrap());
        text_entry!("ExtendedPublicKey::derive_from_path", vec!["m/0/1/2/2147483647".to_string()], move |b: &[u8]| {
            let _ = mark(x.derive_from_path(&s(b)));
        });
    }
    text_entry!("P2PKHAddress::from_string", vec![addr.to_string().unwrap(), b58::address_encode(0, &[0u8; 20])], |b: &[u8]| {
        if let Ok(a) = mark(P2PKHAddress::from_string(&s(b))) {
            let _ = a.to_string();
        }
    });
    text_entry!("Signature::from_hex_der", vec![sig.to_der_hex()], |b: &[u8]| {
        let _ = mark(Signature::from_hex_der(&s(b)));
    });
    text_entry!("serde_json::<Hash>", vec![serde_json::to_string(&Hash::sha_256(b"x")).unwrap()], |b: &[u8]| {
        let _ = mark(serde_json::from_str::<Hash>(&s(b)));
    });
    text_entry!("serde_json::<KDF>", vec![serde_json::to_string(&KDF::pbkdf2(b"pw", Some(b"salt".to_vec()), bsv::PBKDF2Hashes::SHA256, 1, 32)).unwrap()], |b: &[u8]| {
        let _ = mark(serde_json::from_str::<KDF>(&s(b)));
    });
    text_entry!("serde_json::<PublicKey>", vec![serde_json::to_string(&pk).unwrap()], |b: &[u8]| {
        let _ = mark(serde_json::from_str::<PublicKey>(&s(b)));
    });
    text_entry!("serde_json::<P2PKHAddress>", vec![serde_json::to_string(&addr).unwrap()], |b: &[u8]| {
        let _ = mark(serde_json::from_str::<P2PKHAddress>(&s(b)));
    });
    let _ = secp::n();
    let _ = rw::cs_encode(1);
    v
}

fn run_call(acc: &mut Acc, case: &Case, entry_name: &str, call: &Call, what: &str, input: &[u8]) {
    acc.evaluations += 1;
    acc.transitions += 1;
    acc.traces += 1;
    acc.nontrivial_case(input);
    DECODED.with(|d| d.set(false));
    crate::iso::arm(budget(input.len()));
    let r = guard(|| call(input));
    let peak = crate::iso::disarm();
    {
        let e = acc.info.entry("max_peak_heap_bytes_observed".into()).or_insert(0);
        *e = (*e).max(peak);
    }
    match r {
        Ok(()) => {
            if DECODED.with(|d| d.get()) {
                acc.outcome(b"returned-ok");
                acc.bump("inputs_decoded_ok", 1);
            } else {
                acc.outcome(b"returned-err");
            }
        }
        Err(p) => {
            acc.outcome(b"panic");
            let inp = json!({"entry": entry_name, "case": what, "input_hex": hx(input), "input_text": String::from_utf8_lossy(&input[..input.len().min(120)])});
            acc.violate(format!("C09/entry={}/kind=panic@{}", entry_name, panic_site(&p)), case.idx, case.json(inp), p);
        }
    }
}

// ---------------------------------------------------------------- structure-aware deviations of JSON / CBOR documents

#[derive(Clone, Debug)]
enum Seg {
    Key(String),
    Idx(usize),
}

fn node_paths(v: &Value, cur: &mut Vec<Seg>, out: &mut Vec<Vec<Seg>>) {
    out.push(cur.clone());
    match v {
        Value::Array(a) => {
            for (i, x) in a.iter().enumerate() {
                cur.push(Seg::Idx(i));
                node_paths(x, cur, out);
                cur.pop();
            }
        }
        Value::Object(o) => {
            for (k, x) in o.iter() {
                cur.push(Seg::Key(k.clone()));
                node_paths(x, cur, out);
                cur.pop();
            }
        }
        _ => {}
    }
}

fn node_mut<'a>(v: &'a mut Value, path: &[Seg]) -> Option<&'a mut Value> {
    let mut cur = v;
    for s in path {
        cur = match s {
            Seg::Key(k) => cur.get_mut(k.as_str())?,
            Seg::Idx(i) => cur.get_mut(*i)?,
        };
    }
    Some(cur)
}

fn replacements() -> Vec<Value> {
    vec![
        json!([]),
        json!([""]),
        json!(""),
        json!("00"),
        json!("0"),
        json!("zz"),
        json!(0),
        json!(1),
        json!(-1),
        json!(255),
        json!(256),
        json!(4294967295u64),
        json!(4294967296u64),
        json!(18446744073709551615u64),
        json!(1.5),
        Value::Null,
        json!(true),
        json!({}),
        json!("0000000000000000000000000000000000000000000000000000000000000000"),
        json!("OP_IF"),
        json!({"OpCode": "OP_ELSE"}),
        json!({"Push": ""}),
        json!({"If": {"code": "OP_IF", "pass": [], "fail": null}}),
    ]
}

/// deviation k of the document: k < R: node replaced by replacement k; R: node deleted from its parent; R+1: node duplicated
/// (array element) / re-inserted under another key (object member)
fn tree_deviation(doc: &Value, path: &[Seg], k: usize) -> Option<Value> {
    let reps = replacements();
    let mut d = doc.clone();
    if k < reps.len() {
        *node_mut(&mut d, path)? = reps[k].clone();
        return Some(d);
    }
    let (last, parent_path) = path.split_last()?;
    let parent = node_mut(&mut d, parent_path)?;
    match (parent, last, k - reps.len()) {
        (Value::Array(a), Seg::Idx(i), 0) => {
            a.remove(*i);
        }
        (Value::Array(a), Seg::Idx(i), _) => {
            let x = a[*i].clone();
            a.insert(*i, x);
        }
        (Value::Object(o), Seg::Key(key), 0) => {
            o.remove(key.as_str());
        }
        (Value::Object(o), Seg::Key(key), _) => {
            let x = o.get(key.as_str())?.clone();
            o.insert(format!("{}_", key), x);
        }
        _ => return None,
    }
    Some(d)
}

fn tree_docs() -> Vec<(&'static str, Value)> {
    let genesis = hex::decode("01000000010000000000000000000000000000000000000000000000000000000000000000ffffffff4d04ffff001d0104455468652054696d65732030332f4a616e2f32303039204368616e63656c6c6f72206f6e206272696e6b206f66207365636f6e64206261696c6f757420666f722062616e6b73ffffffff0100f2052a01000000434104678afdb0fe5548271967f1a67130b7105cd6a828e03909a67962e0ea1f61deb649f6bc3f4cef38c4f35504e51ec112de5c384df7ba0b8d578a4c702b6bf11d5fac00000000").unwrap();
    let mut ext = Transaction::from_bytes(&sample_tx().encode()).unwrap();
    let mut i0 = ext.get_input(0).unwrap();
    i0.set_satoshis(1234);
    i0.set_locking_script(&Script::from_bytes(&[0x76, 0xa9, 0x01, 0x07, 0x88, 0xac]).unwrap());
    ext.set_input(0, &i0);
    let parse = |t: &Transaction| serde_json::from_str::<Value>(&t.to_json_string().unwrap()).unwrap();
    vec![("sample-2in-2out", parse(&Transaction::from_bytes(&sample_tx().encode()).unwrap())), ("genesis-coinbase", parse(&Transaction::from_bytes(&genesis).unwrap())), ("extended-fields", parse(&ext))]
}

const AES_KEY_LENS: [usize; 8] = [0, 1, 15, 16, 17, 31, 32, 33];
const AES_IV_LENS: [usize; 6] = [0, 1, 15, 16, 17, 32];
const AES_MSG_LENS: [usize; 6] = [0, 1, 15, 16, 17, 48];

pub fn spaces(tier: Tier) -> Vec<Space> {
    let mut v = vec![];
    for e in entries() {
        let plan = Arc::new(Plan::new(e));
        let name = format!("e/{}", plan.entry.name);
        let p2 = plan.clone();
        v.push(Space::isolated(&name, plan.total, move |case, acc| {
            let (what, input) = p2.nth(case.idx);
            if case.idx == p2.n_short + 3 {
                acc.sample(case.idx, || json!({"entry": p2.entry.name, "case": what, "input_hex": hx(&input)}));
            }
            run_call(acc, case, p2.entry.name, &p2.entry.call, &what, &input);
        }));
    }
    // deviation 2 (thorough tier): every pair of positions of every seed of at most 96 bytes x a 5 x 5 substitution alphabet,
    // and a prefix cut combined with one substitution in the kept part, for every entry point
    if tier.is_thorough() {
        const D2_BYTES: [u8; 5] = [0x00, 0xff, 0x80, 0xfd, 0x4c];
        const D2_TEXT: [&str; 5] = ["0", "z", " ", "'", "é"];
        for e in entries() {
            let e = Arc::new(e);
            let mut table: Vec<(usize, u64, u64)> = vec![]; // (seed, number of pair cases, number of cut+subst cases)
            let mut total = 0u64;
            for (si, sd) in e.seeds.iter().enumerate() {
                let l = sd.len() as u64;
                if l < 2 || l > 96 || (e.text && !sd.is_ascii()) {
                    continue;
                }
                let pairs = l * (l - 1) / 2 * 25;
                let cuts = l * (l - 1) / 2 * 5;
                table.push((si, pairs, cuts));
                total += pairs + cuts;
            }
            if total == 0 {
                continue;
            }
            let name = format!("d2/{}", e.name);
            let e2 = e.clone();
            v.push(Space::isolated(&name, total, move |case, acc| {
                let mut idx = case.idx;
                for (si, pairs, cuts) in &table {
                    let seed = &e2.seeds[*si];
                    let l = seed.len() as u64;
                    let subst = |buf: &mut Vec<u8>, pos: usize, k: usize, text: bool| {
                        if text {
                            let mut out = buf[..pos].to_vec();
                            out.extend_from_slice(D2_TEXT[k].as_bytes());
                            out.extend_from_slice(&buf[pos + 1..]);
                            *buf = out;
                        } else {
                            buf[pos] = D2_BYTES[k];
                        }
                    };
                    // pair index -> (i, j) with i < j
                    let unrank = |mut r: u64| -> (usize, usize) {
                        let mut i = 0u64;
                        loop {
                            let row = l - 1 - i;
                            if r < row {
                                return (i as usize, (i + 1 + r) as usize);
                            }
                            r -= row;
                            i += 1;
                        }
                    };
                    if idx < *pairs {
                        let (pr, kk) = (idx / 25, (idx % 25) as usize);
                        let (i, j) = unrank(pr);
                        let mut b = seed.clone();
                        // substitute the later position first so that a multi-byte text replacement does not shift it
                        subst(&mut b, j, kk / 5, e2.text);
                        subst(&mut b, i, kk % 5, e2.text);
                        run_call(acc, case, e2.name, &e2.call, &format!("seed{}:d2:byte{}&byte{}:={}", si, i, j, kk), &b);
                        return;
                    }
                    idx -= pairs;
                    if idx < *cuts {
                        let (pr, k) = (idx / 5, (idx % 5) as usize);
                        let (i, j) = unrank(pr);
                        // keep the first j bytes, substitute position i < j
                        let mut b = seed[..j].to_vec();
                        subst(&mut b, i, k, e2.text);
                        run_call(acc, case, e2.name, &e2.call, &format!("seed{}:d2:cut{}+byte{}:={}", si, j, i, k), &b);
                        return;
                    }
                    idx -= cuts;
                }
            }));
        }
    }
    // Base58Check text decoders fed payloads of EVERY length 0..=90 under a valid checksum (a length the slicing code did not
    // expect is only reachable when the checksum is right): first byte 00 / 80 / 04, zero or counter filling
    {
        let names = ["PrivateKey::from_wif", "P2PKHAddress::from_string", "ExtendedPrivateKey::from_string", "ExtendedPublicKey::from_string"];
        let es: Vec<Arc<Entry>> = entries().into_iter().filter(|e| names.contains(&e.name)).map(Arc::new).collect();
        let ne = es.len() as u64;
        v.push(Space::isolated("base58check-payload-lengths", ne * 91 * 3 * 2, move |case, acc| {
            let c = crate::engine::coords(case.idx, &[ne, 91, 3, 2]);
            let e = &es[c[0] as usize];
            let len = c[1] as usize;
            let mut payload: Vec<u8> = (0..len).map(|i| if c[3] == 0 { 0u8 } else { (i as u8).wrapping_mul(7).wrapping_add(1) }).collect();
            if len > 0 {
                payload[0] = [0x00u8, 0x80, 0x04][c[2] as usize];
            }
            let text = b58::check_encode(&payload);
            run_call(acc, case, e.name, &e.call, &format!("valid-checksum payload of {} bytes, first byte {:02x}", len, payload.first().copied().unwrap_or(0)), text.as_bytes());
        }));
    }
    // structure-aware deviation 1 on JSON documents and on their CBOR twins: every node of the document tree x
    // (23 replacement values, delete, duplicate), through the JSON and the compact decoders of Transaction and TxIn
    {
        let docs = tree_docs();
        let nrep = replacements().len() + 2;
        let mut table: Vec<(usize, Vec<Seg>)> = vec![];
        for (di, (_, doc)) in docs.iter().enumerate() {
            let mut ps = vec![];
            node_paths(doc, &mut vec![], &mut ps);
            for p in ps {
                table.push((di, p));
            }
        }
        let n = table.len() as u64;
        v.push(Space::isolated("json-cbor-tree-deviations", n * nrep as u64 * 3, move |case, acc| {
            let c = crate::engine::coords(case.idx, &[n, nrep as u64, 3]);
            let (di, path) = &table[c[0] as usize];
            let Some(dev) = tree_deviation(&docs[*di].1, path, c[1] as usize) else { return };
            let what = format!("{}:{:?}:dev{}", docs[*di].0, path, c[1]);
            match c[2] {
                0 => {
                    let text = dev.to_string();
                    let call: Call = Box::new(|b: &[u8]| {
                        if let Ok(t) = mark(Transaction::from_json_string(&s(b))) {
                            let _ = t.to_bytes();
                            let _ = t.get_id_hex();
                            let _ = t.to_json_string();
                            let _ = t.to_compact_bytes();
                        }
                    });
                    run_call(acc, case, "Transaction::from_json_string", &call, &what, text.as_bytes());
                }
                1 => {
                    let mut buf = vec![];
                    if ciborium::ser::into_writer(&dev, &mut buf).is_err() {
                        return;
                    }
                    let call: Call = Box::new(|b: &[u8]| {
                        if let Ok(t) = mark(Transaction::from_compact_bytes(b)) {
                            let _ = t.to_bytes();
                            let _ = t.get_id_hex();
                            let _ = t.to_json_string();
                        }
                    });
                    run_call(acc, case, "Transaction::from_compact_bytes", &call, &what, &buf);
                }
                _ => {
                    // the first input of the deviated document on its own
                    let Some(inp) = dev.get("inputs").and_then(|i| i.get(0)) else { return };
                    let mut buf = vec![];
                    if ciborium::ser::into_writer(inp, &mut buf).is_err() {
                        return;
                    }
                    let call: Call = Box::new(|b: &[u8]| {
                        if let Ok(t) = mark(TxIn::from_compact_bytes(b)) {
                            let _ = t.to_bytes();
                            let _ = t.to_compact_bytes();
                        }
                    });
                    run_call(acc, case, "TxIn::from_compact_bytes", &call, &what, &buf);
                }
            }
        }));
    }
    // large transactions whose count fields overstate what is present: n real inputs / outputs for n around 1024 (and more),
    // the count replaced by larger values up to 2^64-1 - memory must stay bounded by the input, not by the declared count
    {
        let ns: Vec<usize> = vec![1023, 1024, 1025, 1100, 3000];
        let claims: Vec<u64> = vec![1, 2, 65535, 65536, 3_000_000, 0xffff_ffff, 0x1_0000_0000, 1 << 60, u64::MAX];
        let (nn, ncl) = (ns.len() as u64, claims.len() as u64);
        v.push(Space::isolated("large-tx-overstated-counts", nn * ncl * 2, move |case, acc| {
            let c = crate::engine::coords(case.idx, &[nn, ncl, 2]);
            let n = ns[c[0] as usize];
            let side_inputs = c[2] == 0;
            // claims 0 and 1 are relative: n+1 and 2n
            let claim = match c[1] {
                0 => n as u64 + 1,
                1 => 2 * n as u64,
                k => claims[k as usize],
            };
            let mut b = vec![1u8, 0, 0, 0];
            let one_in: Vec<u8> = [&[0x11u8; 32][..], &[0, 0, 0, 0], &[0x00], &[0xff, 0xff, 0xff, 0xff]].concat();
            let one_out: Vec<u8> = [&[0x10u8, 0x27, 0, 0, 0, 0, 0, 0][..], &[0x01, 0x51]].concat();
            let (n_in, n_out) = if side_inputs { (n, 1) } else { (1, n) };
            b.extend_from_slice(&crate::refs::wire::cs_encode(if side_inputs { claim } else { n_in as u64 }));
            for _ in 0..n_in {
                b.extend_from_slice(&one_in);
            }
            b.extend_from_slice(&crate::refs::wire::cs_encode(if side_inputs { n_out as u64 } else { claim }));
            for _ in 0..n_out {
                b.extend_from_slice(&one_out);
            }
            b.extend_from_slice(&[0, 0, 0, 0]);
            let what = format!("{} real {}, count field says {}", n, if side_inputs { "inputs" } else { "outputs" }, claim);
            let call: Call = Box::new(|x: &[u8]| {
                if let Ok(t) = mark(Transaction::from_bytes(x)) {
                    let _ = t.to_bytes();
                }
            });
            run_call(acc, case, "Transaction::from_bytes", &call, &what, &b);
        }));
    }
    // AES: key / IV / message material of every length class, all four modes, both directions
    v.push(Space::isolated("aes-material-sizes", 4 * 2 * 8 * 6 * 6, |case, acc| {
        let c = crate::engine::coords(case.idx, &[4, 2, 8, 6, 6]);
        let algo = [AESAlgorithms::AES128_CBC, AESAlgorithms::AES256_CBC, AESAlgorithms::AES128_CTR, AESAlgorithms::AES256_CTR][c[0] as usize];
        let key = vec![0x11u8; AES_KEY_LENS[c[2] as usize]];
        let iv = vec![0x22u8; AES_IV_LENS[c[3] as usize]];
        let msg = vec![0x33u8; AES_MSG_LENS[c[4] as usize]];
        let enc = c[1] == 0;
        let what = format!("{:?} {} key={} iv={} msg={}", algo, if enc { "encrypt" } else { "decrypt" }, key.len(), iv.len(), msg.len());
        let call: Call = Box::new(move |m: &[u8]| {
            if enc {
                let _ = AES::encrypt(&key, &iv, m, algo);
            } else {
                let _ = AES::decrypt(&key, &iv, m, algo);
            }
        });
        let entry = format!("AES::{}({:?})", if enc { "encrypt" } else { "decrypt" }, algo);
        let entry_static: &'static str = Box::leak(entry.into_boxed_str());
        run_call(acc, case, entry_static, &call, &what, &msg);
    }));
    // nesting probes: conditional depth in scripts (inside a transaction too), JSON and CBOR array depth
    v.push(Space::isolated("nesting", 4 * 3, |case, acc| {
        let c = crate::engine::coords(case.idx, &[4, 3]);
        let depth = [10usize, 1000, 100_000][c[1] as usize];
        let (entry, input): (&'static str, Vec<u8>) = match c[0] {
            0 => {
                let mut b = vec![0x63u8; depth];
                b.extend(vec![0x68u8; depth]);
                ("Script::from_bytes(nested OP_IF)", b)
            }
            1 => {
                let mut sc = vec![0x63u8; depth];
                sc.extend(vec![0x68u8; depth]);
                let tx = RTx { version: 1, inputs: vec![], outputs: vec![ROut { value: 1, script: sc }], locktime: 0 };
                ("Transaction::from_bytes(nested OP_IF)", tx.encode())
            }
            2 => ("Transaction::from_json_string(nested arrays)", "[".repeat(depth).into_bytes()),
            _ => ("Transaction::from_compact_bytes(nested arrays)", vec![0x81u8; depth]),
        };
        let call: Call = match c[0] {
            0 => Box::new(|b: &[u8]| {
                if let Ok(s) = mark(Script::from_bytes(b)) {
                    let _ = s.to_bytes();
                }
            }),
            1 => Box::new(|b: &[u8]| {
                if let Ok(t) = mark(Transaction::from_bytes(b)) {
                    let _ = t.to_bytes();
                }
            }),
            2 => Box::new(|b: &[u8]| {
                let _ = mark(Transaction::from_json_string(&s(b)));
            }),
            _ => Box::new(|b: &[u8]| {
                let _ = mark(Transaction::from_compact_bytes(b));
            }),
        };
        run_call(acc, case, entry, &call, &format!("depth {}", depth), &input);
    }));
    v
}

fn run(ctx: &Ctx) -> Report {
    let mut r = Report::new(
        "table of public decoding entry points (bytes and text); per entry point: every byte string of length <= 2 (text decoders: every string of <= 3 symbols over a 24-symbol alphabet), and deviation 1 on valid seed encodings: every prefix, every position x 24-value byte (character) alphabet, every position x 16 multi-byte length/count 'bombs' (CBOR heads, compact sizes, PUSHDATA4, DER long form with values up to 2^64-1; long nesting/digit/hex runs for text); AES with key/IV/message of every length class x 4 modes x both directions; conditional / JSON / CBOR nesting depth 10, 1000, 100000. Every case runs in a child process under a counting allocator with budget 4 MiB + 2048 x len(input). Non-trivial = distinct input handed to the decoder (hashed).",
    );
    let names: Vec<String> = entries().iter().map(|e| e.name.to_string()).collect();
    r.bounds = json!({"entry_points": names, "byte_alphabet": BYTE_ALPHA.iter().map(|b| format!("{:02x}", b)).collect::<Vec<_>>(), "text_alphabet": TEXT_ALPHA, "deviation_bound": 1, "budget": "4 MiB + 2048 * input length", "nesting_depths": [10, 1000, 100000]});
    r.assumptions.push("results are not compared with a model here (only totality); ExtendedPrivateKey::from_mnemonic is driven only with inputs of <= 8 bytes (2048 PBKDF2 rounds per call)".into());
    run_spaces_for("C09", ctx, &mut r, spaces(ctx.tier));
    r
}

fn replay(case: &Value) -> Vec<(String, String)> {
    replay_spaces_for("C09", spaces, case)
}
