//! C01 — transaction wire format: parse and serialise are exact inverses,
//! accessors agree with an independent decoder, construction API serialises
//! to the same bytes, other accepted strings normalise to a fixed point.
use super::c02;
use super::{hx, replay_spaces_for, run_spaces_for, Case, Prop, Space};
use crate::engine::{coords, guard, panic_site, Acc, Ctx, Report, Tier};
use crate::refs::script as rs;
use crate::refs::wire::{self as rw, RIn, ROut, RTx};
use bsv::{Script, Transaction, TxIn, TxOut, VarInt, VarIntWriter};
use serde_json::{json, Value};
use std::sync::Arc;

pub const PROP: Prop = Prop {
    run,
    replay,
    spaces: Some(spaces),
    level_note: "trusted base: refs::wire (encoder + strict/lenient decoder, checked on the genesis transaction), refs::script, refs::hashes; well-formedness of embedded scripts uses the opcode set learned from the implementation; big-endian *_as_bytes helpers are not covered (the statement does not fix their byte order)",
};

fn script_ok(b: &[u8], env: &c02::Env) -> bool {
    match rs::tokenize(b) {
        Ok(t) => {
            t.iter().all(|x| match x {
                rs::Tok::Op(o) => env.ops[*o as usize],
                _ => true,
            }) && rs::open_depth(&t, &env.openers_strict) == 0
        }
        Err(_) => false,
    }
}

fn wellformed(b: &[u8], env: &c02::Env) -> Option<RTx> {
    let tx = rw::decode_strict(b)?;
    for i in &tx.inputs {
        if !i.is_coinbase_outpoint() && !script_ok(&i.script, env) {
            return None;
        }
    }
    for o in &tx.outputs {
        if !script_ok(&o.script, env) {
            return None;
        }
    }
    Some(tx)
}

struct V<'a, 'b> {
    acc: &'a mut Acc,
    case: &'a Case<'b>,
    input: Value,
}

impl<'a, 'b> V<'a, 'b> {
    fn bad(&mut self, key: &str, detail: String) {
        self.acc.violate(format!("C01/{}", key), self.case.idx, self.case.json(self.input.clone()), detail);
    }
    fn eq<T: PartialEq + std::fmt::Debug>(&mut self, name: &str, got: T, want: T) {
        self.acc.transitions += 1;
        if got != want {
            let g = format!("{:?}", got);
            let w = format!("{:?}", want);
            self.bad(&format!("accessor={}/kind=wrong-value", name), format!("library={} reference={}", &g[..g.len().min(160)], &w[..w.len().min(160)]));
        }
    }
}

/// Compare every accessor of a parsed transaction with the reference fields.
fn check_accessors(v: &mut V, tx: &Transaction, r: &RTx, b: &[u8]) {
    v.eq("get_version", tx.get_version(), r.version);
    v.eq("get_ninputs", tx.get_ninputs(), r.inputs.len());
    v.eq("get_noutputs", tx.get_noutputs(), r.outputs.len());
    v.eq("get_n_locktime", tx.get_n_locktime(), r.locktime);
    v.eq("get_size", tx.get_size().ok(), Some(b.len()));
    v.eq("is_coinbase", tx.is_coinbase(), r.is_coinbase());
    v.eq("get_id_bytes", tx.get_id_bytes().ok(), Some(rw::txid_display(b)));
    v.eq("get_id_hex", tx.get_id_hex().ok(), Some(hex::encode(rw::txid_display(b))));
    for (k, ri) in r.inputs.iter().enumerate() {
        let Some(i) = tx.get_input(k) else {
            v.bad("accessor=get_input/kind=wrong-value", format!("input {} missing", k));
            return;
        };
        v.eq("get_prev_tx_id(None)", i.get_prev_tx_id(None), ri.txid_display());
        v.eq("get_prev_tx_id(Some(true))", i.get_prev_tx_id(Some(true)), ri.txid_wire.to_vec());
        v.eq("get_prev_tx_id_hex(None)", i.get_prev_tx_id_hex(None), hex::encode(ri.txid_display()));
        v.eq("get_vout", i.get_vout(), ri.vout);
        v.eq("get_sequence", i.get_sequence(), ri.sequence);
        v.eq("get_unlocking_script", i.get_unlocking_script().to_bytes(), ri.script.clone());
        v.eq("get_unlocking_script_hex", i.get_unlocking_script_hex(), hex::encode(&ri.script));
        v.eq("get_unlocking_script_size", i.get_unlocking_script_size(), ri.script.len() as u64);
        v.eq("get_outpoint_bytes(Some(true))", i.get_outpoint_bytes(Some(true)), ri.outpoint_wire());
        v.eq("get_outpoint_hex(Some(true))", i.get_outpoint_hex(Some(true)), hex::encode(ri.outpoint_wire()));
        // the constructor that takes the 36 outpoint bytes must rebuild the same outpoint
        v.eq("TxIn::from_outpoint_bytes", TxIn::from_outpoint_bytes(&ri.outpoint_wire()).ok().map(|x| (x.get_prev_tx_id(Some(true)), x.get_vout())), Some((ri.txid_wire.to_vec(), ri.vout)));
        v.eq("TxIn::is_coinbase", i.is_coinbase(), ri.is_coinbase_outpoint());
        v.eq("TxIn::to_bytes", i.to_bytes().ok(), Some(ri.encode()));
    }
    let mut tx2 = tx.clone();
    v.eq("get_outpoints", tx2.get_outpoints(), r.inputs.iter().map(|i| i.outpoint_wire()).collect::<Vec<_>>());
    let mut sum: Option<u64> = Some(0);
    for (k, ro) in r.outputs.iter().enumerate() {
        let Some(o) = tx.get_output(k) else {
            v.bad("accessor=get_output/kind=wrong-value", format!("output {} missing", k));
            return;
        };
        v.eq("TxOut::get_satoshis", o.get_satoshis(), ro.value);
        v.eq("get_script_pub_key", o.get_script_pub_key().to_bytes(), ro.script.clone());
        v.eq("get_script_pub_key_hex", o.get_script_pub_key_hex(), hex::encode(&ro.script));
        v.eq("get_script_pub_key_size", o.get_script_pub_key_size(), ro.script.len());
        v.eq("TxOut::to_bytes", o.to_bytes().ok(), Some(ro.encode()));
        sum = sum.and_then(|s| s.checked_add(ro.value));
    }
    if let Some(s) = sum {
        v.eq("satoshis_out", tx.satoshis_out(), s);
    }
}

/// Total of the spent values: known only from the annotations the construction API puts on inputs (the wire form has
/// none), and only when every input carries one. Not judged for a transaction without inputs.
fn check_satoshis_in(v: &mut V, tx: &Transaction, annotations: &[Option<u64>]) {
    if annotations.is_empty() {
        return;
    }
    let want = annotations.iter().try_fold(0u64, |a, x| x.and_then(|x| a.checked_add(x)));
    if annotations.iter().all(|x| x.is_some()) && want.is_none() {
        return; // sum does not fit u64
    }
    v.eq("satoshis_in", tx.satoshis_in(), want);
}

/// Build the same transaction through the construction API.
fn construct(r: &RTx, variant: u64) -> Result<Vec<u8>, String> {
    let mut tx = Transaction::new(r.version, r.locktime);
    let mk_in = |ri: &RIn| -> Result<TxIn, String> {
        let script = if ri.is_coinbase_outpoint() { Script::from_coinbase_bytes(&ri.script) } else { Script::from_bytes(&ri.script) }.map_err(|e| e.to_string())?;
        Ok(TxIn::new(&ri.txid_display(), ri.vout, &script, Some(ri.sequence)))
    };
    let mk_out = |ro: &ROut| -> Result<TxOut, String> { Ok(TxOut::new(ro.value, &Script::from_bytes(&ro.script).map_err(|e| e.to_string())?)) };
    match variant {
        0 => {
            for ri in &r.inputs {
                tx.add_input(&mk_in(ri)?);
            }
            for ro in &r.outputs {
                tx.add_output(&mk_out(ro)?);
            }
        }
        1 => {
            // reverse order with prepend
            for ri in r.inputs.iter().rev() {
                tx.prepend_input(&mk_in(ri)?);
            }
            for ro in r.outputs.iter().rev() {
                tx.prepend_output(&mk_out(ro)?);
            }
        }
        3 => {
            // inputs carrying the extended (non-wire) annotations must still serialise to the wire form
            for (k, ri) in r.inputs.iter().enumerate() {
                let mut i = mk_in(ri)?;
                i.set_satoshis(1000 + k as u64);
                i.set_locking_script(&Script::from_bytes(&[0x76, 0xa9, 0x01, k as u8, 0x88, 0xac]).map_err(|e| e.to_string())?);
                tx.add_input(&i);
            }
            for ro in &r.outputs {
                tx.add_output(&mk_out(ro)?);
            }
        }
        _ => {
            let ins: Result<Vec<TxIn>, String> = r.inputs.iter().map(mk_in).collect();
            let outs: Result<Vec<TxOut>, String> = r.outputs.iter().map(mk_out).collect();
            tx.add_inputs(ins?);
            tx.add_outputs(outs?);
        }
    }
    tx.to_bytes().map_err(|e| e.to_string())
}

#[derive(Clone, Copy, Debug, PartialEq)]
enum HOp {
    Add(usize),
    Prepend(usize),
    Insert(usize, usize),
    Set(usize, usize),
    AddMany(usize, usize),
    /// set_version(HIST_SCALARS[k]); for k = 1 the history continues on the object the setter returns
    Version(usize),
    /// set_nlocktime(HIST_SCALARS[k]); likewise
    Locktime(usize),
}

const HIST_SCALARS: [u32; 2] = [0x0a0b0c0d, 1];

#[derive(Clone)]
struct HModel {
    list: Vec<usize>,
    version: u32,
    locktime: u32,
}

const HIST_MAX_LEN: usize = 4;

/// Every construction call enabled on lists of length `len` (operands 0 and 1).
fn history_ops(len: usize) -> Vec<HOp> {
    let mut v = vec![];
    for k in 0..2 {
        if len < HIST_MAX_LEN {
            v.push(HOp::Add(k));
            v.push(HOp::Prepend(k));
            for i in 0..=len {
                v.push(HOp::Insert(i, k));
            }
        }
        for i in 0..len {
            v.push(HOp::Set(i, k));
        }
    }
    if len + 2 <= HIST_MAX_LEN {
        for a in 0..2 {
            for b in 0..2 {
                v.push(HOp::AddMany(a, b));
            }
        }
    }
    for k in 0..2 {
        v.push(HOp::Version(k));
        v.push(HOp::Locktime(k));
    }
    v
}

fn hist_in(k: usize) -> RIn {
    let mut t = [0u8; 32];
    for (i, b) in t.iter_mut().enumerate() {
        *b = (i as u8).wrapping_mul(3).wrapping_add(1 + 0x40 * k as u8);
    }
    RIn { txid_wire: t, vout: 0x0100 + k as u32, script: vec![0x51 + k as u8], sequence: 0xfffffff0 + k as u32 }
}

/// Spent-value annotation of history operand k (operand 0 carries one, operand 1 does not).
fn hist_in_satoshis(k: usize) -> Option<u64> {
    if k == 0 {
        Some(0x0000_0001_0000_0007)
    } else {
        None
    }
}

fn hist_out(k: usize) -> ROut {
    ROut { value: 0x0102030405060700 + k as u64, script: vec![0x76, 0xa9, 0x01, k as u8, 0x88, 0xac] }
}

fn history_dfs(tx: &mut Transaction, hm: &mut HModel, trail: &mut Vec<HOp>, op: HOp, depth: usize, acc: &mut Acc, case: &Case) {
    let saved_hm = hm.clone();
    match op {
        HOp::Version(k) => hm.version = HIST_SCALARS[k],
        HOp::Locktime(k) => hm.locktime = HIST_SCALARS[k],
        _ => {}
    }
    let (version, locktime) = (hm.version, hm.locktime);
    let model = &mut hm.list;
    let lib_in = |k: usize| {
        let r = hist_in(k);
        let mut i = TxIn::new(&r.txid_display(), r.vout, &Script::from_bytes(&r.script).unwrap(), Some(r.sequence));
        if let Some(s) = hist_in_satoshis(k) {
            i.set_satoshis(s);
        }
        i
    };
    let lib_out = |k: usize| {
        let r = hist_out(k);
        TxOut::new(r.value, &Script::from_bytes(&r.script).unwrap())
    };
    let (saved_tx, saved_model) = (tx.clone(), model.clone());
    trail.push(op);
    acc.evaluations += 1;
    acc.transitions += 3;
    acc.traces += 1;
    let applied = guard(|| {
        let mut t = tx.clone();
        match op {
            HOp::Add(k) => {
                t.add_input(&lib_in(k));
                t.add_output(&lib_out(k));
            }
            HOp::Prepend(k) => {
                t.prepend_input(&lib_in(k));
                t.prepend_output(&lib_out(k));
            }
            HOp::Insert(i, k) => {
                t.insert_input(i, &lib_in(k));
                t.insert_output(i, &lib_out(k));
            }
            HOp::Set(i, k) => {
                t.set_input(i, &lib_in(k));
                t.set_output(i, &lib_out(k));
            }
            HOp::AddMany(a, b) => {
                t.add_inputs(vec![lib_in(a), lib_in(b)]);
                t.add_outputs(vec![lib_out(a), lib_out(b)]);
            }
            HOp::Version(k) => {
                let r = t.set_version(HIST_SCALARS[k]);
                if k == 1 {
                    t = r;
                }
            }
            HOp::Locktime(k) => {
                let r = t.set_nlocktime(HIST_SCALARS[k]);
                if k == 1 {
                    t = r;
                }
            }
        }
        let bytes = t.to_bytes().map_err(|e| e.to_string());
        let firsts: Vec<Option<(u32, u64)>> = (0..t.get_ninputs().max(t.get_noutputs())).map(|i| t.get_input(i).map(|x| x.get_vout()).zip(t.get_output(i).map(|o| o.get_satoshis()))).collect();
        (t, bytes, firsts)
    });
    match op {
        HOp::Add(k) => model.push(k),
        HOp::Prepend(k) => model.insert(0, k),
        HOp::Insert(i, k) => model.insert(i, k),
        HOp::Set(i, k) => model[i] = k,
        HOp::AddMany(a, b) => {
            model.push(a);
            model.push(b);
        }
        HOp::Version(_) | HOp::Locktime(_) => {}
    }
    let want = RTx { version, locktime, inputs: model.iter().map(|k| hist_in(*k)).collect(), outputs: model.iter().map(|k| hist_out(*k)).collect() };
    let kind = match op {
        HOp::Add(_) => "add",
        HOp::Prepend(_) => "prepend",
        HOp::Insert(..) => "insert",
        HOp::Set(..) => "set",
        HOp::AddMany(..) => "add_many",
        HOp::Version(_) => "set_version",
        HOp::Locktime(_) => "set_nlocktime",
    };
    let input = || json!({"calls_on_inputs_and_outputs_alike": format!("{:?}", trail), "model_list_after": model.clone()});
    let mut ok = false;
    match applied {
        Err(p) => acc.violate(format!("C01/assembly/after={}/kind=panic@{}", kind, panic_site(&p)), case.idx, case.json(input()), p),
        Ok((t, bytes, firsts)) => {
            acc.nontrivial_structural += 1;
            acc.states_structural += 1;
            acc.outcome(&[0x68, model.len() as u8]);
            let wb = want.encode();
            let acc_ok = firsts.len() == model.len() && firsts.iter().zip(model.iter()).all(|(f, k)| *f == Some((hist_in(*k).vout, hist_out(*k).value)));
            if bytes.as_ref().ok() != Some(&wb) {
                acc.violate(format!("C01/assembly/after={}/kind=serialisation-differs-from-list-model", kind), case.idx, case.json(input()), format!("library={:?} reference={}", bytes.map(|b| hx(&b)), hx(&wb)));
            } else if !acc_ok {
                acc.violate(format!("C01/assembly/after={}/kind=accessors-differ-from-list-model", kind), case.idx, case.json(input()), format!("(vout, value) per position: {:?}", firsts));
            } else {
                // every accessor (id, size, outpoints, totals, per-element getters) must describe the object as it is
                // *now*: a value remembered from before the call (memoised id, cached size, stale total) shows up here
                let before = acc.violations.values().map(|x| x.0).sum::<u64>();
                let mut v = V { acc, case, input: input() };
                let notes: Vec<Option<u64>> = model.iter().map(|k| hist_in_satoshis(*k)).collect();
                if let Err(p) = guard(|| {
                    check_accessors(&mut v, &t, &want, &wb);
                    check_satoshis_in(&mut v, &t, &notes);
                }) {
                    v.bad(&format!("assembly/accessors/kind=panic@{}", panic_site(&p)), p);
                }
                if acc.violations.values().map(|x| x.0).sum::<u64>() == before {
                    ok = true;
                    *tx = t;
                }
            }
        }
    }
    let len_now = model.len();
    if ok && trail.len() < depth {
        for next in history_ops(len_now) {
            // two scalar setters in a row add nothing a single one does not show
            if matches!(op, HOp::Version(_) | HOp::Locktime(_)) && matches!(next, HOp::Version(_) | HOp::Locktime(_)) {
                continue;
            }
            history_dfs(tx, hm, trail, next, depth, acc, case);
        }
    }
    trail.pop();
    *tx = saved_tx;
    let _ = saved_model;
    *hm = saved_hm;
}

/// The C01 oracle for one candidate byte string.
pub fn eval_tx_bytes(b: &[u8], env: &c02::Env, acc: &mut Acc, case: &Case, desc: &dyn Fn() -> Value) {
    let child = crate::iso::in_child();
    if child {
        crate::iso::arm((64 << 20) + 1024 * b.len() as u64);
    }
    eval_inner(b, env, acc, case, desc);
    if child {
        crate::iso::disarm();
    }
}

fn eval_inner(b: &[u8], env: &c02::Env, acc: &mut Acc, case: &Case, desc: &dyn Fn() -> Value) {
    acc.evaluations += 1;
    acc.transitions += 1;
    let wf = wellformed(b, env);
    let lib = guard(|| Transaction::from_bytes(b));
    let mut v = V { acc, case, input: Value::Null };
    let mkinput = |d: &dyn Fn() -> Value| {
        let mut j = d();
        if let Some(o) = j.as_object_mut() {
            o.insert("tx_hex".into(), json!(hx(b)));
            o.insert("len".into(), json!(b.len()));
        }
        j
    };
    match lib {
        Err(p) => {
            v.input = mkinput(desc);
            v.acc.outcome(b"panic");
            v.bad(&format!("from_bytes/kind=panic@{}", panic_site(&p)), p);
        }
        Ok(Err(e)) => {
            v.acc.outcome(b"reject");
            if wf.is_some() {
                v.input = mkinput(desc);
                v.bad("from_bytes/kind=wellformed-rejected", format!("reference decoder: well-formed; library: Err({})", e));
            }
        }
        Ok(Ok(tx)) => {
            let back = guard(|| tx.to_bytes());
            v.acc.transitions += 1;
            match (&wf, back) {
                (_, Err(p)) => {
                    v.input = mkinput(desc);
                    v.bad(&format!("to_bytes/kind=panic@{}", panic_site(&p)), p);
                }
                (_, Ok(Err(e))) => {
                    v.input = mkinput(desc);
                    v.bad("to_bytes/kind=error", e.to_string());
                }
                (Some(r), Ok(Ok(back))) => {
                    v.input = mkinput(desc);
                    v.acc.outcome(&[b'w', r.inputs.len() as u8, r.outputs.len() as u8]);
                    v.acc.traces += 1;
                    v.acc.nontrivial_case(b);
                    v.acc.state(&back);
                    if back != b {
                        v.bad("to_bytes/kind=roundtrip-differs", format!("re-serialised as {}", hx(&back)));
                    }
                    if let Err(p) = guard(|| {
                        check_accessors(&mut v, &tx, r, b);
                        // the wire form carries no spent values
                        check_satoshis_in(&mut v, &tx, &vec![None; r.inputs.len()]);
                    }) {
                        v.bad(&format!("accessors/kind=panic@{}", panic_site(&p)), p);
                    }
                    match guard(|| Transaction::from_hex(&hex::encode(b)).and_then(|t| t.to_bytes())) {
                        Ok(Ok(hb)) if hb == b => {}
                        other => v.bad("from_hex/kind=differs-from-from_bytes", format!("{:?}", other.map(|r| r.map(|x| hx(&x)).map_err(|e| e.to_string())))),
                    }
                    for variant in 0..4 {
                        v.acc.transitions += 1;
                        match guard(|| construct(r, variant)) {
                            Ok(Ok(cb)) => {
                                if cb != b {
                                    v.bad(&format!("construct/variant={}/kind=serialisation-differs", variant), format!("construction API gives {}", hx(&cb)));
                                }
                            }
                            Ok(Err(e)) => v.bad(&format!("construct/variant={}/kind=error", variant), e),
                            Err(p) => v.bad(&format!("construct/kind=panic@{}", panic_site(&p)), p),
                        }
                    }
                }
                (None, Ok(Ok(s))) => {
                    // accepted although not well-formed: must normalise to a fixed point
                    v.acc.outcome(b"accept-nonwf");
                    v.acc.state(&s);
                    v.acc.transitions += 2;
                    match guard(|| Transaction::from_bytes(&s).and_then(|t| t.to_bytes())) {
                        Ok(Ok(s2)) if s2 == s => {}
                        Ok(Ok(s2)) => {
                            v.input = mkinput(desc);
                            v.bad("normalise/kind=not-a-fixed-point", format!("first normal form {} re-normalises to {}", hx(&s), hx(&s2)));
                        }
                        Ok(Err(e)) => {
                            v.input = mkinput(desc);
                            v.bad("normalise/kind=normal-form-rejected", format!("own serialisation {} is rejected: {}", hx(&s), e));
                        }
                        Err(p) => {
                            v.input = mkinput(desc);
                            v.bad(&format!("normalise/kind=panic@{}", panic_site(&p)), p);
                        }
                    }
                }
            }
        }
    }
}

// ---------------------------------------------------------------- generators

const U32S: [u32; 7] = [0, 1, 0x01020304, 0x7fffffff, 0x80000000, 0xfffffffe, 0xffffffff];
const VALUES: [u64; 5] = [0, 1, 0x0102030405060708, 1 << 63, u64::MAX];

fn txid_pat(k: u64) -> [u8; 32] {
    let mut t = [0u8; 32];
    match k {
        0 => {}
        1 => {
            for (i, x) in t.iter_mut().enumerate() {
                *x = (i + 1) as u8;
            }
        }
        _ => t = [0xff; 32],
    }
    t
}

fn p2pkh(tag: u8) -> Vec<u8> {
    let mut s = vec![0x76, 0xa9, 0x14];
    s.extend((0..20).map(|i| tag.wrapping_add(i)));
    s.extend_from_slice(&[0x88, 0xac]);
    s
}

/// A script of exactly `len` bytes from the accepted grammar, three realisations.
fn script_of_len(len: usize, realisation: u64) -> Vec<u8> {
    match realisation {
        0 => vec![0x61; len],
        1 => {
            // one push filling the length (plus NOP filler where no push fits exactly)
            let mut best = vec![];
            for overhead in [1usize, 2, 3, 5] {
                if len < overhead {
                    continue;
                }
                let n = len - overhead;
                let prefix = rs::minimal_push_prefix(n as u64);
                if n >= 1 && prefix.len() == overhead {
                    best = prefix;
                    best.extend((0..n).map(|i| (i * 13 + 5) as u8));
                    break;
                }
            }
            if best.len() != len {
                best = vec![0x61; len];
            }
            best
        }
        _ => {
            // nested IF .. ELSE .. ENDIF padding
            if len < 3 {
                return vec![0x61; len];
            }
            let mut s = vec![0x63];
            let inner = len - 3;
            s.extend(vec![0x51; inner / 2]);
            s.push(0x67);
            s.extend(vec![0x52; inner - inner / 2]);
            s.push(0x68);
            s
        }
    }
}

const SCRIPT_LENS: [usize; 13] = [0, 1, 75, 76, 77, 252, 253, 254, 255, 256, 65535, 65536, 65537];

fn simple_in(k: u32) -> RIn {
    RIn { txid_wire: txid_pat(1), vout: k, script: vec![0x51], sequence: 0xffff_fffe }
}
fn simple_out(k: u64) -> ROut {
    ROut { value: 1000 + k, script: p2pkh(k as u8) }
}

fn seeds() -> Vec<(String, Vec<u8>)> {
    let mainnet = hex::decode(include_str!("seed_mainnet_2in2out.hex").trim()).unwrap();
    let genesis = hex::decode("01000000010000000000000000000000000000000000000000000000000000000000000000ffffffff4d04ffff001d0104455468652054696d65732030332f4a616e2f32303039204368616e63656c6c6f72206f6e206272696e6b206f66207365636f6e64206261696c6f757420666f722062616e6b73ffffffff0100f2052a01000000434104678afdb0fe5548271967f1a67130b7105cd6a828e03909a67962e0ea1f61deb649f6bc3f4cef38c4f35504e51ec112de5c384df7ba0b8d578a4c702b6bf11d5fac00000000").unwrap();
    let small = RTx { version: 2, inputs: vec![RIn { txid_wire: txid_pat(1), vout: 0x01020304, script: vec![0x02, 0xaa, 0xbb], sequence: 0xfffffffe }], outputs: vec![ROut { value: 0x0102030405060708, script: vec![0x51] }], locktime: 0x0a0b0c0d }.encode();
    let cond = RTx {
        version: 1,
        inputs: vec![simple_in(0), RIn { txid_wire: txid_pat(2), vout: 1, script: vec![0x63, 0x51, 0x67, 0x4c, 0x01, 0x07, 0x68], sequence: 5 }],
        outputs: vec![simple_out(1), ROut { value: 0, script: vec![0x6a, 0x04, 1, 2, 3, 4] }],
        locktime: 0,
    }
    .encode();
    let empty = RTx { version: 1, inputs: vec![], outputs: vec![], locktime: 0 }.encode();
    vec![("small-1in-1out".into(), small), ("empty".into(), empty), ("cond-2in-2out".into(), cond), ("genesis-coinbase".into(), genesis), ("mainnet-2in-2out".into(), mainnet)]
}

const BYTE16: [u8; 16] = [0x00, 0x01, 0x02, 0x1b, 0x4b, 0x4c, 0x4d, 0x4e, 0x7f, 0x80, 0xfc, 0xfd, 0xfe, 0xff, 0x30, 0x22];

pub fn spaces(tier: Tier) -> Vec<Space> {
    let env = Arc::new(c02::env());
    let mut v = vec![];

    // S1: every integer field over the boundary alphabet, one input / one output
    {
        let e = env.clone();
        let dims = [7u64, 7, 7, 7, 5, 3];
        v.push(Space::new("ints", dims.iter().product(), move |case, acc| {
            let c = coords(case.idx, &dims);
            let tx = RTx {
                version: U32S[c[0] as usize],
                locktime: U32S[c[1] as usize],
                inputs: vec![RIn { txid_wire: txid_pat(c[5]), vout: U32S[c[3] as usize], script: vec![0x51], sequence: U32S[c[2] as usize] }],
                outputs: vec![ROut { value: VALUES[c[4] as usize], script: p2pkh(7) }],
            };
            let b = tx.encode();
            let d = || json!({"version": tx.version, "locktime": tx.locktime, "sequence": tx.inputs[0].sequence, "vout": tx.inputs[0].vout, "value": tx.outputs[0].value});
            acc.sample(case.idx, || json!({"space": "ints", "tx_hex": hex::encode(&b)}));
            eval_tx_bytes(&b, &e, acc, case, &d);
        }));
    }
    // S1b: single-bit and all-ones-below patterns in every integer field
    {
        let e = env.clone();
        v.push(Space::new("field-bit-patterns", 5 * 66 * 2, move |case, acc| {
            let c = coords(case.idx, &[5, 66, 2]);
            let k = c[1] as u32;
            let pow = |bits: u32| -> u64 { if k >= bits { u64::MAX >> (64 - bits) } else { 1u64 << k } };
            let v64 = if c[2] == 0 { pow(64) } else { pow(64).wrapping_sub(1) };
            let v32 = (if c[2] == 0 { pow(32) } else { pow(32).wrapping_sub(1) }) as u32;
            let mut tx = RTx { version: 1, locktime: 0, inputs: vec![simple_in(0), simple_in(1)], outputs: vec![simple_out(0), simple_out(1)] };
            match c[0] {
                0 => tx.version = v32,
                1 => tx.locktime = v32,
                2 => tx.inputs[1].sequence = v32,
                3 => tx.inputs[0].vout = v32,
                _ => tx.outputs[1].value = v64,
            }
            let b = tx.encode();
            let fname = ["version", "locktime", "sequence", "vout", "value"][c[0] as usize];
            let d = || json!({"field": fname, "bit": k, "minus_one": c[2] == 1});
            eval_tx_bytes(&b, &e, acc, case, &d);
        }));
    }
    // S2: input/output counts across the compact-size boundaries (full square)
    {
        let e = env.clone();
        let mut counts: Vec<u64> = vec![0, 1, 2, 3, 252, 253, 254];
        if tier.is_thorough() {
            counts.extend([65535, 65536]);
        }
        let n = counts.len() as u64;
        v.push(Space::new("counts", n * n * 2, move |case, acc| {
            let c = coords(case.idx, &[n, n, 2]);
            let (ni, no) = (counts[c[0] as usize], counts[c[1] as usize]);
            let tx = RTx {
                version: 1,
                locktime: 0x01020304,
                inputs: (0..ni).map(|k| if c[2] == 1 && k % 2 == 1 { RIn { txid_wire: txid_pat(2), vout: k as u32, script: vec![], sequence: k as u32 } } else { simple_in(k as u32) }).collect(),
                outputs: (0..no).map(|k| if c[2] == 1 { ROut { value: k, script: vec![] } } else { simple_out(k) }).collect(),
            };
            let b = tx.encode();
            let d = || json!({"n_inputs": ni, "n_outputs": no, "variant": c[2]});
            acc.sample(case.idx + (1 << 32), || json!({"space": "counts", "n_inputs": ni, "n_outputs": no, "tx_len": b.len()}));
            eval_tx_bytes(&b, &e, acc, case, &d);
        }));
    }
    // S3: script byte lengths across every boundary, three realisations, in input and in output position
    {
        let e = env.clone();
        v.push(Space::new("scriptlen", 13 * 3 * 3, move |case, acc| {
            let c = coords(case.idx, &[13, 3, 3]);
            let len = SCRIPT_LENS[c[0] as usize];
            let s = script_of_len(len, c[1]);
            let mut tx = RTx { version: 2, locktime: 0, inputs: vec![simple_in(0), simple_in(1)], outputs: vec![simple_out(0), simple_out(1)] };
            match c[2] {
                0 => tx.inputs[1].script = s,
                1 => tx.outputs[0].script = s,
                _ => {
                    // coinbase input: arbitrary, also unparseable, script bytes of that length
                    tx.inputs = vec![RIn { txid_wire: [0; 32], vout: 0xffffffff, script: (0..len).map(|i| (0x4c + (i % 3)) as u8).collect(), sequence: 0xffffffff }];
                }
            }
            let b = tx.encode();
            let d = || json!({"script_len": len, "realisation": c[1], "position": c[2]});
            eval_tx_bytes(&b, &e, acc, case, &d);
        }));
    }
    // S3b: every script length 0..=N (interior lengths, not only boundaries), two realisations, in input and output position
    {
        let e = env.clone();
        let maxlen: u64 = if tier.is_thorough() { 4200 } else { 1100 };
        v.push(Space::new("scriptlen-sweep", (maxlen + 1) * 4 * 2, move |case, acc| {
            let c = coords(case.idx, &[maxlen + 1, 4, 2]);
            let s = if c[1] < 2 {
                script_of_len(c[0] as usize, c[1])
            } else {
                // one push through a WIDER push opcode than its payload needs (PUSHDATA2 / PUSHDATA4), exactly filling the length
                let (hdr, op) = if c[1] == 2 { (3usize, 0x4du8) } else { (5, 0x4e) };
                let len = c[0] as usize;
                if len < hdr {
                    vec![0x61; len]
                } else {
                    let n = len - hdr;
                    let mut v = vec![op];
                    if op == 0x4d {
                        v.extend_from_slice(&(n as u16).to_le_bytes());
                    } else {
                        v.extend_from_slice(&(n as u32).to_le_bytes());
                    }
                    v.extend((0..n).map(|i| (i * 11 + 7) as u8));
                    v
                }
            };
            let mut tx = RTx { version: 2, locktime: 0, inputs: vec![simple_in(0)], outputs: vec![simple_out(0)] };
            if c[2] == 0 {
                tx.inputs[0].script = s;
            } else {
                tx.outputs[0].script = s;
            }
            let b = tx.encode();
            let d = || json!({"script_len": c[0], "realisation": c[1], "position": c[2]});
            eval_tx_bytes(&b, &e, acc, case, &d);
        }));
    }
    // S3c: content sweep — one (or two adjacent) payload byte(s) through all 256 values at every position of a txid,
    // of a 24-byte push in an unlocking script and of a 24-byte push in an output script
    {
        let e = env.clone();
        v.push(Space::new("content-sweep", (32 + 24 + 24) * 256 * 2, move |case, acc| {
            let c = coords(case.idx, &[80, 256, 2]);
            let (pos, b, adjacent) = (c[0] as usize, c[1] as u8, c[2] == 1);
            let mut tx = RTx { version: 1, locktime: 0, inputs: vec![simple_in(0), simple_in(1)], outputs: vec![simple_out(0), simple_out(1)] };
            let push24: Vec<u8> = std::iter::once(24u8).chain((0..24).map(|i| (0x90 + i) as u8)).collect();
            let put = |buf: &mut [u8], at: usize| {
                buf[at] = b;
                if adjacent {
                    let n = buf.len();
                    buf[(at + 1) % n] = b;
                }
            };
            let place = if pos < 32 {
                put(&mut tx.inputs[1].txid_wire, pos);
                "txid"
            } else if pos < 56 {
                let mut sc = push24.clone();
                put(&mut sc[1..], pos - 32);
                tx.inputs[0].script = sc;
                "script_sig-push"
            } else {
                let mut sc = push24.clone();
                put(&mut sc[1..], pos - 56);
                sc.push(0xac);
                tx.outputs[1].script = sc;
                "output-script-push"
            };
            let bytes = tx.encode();
            let d = || json!({"place": place, "position": pos, "byte": b, "adjacent_pair": adjacent});
            eval_tx_bytes(&bytes, &e, acc, case, &d);
        }));
    }
    // S2b: every (inputs, outputs) count pair in 0..=N x 0..=N with all-distinct and with all-identical elements
    {
        let e = env.clone();
        let n: u64 = if tier.is_thorough() { 41 } else { 21 };
        v.push(Space::new("counts-interior", n * n * 2, move |case, acc| {
            let c = coords(case.idx, &[n, n, 2]);
            let tx = RTx {
                version: 2,
                locktime: 7,
                inputs: (0..c[0]).map(|k| if c[2] == 1 { simple_in(9) } else { RIn { txid_wire: txid_pat(1 + k % 2), vout: k as u32, script: vec![0x51 + (k % 16) as u8], sequence: 0xffffff00 + k as u32 } }).collect(),
                outputs: (0..c[1]).map(|k| if c[2] == 1 { simple_out(9) } else { simple_out(k) }).collect(),
            };
            let b = tx.encode();
            let d = || json!({"n_inputs": c[0], "n_outputs": c[1], "identical_elements": c[2] == 1});
            eval_tx_bytes(&b, &e, acc, case, &d);
        }));
    }
    // S4: coinbase-outpoint inputs in coinbase and non-coinbase transactions
    {
        let e = env.clone();
        let mut blobs: Vec<Vec<u8>> = vec![vec![], vec![0x01], vec![0xff; 5], vec![0x4e, 0xff, 0xff, 0xff, 0xff], (0..100u8).collect(), vec![0x51], vec![0x63]];
        // coinbase scripts that tokenise as ordinary script (height push, OP_RETURN followed by a short final push, text tags),
        // and every byte string of length 1 and 2: whatever the bytes are, they must come back unchanged
        blobs.push(hex::decode("0340e20b6a2f506f6f6c2f").unwrap());
        blobs.push(hex::decode("03a0860100").unwrap());
        blobs.push(hex::decode("006a4848454c4c4f").unwrap());
        blobs.push(hex::decode("6a05aabb").unwrap());
        blobs.push(hex::decode("4c02aabb4d0100cc").unwrap());
        blobs.push(hex::decode("63516752680000").unwrap());
        for a in 0..=255u8 {
            blobs.push(vec![a]);
        }
        for a in 0..=255u8 {
            for b in [0x00u8, 0x01, 0x02, 0x4b, 0x4c, 0x51, 0x63, 0x67, 0x68, 0x6a, 0xaa, 0xff] {
                blobs.push(vec![a, b]);
                blobs.push(vec![0x6a, a, b]);
            }
        }
        let nb = blobs.len() as u64;
        v.push(Space::new("coinbase", nb * 4, move |case, acc| {
            let c = coords(case.idx, &[nb, 4]);
            let cb = RIn { txid_wire: [0; 32], vout: 0xffffffff, script: blobs[c[0] as usize].clone(), sequence: 0xffffffff };
            let inputs = match c[1] {
                0 => vec![cb],
                1 => vec![cb, simple_in(3)],
                2 => vec![simple_in(3), cb],
                _ => vec![RIn { vout: 0xfffffffe, ..cb.clone() }],
            };
            let tx = RTx { version: 1, locktime: 0, inputs, outputs: vec![simple_out(5)] };
            let b = tx.encode();
            let d = || json!({"coinbase_script": hex::encode(&blobs[c[0] as usize]), "layout": c[1]});
            eval_tx_bytes(&b, &e, acc, case, &d);
        }));
    }
    // S4b: assembly histories against a list model: every sequence of up to D construction calls over {add, prepend,
    // insert(i) for every 0 <= i <= len, set(i) for every i < len, add_many(two)} x two distinct operands, applied to the
    // input list and (the same shape) to the output list of one Transaction object; after EVERY call the serialisation must
    // equal the reference encoding of the model lists and the element accessors must agree with them
    {
        let depth: usize = if tier.is_thorough() { 6 } else { 5 };
        // first-level prefixes are the cases; each case explores all its extensions depth-first
        let firsts = history_ops(0);
        let nf = firsts.len() as u64;
        v.push(Space::new("assembly-histories", nf, move |case, acc| {
            let mut tx = Transaction::new(2, 0x01020304);
            let mut model = HModel { list: vec![], version: 2, locktime: 0x01020304 };
            let mut trail: Vec<HOp> = vec![];
            history_dfs(&mut tx, &mut model, &mut trail, firsts[case.idx as usize], depth, acc, case);
        }));
    }
    // S5: compact-size helper encoders
    v.push(Space::new("varint-helper", VARINT_N.len() as u64, |case, acc| {
        let n = VARINT_N[case.idx as usize];
        acc.evaluations += 1;
        acc.transitions += 2;
        acc.traces += 1;
        acc.nontrivial_structural += 1;
        let want = rw::cs_encode(n);
        let input = json!({"n": n});
        match guard(|| VarInt::get_varint_bytes(n)) {
            Ok(got) => {
                acc.outcome(&got);
                if got != want {
                    acc.violate(format!("C01/get_varint_bytes/kind=wrong-encoding/width={}", want.len()), case.idx, case.json(input.clone()), format!("library={} compact-size={}", hx(&got), hx(&want)));
                }
            }
            Err(p) => acc.violate(format!("C01/get_varint_bytes/kind=panic@{}", panic_site(&p)), case.idx, case.json(input.clone()), p),
        }
        match guard(|| {
            let mut v: Vec<u8> = vec![];
            v.write_varint(n).map(|_| v)
        }) {
            Ok(Ok(got)) => {
                if got != want {
                    acc.violate(format!("C01/write_varint/kind=wrong-encoding/width={}", want.len()), case.idx, case.json(input.clone()), format!("library={} compact-size={}", hx(&got), hx(&want)));
                }
            }
            Ok(Err(e)) => acc.violate("C01/write_varint/kind=error", case.idx, case.json(input.clone()), e.to_string()),
            Err(p) => acc.violate(format!("C01/write_varint/kind=panic@{}", panic_site(&p)), case.idx, case.json(input.clone()), p),
        }
        // the other public implementations of the two traits: the Cursor<Vec<u8>> writer, and the three readers
        // (Cursor<Vec<u8>>, Cursor<&[u8]>, Vec<u8>) on the canonical encoding
        acc.transitions += 4;
        let twins = guard(|| {
            use bsv::VarIntReader;
            let mut cw = std::io::Cursor::new(Vec::<u8>::new());
            let w = cw.write_varint(n).map(|_| cw.into_inner()).map_err(|e| e.to_string());
            let r1 = std::io::Cursor::new(want.clone()).read_varint().map_err(|e| e.to_string());
            let r2 = std::io::Cursor::new(&want[..]).read_varint().map_err(|e| e.to_string());
            let r3 = want.clone().read_varint().map_err(|e| e.to_string());
            (w, r1, r2, r3)
        });
        match twins {
            Ok((w, r1, r2, r3)) => {
                if w.as_ref().ok() != Some(&want) {
                    acc.violate(format!("C01/write_varint(Cursor)/kind=wrong-encoding/width={}", want.len()), case.idx, case.json(input.clone()), format!("library={:?} compact-size={}", w.map(|x| hx(&x)), hx(&want)));
                }
                for (name, r) in [("Cursor<Vec<u8>>", r1), ("Cursor<&[u8]>", r2), ("Vec<u8>", r3)] {
                    if r.as_ref().ok() != Some(&n) {
                        acc.violate(format!("C01/read_varint({})/kind=wrong-value/width={}", name, want.len()), case.idx, case.json(input.clone()), format!("read {:?} from {}", r, hx(&want)));
                    }
                }
            }
            Err(p) => acc.violate(format!("C01/varint-trait-impls/kind=panic@{}", panic_site(&p)), case.idx, case.json(input), p),
        }
    }));
    // S6: TxIn::from_hex / TxOut::from_hex on fragments (valid and with trailing bytes)
    {
        let e = env.clone();
        let dims = [7u64, 7, 3, 5, 3];
        v.push(Space::new("fragments", dims.iter().product(), move |case, acc| {
            let c = coords(case.idx, &dims);
            acc.evaluations += 1;
            acc.transitions += 4;
            acc.traces += 1;
            acc.nontrivial_structural += 1;
            let script = match c[4] {
                0 => vec![],
                1 => vec![0x02, 0xaa, 0xbb],
                _ => script_of_len(253, 1),
            };
            let _ = &e;
            let ri = RIn { txid_wire: txid_pat(c[2]), vout: U32S[c[0] as usize], script: script.clone(), sequence: U32S[c[1] as usize] };
            let ro = ROut { value: VALUES[c[3] as usize], script };
            let ib = ri.encode();
            let ob = ro.encode();
            acc.outcome(&ib[32..40]);
            let input = json!({"txin_hex": hx(&ib), "txout_hex": hx(&ob)});
            match guard(|| TxIn::from_hex(&hex::encode(&ib)).and_then(|i| i.to_bytes().map(|b| (i, b)))) {
                Ok(Ok((i, back))) => {
                    if back != ib || i.get_vout() != ri.vout || i.get_sequence() != ri.sequence || i.get_prev_tx_id(Some(true)) != ri.txid_wire.to_vec() || i.get_unlocking_script().to_bytes() != ri.script {
                        acc.violate("C01/TxIn::from_hex/kind=roundtrip-differs", case.idx, case.json(input.clone()), format!("re-serialised as {}", hx(&back)));
                    }
                }
                Ok(Err(err)) => {
                    if !ri.is_coinbase_outpoint() {
                        acc.violate("C01/TxIn::from_hex/kind=wellformed-rejected", case.idx, case.json(input.clone()), err.to_string())
                    }
                }
                Err(p) => acc.violate(format!("C01/TxIn::from_hex/kind=panic@{}", panic_site(&p)), case.idx, case.json(input.clone()), p),
            }
            match guard(|| TxOut::from_hex(&hex::encode(&ob)).and_then(|o| o.to_bytes().map(|b| (o, b)))) {
                Ok(Ok((o, back))) => {
                    if back != ob || o.get_satoshis() != ro.value || o.get_script_pub_key().to_bytes() != ro.script {
                        acc.violate("C01/TxOut::from_hex/kind=roundtrip-differs", case.idx, case.json(input), format!("re-serialised as {}", hx(&back)));
                    }
                }
                Ok(Err(err)) => acc.violate("C01/TxOut::from_hex/kind=wellformed-rejected", case.idx, case.json(input), err.to_string()),
                Err(p) => acc.violate(format!("C01/TxOut::from_hex/kind=panic@{}", panic_site(&p)), case.idx, case.json(input), p),
            }
        }));
    }

    // ---- deviation 1 on seeds (isolated: mutated length fields may make the library allocate or abort)
    let seeds = Arc::new(seeds());
    for (si, (name, seed)) in seeds.iter().enumerate() {
        let n = seed.len() as u64;
        // every prefix and 1..9 trailing bytes
        {
            let (e, s) = (env.clone(), seeds.clone());
            v.push(Space::isolated(&format!("d1-prefix-trailing/{}", name), n + 1 + 9 * 2, move |case, acc| {
                let seed = &s[si].1;
                let n = seed.len() as u64;
                let b: Vec<u8> = if case.idx <= n {
                    seed[..case.idx as usize].to_vec()
                } else {
                    let k = case.idx - n - 1;
                    let mut b = seed.clone();
                    b.extend(vec![if k % 2 == 0 { 0x00 } else { 0xff }; (k / 2 + 1) as usize]);
                    b
                };
                let d = || json!({"seed": s[si].0, "deviation": if case.idx <= n { format!("prefix of {} bytes", case.idx) } else { format!("{} trailing bytes", b.len() - seed.len()) }});
                eval_tx_bytes(&b, &e, acc, case, &d);
            }));
        }
        // every position x byte value (256 values for seeds <= 300 bytes, 16-value alphabet otherwise)
        {
            let (e, s) = (env.clone(), seeds.clone());
            let full = seed.len() <= 300;
            let nv: u64 = if full { 256 } else { 16 };
            v.push(Space::isolated(&format!("d1-byte/{}", name), n * nv, move |case, acc| {
                let seed = &s[si].1;
                let pos = (case.idx / nv) as usize;
                let val = if full { (case.idx % nv) as u8 } else { BYTE16[(case.idx % nv) as usize] };
                let mut b = seed.clone();
                b[pos] = val;
                let d = || json!({"seed": s[si].0, "deviation": format!("byte {} := {:02x}", pos, val)});
                if pos == 4 {
                    acc.sample(case.idx + (2 << 32), || json!({"space": "d1-byte", "seed": s[si].0, "pos": pos, "val": val}));
                }
                eval_tx_bytes(&b, &e, acc, case, &d);
            }));
        }
        // every compact-size field re-encoded in each wider non-canonical form, and set to extreme values
        {
            let (e, s) = (env.clone(), seeds.clone());
            let fields = rw::decode(seed).map(|d| d.cs_fields).unwrap_or_default();
            let nf = fields.len() as u64;
            let extremes: Vec<u64> = vec![0xfc, 0xfd, 0xffff, 0x10000, 1 << 31, 0xffff_ffff, 1 << 32, 1 << 40, 1 << 63, u64::MAX];
            let per = 3 + extremes.len() as u64;
            v.push(Space::isolated(&format!("d1-compactsize/{}", name), nf * per, move |case, acc| {
                let seed = &s[si].1;
                let (at, w, val) = fields[(case.idx / per) as usize];
                let k = case.idx % per;
                let enc: Vec<u8> = if k < 3 {
                    let all = rw::cs_all_encodings(val);
                    match all.get(1 + k as usize) {
                        Some(x) => x.clone(),
                        None => return,
                    }
                } else {
                    rw::cs_encode(extremes[(k - 3) as usize])
                };
                let mut b = seed[..at].to_vec();
                b.extend_from_slice(&enc);
                b.extend_from_slice(&seed[at + w..]);
                let d = || json!({"seed": s[si].0, "deviation": format!("compact-size at {} ({}): re-encoded as {}", at, val, hex::encode(&enc))});
                eval_tx_bytes(&b, &e, acc, case, &d);
            }));
        }
    }
    // ---- deviation 2 (thorough): all pairs of (position, value) over the 16-value alphabet on the two short seeds
    if tier.is_thorough() {
        for si in 0..2usize {
            let (e, s) = (env.clone(), seeds.clone());
            let n = seeds[si].1.len() as u64;
            let m = n * 16;
            v.push(Space::isolated(&format!("d2-byte-pairs/{}", seeds[si].0), m * m, move |case, acc| {
                let (a, bq) = (case.idx / m, case.idx % m);
                if a >= bq {
                    return; // unordered pairs once; a == bq is deviation 1
                }
                let seed = &s[si].1;
                let mut b = seed.clone();
                b[(a / 16) as usize] = BYTE16[(a % 16) as usize];
                b[(bq / 16) as usize] = BYTE16[(bq % 16) as usize];
                if a / 16 == bq / 16 {
                    return;
                }
                let d = || json!({"seed": s[si].0, "deviation": format!("byte {} := {:02x}, byte {} := {:02x}", a / 16, BYTE16[(a % 16) as usize], bq / 16, BYTE16[(bq % 16) as usize])});
                eval_tx_bytes(&b, &e, acc, case, &d);
            }));
        }
    }
    v
}

const VARINT_N: [u64; 22] = [
    0, 1, 251, 252, 253, 254, 255, 256, 257, 0xfffe, 0xffff, 0x10000, 0x10001, 0xffff_fffe, 0xffff_ffff, 0x1_0000_0000, 0x1_0000_0001, 1 << 40, (1 << 63) - 1, 1 << 63, u64::MAX - 1, u64::MAX,
];

fn run(ctx: &Ctx) -> Report {
    let mut r = Report::new(
        "deviation 0: full products of boundary alphabets for every integer field (7^4 x 5 x 3), input/output counts on both sides of 252/253 (thorough: 65535/65536) as a full square, script lengths across every compact-size and push boundary x 3 realisations x 3 positions, coinbase layouts; deviation 1 on 5 seed transactions: every prefix, every byte position x byte value, every compact-size field in every non-canonical width and at extreme values, trailing bytes (thorough: deviation 2 = all pairs of byte deviations on the short seeds). Non-trivial = accepted by the library and well-formed for the reference decoder, then compared accessor by accessor and rebuilt through the construction API; distinct = distinct byte strings (hashed).",
    );
    r.bounds = json!({"u32_alphabet": U32S, "value_alphabet": VALUES, "script_lens": SCRIPT_LENS, "varint_helper_n": VARINT_N, "seeds": seeds().iter().map(|s| json!({"name": s.0, "len": s.1.len()})).collect::<Vec<_>>(), "deviation_bound": if ctx.tier.is_thorough() {2} else {1}});
    r.assumptions.push("satoshis_out is compared only when the sum fits u64".into());
    run_spaces_for("C01", ctx, &mut r, spaces(ctx.tier));
    r
}

fn replay(case: &Value) -> Vec<(String, String)> {
    replay_spaces_for("C01", spaces, case)
}
