//! C16 — interpreter totality: every step yields a state or an error, the run
//! terminates, stepping equals run(), and an error leaves both stacks as they
//! were after the last successful step. Model-free oracle over the widest
//! opcode alphabet (every byte the parser accepts) plus ScriptBit sequences
//! only the construction API can build.
use super::c14;
use super::icommon::{opname, pushes_for, show_stack};
use super::libx::learn_opcode_set;
use super::{replay_spaces_for, run_spaces_for, Case, Prop, Space};
use crate::engine::{coords, guard, Acc, Ctx, Report, Tier};
use crate::refs::interp::Stack;
use crate::refs::script::{self as rs, Tok};
use bsv::{Interpreter, OpCodes, PrivateKey, Script, ScriptBit, Transaction, TxIn, TxOut};
use serde_json::{json, Value};
use std::sync::Arc;

pub const PROP: Prop = Prop {
    run,
    replay,
    spaces: Some(spaces),
    level_note: "no semantic model: the oracle is totality (no panic, no abort, bounded steps), equality of single-stepping with run(), and stack preservation on error; process-killing cases (huge size/count operands) run in child processes under a counting allocator; scripts are bounded to one or two opcodes after a push prefix, conditional skeletons to depth 3",
};

fn bit_name(b: &ScriptBit) -> String {
    match b {
        ScriptBit::OpCode(o) => o.to_string(),
        ScriptBit::Push(_) => "ScriptBit::Push".into(),
        ScriptBit::PushData(c, _) => format!("ScriptBit::PushData({})", c),
        ScriptBit::If { code, .. } => code.to_string(),
        ScriptBit::Coinbase(_) => "ScriptBit::Coinbase".into(),
    }
}

fn count_bits(bits: &[ScriptBit]) -> usize {
    bits.iter()
        .map(|b| match b {
            ScriptBit::If { pass, fail, .. } => 1 + count_bits(pass) + fail.as_ref().map(|f| count_bits(f)).unwrap_or(0),
            _ => 1,
        })
        .sum()
}

pub struct Finding {
    pub key: String,
    pub detail: String,
}

/// The whole C16 oracle for one interpreter (built by `mk`, twice: once stepped, once run()).
pub fn check_total(mk: &dyn Fn() -> Result<Interpreter, String>, acc: &mut Acc) -> Vec<Finding> {
    let mut out = vec![];
    acc.evaluations += 1;
    let mut it = match guard(mk) {
        Ok(Ok(i)) => i,
        Ok(Err(_)) => {
            acc.outcome(b"not-constructible");
            return out;
        }
        Err(p) => {
            acc.outcome(b"ctor-panic");
            out.push(Finding { key: format!("C16/constructor/kind=panic@{}", crate::engine::panic_site(&p)), detail: p });
            return out;
        }
    };
    let bound = count_bits(&it.script_bits()) + 2;
    let mut last_ok: (Stack, Stack) = (vec![], vec![]);
    let mut steps = 0usize;
    let mut end: &str = "cap";
    let mut err_at: Option<String> = None;
    loop {
        if steps > bound {
            out.push(Finding { key: "C16/run/kind=more-steps-than-script-elements".into(), detail: format!("{} steps for {} script elements", steps, bound - 2) });
            break;
        }
        let idx = it.script_index();
        let cur = it.script_bits().get(idx).map(bit_name).unwrap_or_else(|| "end".into());
        acc.transitions += 1;
        match guard(|| it.next()) {
            Ok(None) => {
                end = "finished";
                break;
            }
            Ok(Some(Ok(st))) => {
                last_ok = (st.stack.clone(), st.alt_stack.clone());
                acc.states_structural += 1;
                steps += 1;
            }
            Ok(Some(Err(e))) => {
                end = "error";
                err_at = Some(cur.clone());
                let now = guard(|| it.state()).map(|s| (s.stack.clone(), s.alt_stack.clone())).unwrap_or_default();
                if now != last_ok {
                    out.push(Finding {
                        key: format!("C16/op={}/kind=stacks-changed-by-failing-step", cur),
                        detail: format!("step failed with '{}' but stacks are main={} alt={}; after the last successful step they were main={} alt={}", e, show_stack(&now.0), show_stack(&now.1), show_stack(&last_ok.0), show_stack(&last_ok.1)),
                    });
                }
                // a failed interpreter must keep failing or stay put, never panic
                if let Err(p) = guard(|| it.next()) {
                    out.push(Finding { key: format!("C16/op={}/kind=panic-after-error", cur), detail: p });
                }
                break;
            }
            Err(p) => {
                end = "panic";
                out.push(Finding { key: format!("C16/op={}/kind=panic", cur), detail: p });
                break;
            }
        }
    }
    acc.outcome(end.as_bytes());
    acc.traces += 1;
    acc.nontrivial_structural += 1;
    if end == "panic" {
        return out;
    }
    // a finished interpreter that is asked again stays finished: no panic, no further state, stacks untouched
    if end == "finished" {
        let before = guard(|| it.state()).map(|s| (s.stack.clone(), s.alt_stack.clone())).unwrap_or_default();
        acc.transitions += 1;
        match guard(|| it.next().map(|r| r.is_ok())) {
            Ok(None) | Ok(Some(false)) => {}
            Ok(Some(true)) => acc.bump("next_after_completion_returned_a_state", 1),
            Err(p) => out.push(Finding { key: "C16/run/kind=panic-after-completion".into(), detail: p }),
        }
        let after = guard(|| it.state()).map(|s| (s.stack.clone(), s.alt_stack.clone())).unwrap_or_default();
        if after != before {
            out.push(Finding { key: "C16/run/kind=stacks-changed-after-completion".into(), detail: format!("main={} alt={} became main={} alt={}", show_stack(&before.0), show_stack(&before.1), show_stack(&after.0), show_stack(&after.1)) });
        }
    }
    // second interpreter driven by run()
    let stepped_final = guard(|| it.state()).map(|s| (s.stack.clone(), s.alt_stack.clone())).unwrap_or_default();
    match guard(|| mk().map(|mut j| {
        let r = j.run();
        let st = j.state();
        let first = (r.is_ok(), st.stack.clone(), st.alt_stack.clone());
        // run() on an interpreter that already ran: same verdict class, same stacks, no panic
        if first.0 {
            let r2 = j.run();
            let st2 = j.state();
            if r2.is_ok() && (st2.stack != first.1 || st2.alt_stack != first.2) {
                return (false, vec![b"second run() differs from the first".to_vec()], vec![]);
            }
        }
        first
    })) {
        Ok(Ok((ok, s, a))) => {
            acc.transitions += 1;
            let stepped_ok = end == "finished";
            if ok != stepped_ok || (s, a) != stepped_final {
                out.push(Finding {
                    key: format!("C16/run/kind=differs-from-single-stepping{}", err_at.as_ref().map(|o| format!("/at={}", o)).unwrap_or_default()),
                    detail: format!("run(): ok={} stacks; stepping: ok={} main={} alt={}", ok, stepped_ok, show_stack(&stepped_final.0), show_stack(&stepped_final.1)),
                });
            }
        }
        Ok(Err(_)) => {}
        Err(p) => out.push(Finding { key: format!("C16/run/kind=panic{}", err_at.as_ref().map(|o| format!("/at={}", o)).unwrap_or_default()), detail: p }),
    }
    out
}

fn check_script_bytes(bytes: &[u8], acc: &mut Acc, case: &Case, desc: &dyn Fn() -> Value) {
    let mk = || -> Result<Interpreter, String> {
        let s = Script::from_bytes(bytes).map_err(|e| e.to_string())?;
        Ok(Interpreter::from_script(&s))
    };
    for f in check_total(&mk, acc) {
        let mut input = desc();
        if let Some(o) = input.as_object_mut() {
            o.insert("script_hex".into(), json!(hex::encode(bytes)));
        }
        acc.violate(f.key, case.idx, case.json(input), f.detail);
    }
}

fn check_bits(bits: &[ScriptBit], acc: &mut Acc, case: &Case, desc: &dyn Fn() -> Value) {
    let mk = || -> Result<Interpreter, String> { Ok(Interpreter::from_script(&Script::from_script_bits(bits.to_vec()))) };
    for f in check_total(&mk, acc) {
        acc.violate(f.key, case.idx, case.json(desc()), f.detail);
    }
}

/// every opcode byte the parser accepts, except push opcodes and block structure
fn op_alphabet() -> Vec<u8> {
    let ops = learn_opcode_set();
    (0..=255u8).filter(|b| ops[*b as usize] && !matches!(*b, 0x63 | 0x64 | 0x65 | 0x66 | 0x67 | 0x68)).collect()
}

fn huge_operand(op: u8, st: &Stack) -> bool {
    // either of the two operands (an implementation may read them in either order)
    // independent of how the reference decodes the operand (see c14::huge_operand): three or more bytes
    matches!(op, 0x80 | 0x98 | 0x99) && st.iter().rev().take(2).any(|t| t.len() >= 3)
}

pub fn spaces(tier: Tier) -> Vec<Space> {
    let thorough = tier.is_thorough();
    let vals = Arc::new(c14::values());
    let ops = Arc::new(op_alphabet());
    let no = ops.len() as u64;
    let mut v = vec![];
    // (a) every accepted opcode byte on every stack of depth 0..3 over V (top and second over all 22 values plus extreme index operands, third over V8)
    {
        let (vals, ops) = (vals.clone(), ops.clone());
        let mut tops: Vec<Vec<u8>> = vals.iter().cloned().collect();
        for x in ["03", "08", "09", "10", "21", "83", "ffffff7f", "ffffffff7f", "ffffffffffffffff7f", "0900", "8000", "010080", "01008000", "01000080"] {
            tops.push(hex::decode(x).unwrap());
        }
        let nt = tops.len() as u64;
        let nv = vals.len() as u64;
        // third-from-top item: V4 in the quick tier, V8 in the thorough tier (a case costs ~0.4 ms because the interpreter prints every state)
        let third = if thorough { 8u64 } else { 4u64 };
        let shapes = 1 + nt + nt * nv + nt * nv * third;
        v.push(Space::new("op-on-stacks", no * shapes, move |case, acc| {
            let c = coords(case.idx, &[no, shapes]);
            let op = ops[c[0] as usize];
            let mut k = c[1];
            let st: Stack = if k == 0 {
                vec![]
            } else if k < 1 + nt {
                vec![tops[(k - 1) as usize].clone()]
            } else if k < 1 + nt + nt * nv {
                k -= 1 + nt;
                vec![vals[(k / nt) as usize].clone(), tops[(k % nt) as usize].clone()]
            } else {
                k -= 1 + nt + nt * nv;
                vec![vals[(k / (nt * nv)) as usize].clone(), vals[((k / nt) % nv) as usize].clone(), tops[(k % nt) as usize].clone()]
            };
            if huge_operand(op, &st) {
                acc.bump("left_to_isolated_space", 1);
                return;
            }
            let mut toks = pushes_for(&st, &vec![]);
            toks.push(Tok::Op(op));
            let desc = || json!({"op": opname(op), "initial_stack": show_stack(&st)});
            if c[1] == 30 {
                acc.sample(case.idx, || json!({"space": "op-on-stacks", "op": opname(op), "initial_stack": show_stack(&st)}));
            }
            check_script_bytes(&rs::serialize(&toks), acc, case, &desc);
        }));
    }
    // (a+) extreme script numbers (see C14 `extreme_numbers`): every ordered pair under every opcode byte of the arithmetic /
    // comparison / bitwise / splice range 0x7e..=0xa5, and every value alone under every accepted opcode byte
    {
        // quick tier: the values around 7/8, 15/16, 31/32, 63/64 and 127/128 bits (the semantic check C14 runs the full list)
        let ext: Arc<Vec<Vec<u8>>> = Arc::new(
            c14::extreme_numbers(thorough)
                .iter()
                .filter(|x| thorough || {
                    let b = x.magnitude().bits();
                    b <= 4 || [7u64, 8, 9, 15, 16, 17, 31, 32, 33, 63, 64, 65, 127, 128, 129].contains(&b)
                })
                .map(crate::refs::interp::enc)
                .collect(),
        );
        let ne = ext.len() as u64;
        let range: Vec<u8> = ops.iter().copied().filter(|b| (0x7e..=0xa5).contains(b)).collect();
        let nr = range.len() as u64;
        let e1 = ext.clone();
        v.push(Space::new("extreme-numbers-binary", nr * ne * ne, move |case, acc| {
            let c = coords(case.idx, &[nr, ne, ne]);
            let op = range[c[0] as usize];
            let st: Stack = vec![e1[c[1] as usize].clone(), e1[c[2] as usize].clone()];
            if huge_operand(op, &st) {
                acc.bump("left_to_isolated_space", 1);
                return;
            }
            let mut toks = pushes_for(&st, &vec![]);
            toks.push(Tok::Op(op));
            let desc = || json!({"op": opname(op), "initial_stack": show_stack(&st)});
            check_script_bytes(&rs::serialize(&toks), acc, case, &desc);
        }));
        let (e2, ops2) = (ext.clone(), ops.clone());
        v.push(Space::new("extreme-numbers-unary", no * ne, move |case, acc| {
            let c = coords(case.idx, &[no, ne]);
            let op = ops2[c[0] as usize];
            let st: Stack = vec![e2[c[1] as usize].clone()];
            if huge_operand(op, &st) {
                acc.bump("left_to_isolated_space", 1);
                return;
            }
            let mut toks = pushes_for(&st, &vec![]);
            toks.push(Tok::Op(op));
            let desc = || json!({"op": opname(op), "initial_stack": show_stack(&st)});
            check_script_bytes(&rs::serialize(&toks), acc, case, &desc);
        }));
    }
    // (a') deeper stacks for the opcodes that look further down (2OVER, 2ROT, 2SWAP, 3DUP, ROT, PICK, ROLL, WITHIN, CHECKMULTISIG*) over V3
    {
        let vals = vals.clone();
        let deep_ops: Vec<u8> = vec![0x6f, 0x70, 0x71, 0x72, 0x7b, 0x79, 0x7a, 0xa5, 0xae, 0xaf, 0x6d, 0x6e];
        let nd = deep_ops.len() as u64;
        let tot: u64 = (4..=7u32).map(|d| 3u64.pow(d)).sum();
        v.push(Space::new("deep-stacks", nd * tot, move |case, acc| {
            let c = coords(case.idx, &[nd, tot]);
            let op = deep_ops[c[0] as usize];
            let mut k = c[1];
            let mut depth = 4u32;
            while k >= 3u64.pow(depth) {
                k -= 3u64.pow(depth);
                depth += 1;
            }
            let mut st: Stack = vec![];
            for _ in 0..depth {
                st.push(vals[[0usize, 1, 5][(k % 3) as usize]].clone());
                k /= 3;
            }
            let mut toks = pushes_for(&st, &vec![]);
            toks.push(Tok::Op(op));
            let desc = || json!({"op": opname(op), "initial_stack": show_stack(&st)});
            check_script_bytes(&rs::serialize(&toks), acc, case, &desc);
        }));
    }
    // (b) depth-2 chaining over V8: every ordered pair of accepted opcode bytes from every stack of depth <= 2
    {
        let (vals, ops) = (vals.clone(), ops.clone());
        let mut inits: Vec<Stack> = vec![vec![]];
        let nv8 = if thorough { 8 } else { 5 };
        for a in 0..nv8 {
            inits.push(vec![vals[a].clone()]);
            for b in 0..nv8 {
                inits.push(vec![vals[a].clone(), vals[b].clone()]);
            }
        }
        let ni = inits.len() as u64;
        v.push(Space::new("chain2", ni * no * no, move |case, acc| {
            let c = coords(case.idx, &[ni, no, no]);
            let st = &inits[c[0] as usize];
            let (o1, o2) = (ops[c[1] as usize], ops[c[2] as usize]);
            let mut toks = pushes_for(st, &vec![]);
            toks.push(Tok::Op(o1));
            toks.push(Tok::Op(o2));
            let desc = || json!({"op1": opname(o1), "op2": opname(o2), "initial_stack": show_stack(st)});
            check_script_bytes(&rs::serialize(&toks), acc, case, &desc);
        }));
    }
    // (b') thorough: every ordered triple of accepted opcode bytes from every stack of depth <= 1 over V3
    if thorough {
        let (vals, ops) = (vals.clone(), ops.clone());
        let inits: Vec<Stack> = vec![vec![], vec![vals[0].clone()], vec![vals[1].clone()], vec![vals[5].clone()]];
        let ni = inits.len() as u64;
        v.push(Space::new("chain3", ni * no * no * no, move |case, acc| {
            let c = coords(case.idx, &[ni, no, no, no]);
            let st = &inits[c[0] as usize];
            let o = [ops[c[1] as usize], ops[c[2] as usize], ops[c[3] as usize]];
            let mut toks = pushes_for(st, &vec![]);
            for x in o {
                toks.push(Tok::Op(x));
            }
            let desc = || json!({"ops": [opname(o[0]), opname(o[1]), opname(o[2])], "initial_stack": show_stack(st)});
            check_script_bytes(&rs::serialize(&toks), acc, case, &desc);
        }));
    }
    // (c) conditionals with every condition value (including over-long and negative-zero ones), stray structure
    {
        let vals = vals.clone();
        let mut conds: Vec<Vec<u8>> = vals.iter().cloned().collect();
        conds.push(vec![0; 5]);
        conds.push(vec![0, 0, 0, 0, 0x80]);
        let nc = conds.len() as u64;
        let bodies: Vec<Vec<u8>> = vec![
            vec![0x63, 0x68],
            vec![0x64, 0x68],
            vec![0x63, 0x51, 0x67, 0x52, 0x68],
            vec![0x64, 0x51, 0x67, 0x52, 0x68],
            vec![0x63, 0x51, 0x63, 0x52, 0x67, 0x53, 0x68, 0x67, 0x54, 0x68, 0x55],
            vec![0x63, 0x00, 0x69, 0x67, 0x6a, 0x68],
            vec![0x65, 0x51, 0x68],
            vec![0x66, 0x51, 0x67, 0x52, 0x68],
            vec![0x63, 0x67, 0x67, 0x68],
            vec![0x67],
            vec![0x68],
            vec![0x75, 0x63, 0x51, 0x68],
            vec![0x75, 0x64, 0x51, 0x68],
            vec![0x63, 0x63, 0x63, 0x51, 0x68, 0x68, 0x68],
        ];
        let nb = bodies.len() as u64;
        v.push(Space::new("conditionals", nc * nb * 2, move |case, acc| {
            let c = coords(case.idx, &[nc, nb, 2]);
            let mut st: Stack = vec![conds[c[0] as usize].clone()];
            if c[2] == 1 {
                st.insert(0, vec![1]);
            }
            let mut bytes = rs::serialize(&pushes_for(&st, &vec![]));
            bytes.extend_from_slice(&bodies[c[1] as usize]);
            let desc = || json!({"condition": hex::encode(&conds[c[0] as usize]), "body_hex": hex::encode(&bodies[c[1] as usize])});
            check_script_bytes(&bytes, acc, case, &desc);
        }));
    }
    // (d) ScriptBit sequences only the construction API can build
    {
        let bits: Vec<(String, Vec<ScriptBit>)> = vec![
            ("Coinbase blob".into(), vec![ScriptBit::Coinbase(vec![1, 2, 3])]),
            ("empty Coinbase blob".into(), vec![ScriptBit::Coinbase(vec![])]),
            ("opcode then Coinbase".into(), vec![ScriptBit::OpCode(OpCodes::OP_1), ScriptBit::Coinbase(vec![0xff])]),
            ("over-long direct Push (76 bytes)".into(), vec![ScriptBit::Push(vec![7; 76])]),
            ("over-long direct Push (300 bytes) + SIZE".into(), vec![ScriptBit::Push(vec![7; 300]), ScriptBit::OpCode(OpCodes::OP_SIZE)]),
            ("empty direct Push".into(), vec![ScriptBit::Push(vec![])]),
            ("PushData tagged with a non-push opcode".into(), vec![ScriptBit::PushData(OpCodes::OP_ADD, vec![1])]),
            ("If with code OP_ADD".into(), vec![ScriptBit::OpCode(OpCodes::OP_1), ScriptBit::If { code: OpCodes::OP_ADD, pass: vec![ScriptBit::OpCode(OpCodes::OP_2)], fail: None }]),
            ("If without condition".into(), vec![ScriptBit::If { code: OpCodes::OP_IF, pass: vec![], fail: Some(vec![]) }]),
            ("If containing Coinbase".into(), vec![ScriptBit::OpCode(OpCodes::OP_1), ScriptBit::If { code: OpCodes::OP_IF, pass: vec![ScriptBit::Coinbase(vec![9])], fail: None }]),
            ("bare OP_IF opcode bit".into(), vec![ScriptBit::OpCode(OpCodes::OP_1), ScriptBit::OpCode(OpCodes::OP_IF), ScriptBit::OpCode(OpCodes::OP_ENDIF)]),
            ("bare OP_PUSHDATA1 opcode bit".into(), vec![ScriptBit::OpCode(OpCodes::OP_PUSHDATA1)]),
            ("bare OP_PUSHDATA4 opcode bit".into(), vec![ScriptBit::OpCode(OpCodes::OP_PUSHDATA4), ScriptBit::OpCode(OpCodes::OP_1)]),
        ];
        let n = bits.len() as u64;
        v.push(Space::new("constructed-bits", n, move |case, acc| {
            let (name, b) = &bits[case.idx as usize];
            let desc = || json!({"script_bits": name});
            acc.sample(case.idx + (1 << 41), || json!({"space": "constructed-bits", "script_bits": name}));
            check_bits(b, acc, case, &desc);
        }));
    }
    // (e) Interpreter::from_transaction: index in/out of range, with/without locking script and satoshis, signature opcodes on arbitrary operands
    {
        let vals = vals.clone();
        let sigops = [0xacu8, 0xad, 0xae, 0xaf];
        let nv = vals.len() as u64;
        v.push(Space::new("from-transaction", 4 * nv * nv * 4 * 3, move |case, acc| {
            let c = coords(case.idx, &[4, nv, nv, 4, 3]);
            let op = sigops[c[0] as usize];
            let (a, b) = (vals[c[1] as usize].clone(), vals[c[2] as usize].clone());
            let ext = c[3]; // 0 none, 1 satoshis only, 2 locking only, 3 both
            let txin_index = [0usize, 1, 7][c[4] as usize];
            let unlocking = {
                let mut t = pushes_for(&vec![a.clone(), b.clone()], &vec![]);
                if op >= 0xae {
                    // counts for multisig: m sigs..., n keys... laid out as: 0 <a> 1 <b> 1
                    t = vec![Tok::Op(0x00), super::icommon::push_tok(&a), Tok::Op(0x51), super::icommon::push_tok(&b), Tok::Op(0x51)];
                }
                rs::serialize(&t)
            };
            let mk = || -> Result<Interpreter, String> {
                let mut txin = TxIn::new(&[3u8; 32], 1, &Script::from_bytes(&unlocking).map_err(|e| e.to_string())?, Some(5));
                if ext & 1 == 1 {
                    txin.set_satoshis(1000);
                }
                if ext & 2 == 2 {
                    txin.set_locking_script(&Script::from_bytes(&[op]).map_err(|e| e.to_string())?);
                } else {
                    // without a locking script the opcode sits in the unlocking script
                    let mut u = unlocking.clone();
                    u.push(op);
                    txin.set_unlocking_script(&Script::from_bytes(&u).map_err(|e| e.to_string())?);
                }
                let mut tx = Transaction::new(1, 0);
                tx.add_input(&txin);
                tx.add_output(&TxOut::new(1, &Script::from_bytes(&[0x51]).unwrap()));
                Interpreter::from_transaction(&tx, txin_index).map_err(|e| e.to_string())
            };
            for f in check_total(&mk, acc) {
                let input = json!({"sigop": opname(op), "operand_a": hex::encode(&a), "operand_b": hex::encode(&b), "extended_fields": ext, "input_index": txin_index});
                acc.violate(f.key, case.idx, case.json(input), f.detail);
            }
        }));
    }
    // (e+) signature opcodes fed a WELL-FORMED DER signature ending in each of the twelve standard flag bytes (and two
    // undefined ones) x key shapes (valid compressed, valid uncompressed, uncompressed with the y coordinate off the
    // curve, compressed with x off the curve, 65 zero bytes behind tag 04, the identity) x transaction shapes in which the
    // executing input's index is below, equal to and above the number of outputs, and the declared input index is the
    // last input or out of range. Only totality is judged.
    {
        let k = PrivateKey::from_hex("c0ffee254729296a45a3885639ac7e10f9d54979a0f5b2d1e8b1c4a7d3f6e5b9").unwrap();
        let pkc = k.to_public_key().unwrap().to_bytes().unwrap();
        let pku = k.compress_public_key(false).to_public_key().unwrap().to_bytes().unwrap();
        let mut off_y = pku.clone();
        off_y[64] ^= 1;
        let mut off_x = vec![0x02u8];
        off_x.extend(vec![0u8; 31]);
        off_x.push(5);
        let mut zeros = vec![0x04u8];
        zeros.extend(vec![0u8; 64]);
        let keys: Vec<(&str, Vec<u8>)> = vec![("compressed", pkc), ("uncompressed", pku), ("uncompressed, y off the curve", off_y), ("compressed, x off the curve", off_x), ("04 || 64 zero bytes", zeros), ("identity 00", vec![0u8])];
        let der = k.sign_message(b"x").unwrap().to_der_bytes();
        let flags: [u8; 14] = [0x01, 0x02, 0x03, 0x81, 0x82, 0x83, 0x41, 0x42, 0x43, 0xc1, 0xc2, 0xc3, 0x00, 0x44];
        // (n_in, n_out, executing index)
        let shapes: Vec<(usize, usize, usize)> = vec![(1, 0, 0), (1, 1, 0), (2, 1, 1), (2, 2, 1), (3, 1, 2), (3, 2, 2), (2, 0, 1), (3, 3, 0)];
        let sigops = [0xacu8, 0xad, 0xae, 0xaf];
        let (nk, nf, nsh) = (keys.len() as u64, flags.len() as u64, shapes.len() as u64);
        v.push(Space::new("from-transaction-flagged-signatures", 4 * nk * nf * nsh, move |case, acc| {
            let c = coords(case.idx, &[4, nk, nf, nsh]);
            let op = sigops[c[0] as usize];
            let (kname, key) = &keys[c[1] as usize];
            let flag = flags[c[2] as usize];
            let (n_in, n_out, idx) = shapes[c[3] as usize];
            let mut sig = der.clone();
            sig.push(flag);
            let unlocking = if op >= 0xae { rs::serialize(&[Tok::Op(0x00), super::icommon::push_tok(&sig)]) } else { rs::serialize(&[super::icommon::push_tok(&sig)]) };
            let locking = if op >= 0xae { rs::serialize(&[Tok::Op(0x51), super::icommon::push_tok(key), Tok::Op(0x51), Tok::Op(op)]) } else { rs::serialize(&[super::icommon::push_tok(key), Tok::Op(op)]) };
            let mk = || -> Result<Interpreter, String> {
                let mut tx = Transaction::new(1, 0);
                for i in 0..n_in {
                    let mut txin = TxIn::new(&[3u8 + i as u8; 32], i as u32, &Script::default(), Some(0xfffffffe));
                    if i == idx {
                        txin.set_unlocking_script(&Script::from_bytes(&unlocking).map_err(|e| e.to_string())?);
                        txin.set_locking_script(&Script::from_bytes(&locking).map_err(|e| e.to_string())?);
                        txin.set_satoshis(1000);
                    }
                    tx.add_input(&txin);
                }
                for o in 0..n_out {
                    tx.add_output(&TxOut::new(1 + o as u64, &Script::from_bytes(&[0x51]).unwrap()));
                }
                Interpreter::from_transaction(&tx, idx).map_err(|e| e.to_string())
            };
            for f in check_total(&mk, acc) {
                let input = json!({"sigop": opname(op), "key": kname, "flag_byte": format!("0x{:02x}", flag), "n_inputs": n_in, "n_outputs": n_out, "input_index": idx});
                acc.violate(f.key, case.idx, case.json(input), f.detail);
            }
        }));
    }
    // (e++) CHECKMULTISIG(VERIFY) count grid: k items below the signature count m (k = 0..m+2, the first one the dummy), m in
    // 0..=4, n keys present with a declared key count of n-1, n, n+1, 20 or 21 — every way in which the two counts can
    // disagree with what is on the stack — with and without a transaction behind the interpreter
    {
        let k = PrivateKey::from_hex("c0ffee254729296a45a3885639ac7e10f9d54979a0f5b2d1e8b1c4a7d3f6e5b9").unwrap();
        let pkc = k.to_public_key().unwrap().to_bytes().unwrap();
        let mut sig = k.sign_message(b"x").unwrap().to_der_bytes();
        sig.push(0x41);
        let decl: [i64; 5] = [-1, 0, 1, 20, 21];
        v.push(Space::new("multisig-count-grid", 2 * 5 * 4 * 5 * 7 * 2, move |case, acc| {
            let c = coords(case.idx, &[2, 5, 4, 5, 7, 2]);
            let op = if c[0] == 0 { 0xaeu8 } else { 0xaf };
            let (m, n) = (c[1] as usize, c[2] as usize);
            let declared = match decl[c[3] as usize] {
                d @ -1..=1 => (n as i64 + d).max(0) as u64,
                d => d as u64,
            };
            let below = c[4] as usize;
            if below > m + 2 {
                return;
            }
            let with_tx = c[5] == 1;
            let num = |x: u64| -> Tok { if x == 0 { Tok::Op(0) } else if x <= 16 { Tok::Op(0x50 + x as u8) } else { super::icommon::push_tok(&[x as u8]) } };
            let mut unlocking: Vec<Tok> = vec![];
            for i in 0..below {
                unlocking.push(if i == 0 { Tok::Op(0) } else { super::icommon::push_tok(&sig) });
            }
            let mut locking: Vec<Tok> = vec![num(m as u64)];
            for _ in 0..n {
                locking.push(super::icommon::push_tok(&pkc));
            }
            locking.push(num(declared));
            locking.push(Tok::Op(op));
            let (ub, lb) = (rs::serialize(&unlocking), rs::serialize(&locking));
            let input = json!({"op": opname(op), "items_below_the_signature_count": below, "signature_count": m, "keys_present": n, "declared_key_count": declared, "with_transaction": with_tx, "unlocking_hex": hex::encode(&ub), "locking_hex": hex::encode(&lb)});
            if with_tx {
                let mk = || -> Result<Interpreter, String> {
                    let mut tx = Transaction::new(1, 0);
                    let mut txin = TxIn::new(&[3u8; 32], 0, &Script::from_bytes(&ub).map_err(|e| e.to_string())?, Some(0xfffffffe));
                    txin.set_locking_script(&Script::from_bytes(&lb).map_err(|e| e.to_string())?);
                    txin.set_satoshis(1000);
                    tx.add_input(&txin);
                    tx.add_output(&TxOut::new(1, &Script::from_bytes(&[0x51]).unwrap()));
                    Interpreter::from_transaction(&tx, 0).map_err(|e| e.to_string())
                };
                for f in check_total(&mk, acc) {
                    acc.violate(f.key, case.idx, case.json(input.clone()), f.detail);
                }
            } else {
                let all = [ub.clone(), lb.clone()].concat();
                let desc = || input.clone();
                check_script_bytes(&all, acc, case, &desc);
            }
        }));
    }
    // (e') signature opcodes reached after OP_CODESEPARATORs in every position: in the unlocking script, at top level of the
    // locking script, and inside taken / not-taken conditional branches of the locking script
    {
        let k = PrivateKey::from_hex("c0ffee254729296a45a3885639ac7e10f9d54979a0f5b2d1e8b1c4a7d3f6e5b9").unwrap();
        let pk = k.to_public_key().unwrap().to_bytes().unwrap();
        let sig = {
            let mut s = k.sign_message(b"x").unwrap().to_der_bytes();
            s.push(0x41);
            s
        };
        let push = |d: &[u8]| rs::serialize(&[rs::minimal_push(d)]);
        let unlockings: Vec<Vec<u8>> = vec![
            [push(&sig), push(&pk)].concat(),
            [vec![0xab], push(&sig), push(&pk)].concat(),
            [push(&sig), vec![0xab], push(&pk)].concat(),
            [push(&sig), push(&pk), vec![0xab]].concat(),
            [vec![0xab, 0xab], push(&sig), vec![0xab], push(&pk)].concat(),
            [push(&sig)].concat(),
        ];
        let lockings: Vec<Vec<u8>> = vec![
            vec![0xac],
            vec![0xab, 0xac],
            vec![0x51, 0x63, 0xab, 0x68, 0xac],
            vec![0x51, 0x63, 0x61, 0x61, 0x61, 0xab, 0x68, 0xac],
            vec![0x00, 0x63, 0xab, 0x67, 0x61, 0x61, 0xab, 0x68, 0xac],
            vec![0x51, 0x63, 0x51, 0x63, 0x61, 0xab, 0x61, 0x68, 0xab, 0x68, 0xad, 0x51],
            vec![0x51, 0x63, 0x61, 0x61, 0xab, 0x68, 0x76, 0xa9, 0x69, 0xac],
            vec![0x61, 0x61, 0x61, 0x61, 0xab, 0x61, 0xab, 0xac],
        ];
        let (nu, nl) = (unlockings.len() as u64, lockings.len() as u64);
        v.push(Space::new("from-transaction-codeseparators", nu * nl * 2, move |case, acc| {
            let c = coords(case.idx, &[nu, nl, 2]);
            let (u, l) = (unlockings[c[0] as usize].clone(), lockings[c[1] as usize].clone());
            let n_in = 1 + c[2] as usize;
            let mk = || -> Result<Interpreter, String> {
                let mut tx = Transaction::new(1, 0);
                for i in 0..n_in {
                    let mut txin = TxIn::new(&[3u8 + i as u8; 32], 1, &Script::from_bytes(&u).map_err(|e| e.to_string())?, Some(5));
                    txin.set_satoshis(1000);
                    txin.set_locking_script(&Script::from_bytes(&l).map_err(|e| e.to_string())?);
                    tx.add_input(&txin);
                }
                tx.add_output(&TxOut::new(1, &Script::from_bytes(&[0x51]).unwrap()));
                Interpreter::from_transaction(&tx, n_in - 1).map_err(|e| e.to_string())
            };
            for f in check_total(&mk, acc) {
                let input = json!({"unlocking_hex": hex::encode(&u), "locking_hex": hex::encode(&l), "n_inputs": n_in});
                acc.violate(f.key, case.idx, case.json(input), f.detail);
            }
        }));
    }
    // (e'') CHECKMULTISIG(VERIFY) with signatures that are really valid for the transaction: every m-of-n (n <= 3) with every
    // m-tuple of signers over {K0, K1, K2, foreign key} - any order, with repetition - so that the key/signature cursor
    // logic is driven through every match/mismatch pattern; oracle: totality, step == run, stacks kept on error
    {
        let keys: Vec<PrivateKey> = ["0000000000000000000000000000000000000000000000000000000000000001", "c0ffee254729296a45a3885639ac7e10f9d54979a0f5b2d1e8b1c4a7d3f6e5b9", "fffffffffffffffffffffffffffffffebaaedce6af48a03bbfd25e8cd0364140", "00000000000000000000000000000000000000000000000000000000000000aa"].iter().map(|h| PrivateKey::from_hex(h).unwrap()).collect();
        let mut cases: Vec<(usize, usize, Vec<usize>)> = vec![];
        for n in 1..=3usize {
            for m in 1..=n {
                for t in 0..4usize.pow(m as u32) {
                    cases.push((m, n, (0..m).map(|i| (t / 4usize.pow(i as u32)) % 4).collect()));
                }
            }
        }
        let ncase = cases.len() as u64;
        v.push(Space::new("multisig-valid-signatures", ncase * 2 * 2, move |case, acc| {
            let c = coords(case.idx, &[ncase, 2, 2]);
            let (m, n, signers) = cases[c[0] as usize].clone();
            let op = if c[1] == 0 { 0xaeu8 } else { 0xaf };
            let flag = if c[2] == 0 { bsv::SigHash::InputsOutputs } else { bsv::SigHash::try_from(0xc3u8).unwrap() };
            let keys = keys.clone();
            let mk = || -> Result<Interpreter, String> {
                let es = |e: bsv::BSVErrors| e.to_string();
                let mut l = vec![0x50 + m as u8];
                for k in keys.iter().take(n) {
                    let pk = k.to_public_key().map_err(es)?.to_bytes().map_err(es)?;
                    l.push(pk.len() as u8);
                    l.extend_from_slice(&pk);
                }
                l.push(0x50 + n as u8);
                l.push(op);
                if op == 0xaf {
                    l.push(0x51);
                }
                let locking = Script::from_bytes(&l).map_err(es)?;
                let mut tx = Transaction::new(1, 0);
                let mut txin = TxIn::new(&[3u8; 32], 1, &Script::from_bytes(&[]).map_err(es)?, Some(5));
                txin.set_satoshis(1000);
                txin.set_locking_script(&locking);
                tx.add_input(&txin);
                tx.add_output(&TxOut::new(1, &Script::from_bytes(&[0x51]).unwrap()));
                let mut u = vec![0x00u8];
                for sg in &signers {
                    let sig = tx.sign(&keys[*sg], flag, 0, &locking, 1000).map_err(es)?.to_bytes().map_err(es)?;
                    u.push(sig.len() as u8);
                    u.extend_from_slice(&sig);
                }
                txin.set_unlocking_script(&Script::from_bytes(&u).map_err(es)?);
                tx.set_input(0, &txin);
                Interpreter::from_transaction(&tx, 0).map_err(|e| e.to_string())
            };
            for f in check_total(&mk, acc) {
                let input = json!({"m": m, "n": n, "signers": signers, "op": opname(op), "flag": c[2]});
                acc.violate(f.key, case.idx, case.json(input), f.detail);
            }
        }));
    }
    // (e3) stack items that are valid UTF-8 text with multi-byte characters straddling every byte offset (and broken UTF-8):
    // whatever the interpreter does with item contents for display or logging must not make run() differ from stepping
    {
        let mut texts: Vec<Vec<u8>> = vec![];
        for l in 14..=44usize {
            for off in 0..4usize {
                for ch in ["\u{e9}", "\u{65e5}", "\u{1f600}"] {
                    let mut t = "a".repeat(off);
                    while t.len() + ch.len() <= l {
                        t.push_str(ch);
                    }
                    texts.push(t.into_bytes());
                }
            }
            texts.push([vec![b'a'; l - 1], vec![0xc3]].concat());
            texts.push([vec![b'a'; l / 2], vec![0xe6, 0x97], vec![b'b'; l / 2]].concat());
        }
        texts.sort();
        texts.dedup();
        let progs: Vec<(&str, Vec<u8>)> = vec![("", vec![]), ("DUP", vec![0x76]), ("TOALTSTACK", vec![0x6b]), ("SIZE", vec![0x82]), ("DUP CAT", vec![0x76, 0x7e]), ("SHA256", vec![0xa8]), ("1 SPLIT", vec![0x51, 0x7f]), ("VERIFY", vec![0x69])];
        let (nt, np) = (texts.len() as u64, progs.len() as u64);
        v.push(Space::new("utf8-text-items", nt * np, move |case, acc| {
            let c = coords(case.idx, &[nt, np]);
            let t = &texts[c[0] as usize];
            let mut bytes = rs::serialize(&[rs::minimal_push(t)]);
            bytes.extend_from_slice(&progs[c[1] as usize].1);
            let desc = || json!({"item_text": String::from_utf8_lossy(t), "item_hex": hex::encode(t), "then": progs[c[1] as usize].0});
            check_script_bytes(&bytes, acc, case, &desc);
        }));
    }
    // (e4) conditional grammar: every string of up to N symbols over {IF, NOTIF, ELSE, ENDIF, OP_0, OP_1, VERIFY, DUP, TOALTSTACK}
    {
        let syms: Vec<u8> = vec![0x63, 0x64, 0x67, 0x68, 0x00, 0x51, 0x69, 0x76, 0x6b];
        let ns = syms.len() as u64;
        let maxk: u32 = if thorough { 7 } else { 5 };
        let mut offsets = vec![0u64];
        for k in 0..=maxk {
            offsets.push(offsets[k as usize] + ns.pow(k));
        }
        let total = *offsets.last().unwrap();
        v.push(Space::new("cond-grammar", total, move |case, acc| {
            let k = offsets.iter().rposition(|o| *o <= case.idx).unwrap();
            let mut rem = case.idx - offsets[k];
            let mut bytes = vec![0u8; k];
            for i in (0..k).rev() {
                bytes[i] = syms[(rem % ns) as usize];
                rem /= ns;
            }
            let desc = || json!({"space": "cond-grammar"});
            check_script_bytes(&bytes, acc, case, &desc);
        }));
    }
    // (e5) every opcode byte at every position of every conditional skeleton of up to 3 (4) symbols, the condition values
    // supplied by a prefix of pushes (true / false)
    {
        let holes = super::skeleton_holes(if thorough { 4 } else { 3 });
        let nh = holes.len() as u64;
        v.push(Space::new("opcode-in-skeleton", nh * 256 * 2, move |case, acc| {
            let c = coords(case.idx, &[nh, 256, 2]);
            let (pre, post) = &holes[c[0] as usize];
            let cond: &[u8] = if c[2] == 0 { &[0x51, 0x51, 0x51, 0x51] } else { &[0x00, 0x51, 0x00, 0x51] };
            let bytes: Vec<u8> = [cond, pre.as_slice(), super::hole_fill(c[1] as u8).as_slice(), post.as_slice()].concat();
            let desc = || json!({"space": "opcode-in-skeleton"});
            check_script_bytes(&bytes, acc, case, &desc);
        }));
    }
    // (e6) transaction mode with unlocking scripts that are programs, not only pushes: every unlocking string of up to 3 symbols
    // and every locking string of up to 2 symbols over {OP_1, OP_5, TOALTSTACK, FROMALTSTACK, DUP, DROP, ADD}
    {
        let syms: Vec<u8> = vec![0x51, 0x55, 0x6b, 0x6c, 0x76, 0x75, 0x93];
        let ns = syms.len() as u64;
        let strings = |maxk: u32| -> Vec<Vec<u8>> {
            let mut out: Vec<Vec<u8>> = vec![vec![]];
            let mut frontier: Vec<Vec<u8>> = vec![vec![]];
            for _ in 0..maxk {
                let mut next = vec![];
                for f in &frontier {
                    for s in &syms {
                        let mut g = f.clone();
                        g.push(*s);
                        next.push(g);
                    }
                }
                out.extend(next.iter().cloned());
                frontier = next;
            }
            out
        };
        let _ = ns;
        let us = strings(3);
        let ls = strings(2);
        let (nu, nl) = (us.len() as u64, ls.len() as u64);
        v.push(Space::new("from-transaction-programs", nu * nl * 2, move |case, acc| {
            let c = coords(case.idx, &[nu, nl, 2]);
            let explicit_bits = c[2] == 1;
            let (u, l) = (us[c[0] as usize].clone(), ls[c[1] as usize].clone());
            let mk = || -> Result<Interpreter, String> {
                let mut tx = Transaction::new(1, 0);
                let mut txin = TxIn::new(&[3u8; 32], 1, &Script::from_bytes(&u).map_err(|e| e.to_string())?, Some(5));
                txin.set_satoshis(1000);
                txin.set_locking_script(&Script::from_bytes(&l).map_err(|e| e.to_string())?);
                tx.add_input(&txin);
                tx.add_output(&TxOut::new(1, &Script::from_bytes(&[0x51]).unwrap()));
                if explicit_bits {
                    let fin = tx.get_input(0).ok_or("no input")?.get_finalised_script().map_err(|e| e.to_string())?;
                    Ok(Interpreter::from_transaction_and_script_bits(tx, 0, fin.to_script_bits()))
                } else {
                    Interpreter::from_transaction(&tx, 0).map_err(|e| e.to_string())
                }
            };
            for f in check_total(&mk, acc) {
                let input = json!({"unlocking_hex": hex::encode(&u), "locking_hex": hex::encode(&l), "constructor": if explicit_bits { "from_transaction_and_script_bits" } else { "from_transaction" }});
                acc.violate(f.key, case.idx, case.json(input), f.detail);
            }
        }));
    }
    // (f) size/count operands that can make an implementation allocate or spin: child processes with an allocation budget
    {
        // every ordered pair over W = V + index alphabet (+ two wider operands) with an operand of three or more bytes: the
        // stacks the in-process spaces leave out for NUM2BIN / LSHIFT / RSHIFT, and the same pairs under PICK, ROLL, SPLIT
        let mut w = c14::operand_alphabet();
        w.push(hex::decode("ffffff00").unwrap());
        w.push(hex::decode("ffffffff7f").unwrap());
        let w = Arc::new(w);
        let nw = w.len() as u64;
        let hops = [0x80u8, 0x98, 0x99, 0x79, 0x7a, 0x7f];
        v.push(Space::isolated("huge-operands", 6 * nw * nw, move |case, acc| {
            let c = coords(case.idx, &[6, nw, nw]);
            let op = hops[c[0] as usize];
            let st: Stack = vec![w[c[1] as usize].clone(), w[c[2] as usize].clone()];
            if !st.iter().any(|t| t.len() >= 3) {
                acc.bump("evaluated_in_process", 1);
                return;
            }
            if op == 0x80 && st.last().map(|t| t.len() <= 8 && crate::refs::interp::num(t) > num_bigint::BigInt::from(1 << 20)).unwrap_or(false) {
                // NUM2BIN to a size above 1 MiB legitimately produces an item of that size (2 GiB for 2^31-1): a memory and time question, not conformance/totality; sizes up to 1 MiB are decided in index-operand-widths
                return;
            }
            let mut toks = pushes_for(&st, &vec![]);
            toks.push(Tok::Op(op));
            let desc = || json!({"op": opname(op), "initial_stack": show_stack(&st)});
            crate::iso::arm(256 << 20);
            check_script_bytes(&rs::serialize(&toks), acc, case, &desc);
            crate::iso::disarm();
        }));
    }
    v
}

fn run(ctx: &Ctx) -> Report {
    let mut r = Report::new(
        "every opcode byte the parser accepts (reserved, disabled, NOPs, signature and template pseudo-opcodes included) applied to every stack of depth 0..3 (top over V + extreme index operands, second over V, third over V8) and to deeper stacks over V3 for the opcodes that look further down; every ordered pair of accepted opcode bytes from every stack of depth <= 2 over V5 (V8 thorough); conditional skeletons x every condition value incl. over-long ones; ScriptBit sequences only the construction API can build (Coinbase, over-long Push, mis-tagged PushData/If); Interpreter::from_transaction with input index in and out of range, with/without extended fields, signature opcodes on every operand pair from V; huge size/count operands in isolated child processes. Oracle: no panic/abort, steps bounded by script elements, run() equals single-stepping, stacks after an error equal those after the last successful step. Non-trivial = interpreter was constructed and driven to its end; distinct by construction.",
    );
    r.bounds = json!({"opcode_bytes": op_alphabet().iter().map(|b| format!("{:02x}", b)).collect::<Vec<_>>(), "value_alphabet": c14::values().iter().map(hex::encode).collect::<Vec<_>>(), "chain_depth": 2});
    run_spaces_for("C16", ctx, &mut r, spaces(ctx.tier));
    r
}

fn replay(case: &Value) -> Vec<(String, String)> {
    replay_spaces_for("C16", spaces, case)
}
