//! C12 — Bitcoin Signed Message: signing and verification are complete and
//! sound for all keys, both compression forms, all message lengths and all
//! address prefixes. Reference: refs::secp (verify, recover), refs::hashes
//! (sha256d, hash160), refs::b58 (address), refs::wire::cs_encode (length prefixes).
use super::{hx, pattern, replay_spaces, run_spaces, Case, Prop, Space};
use crate::engine::{coords, guard, panic_site, Acc, Ctx, Report, Tier};
use crate::refs::{b58, hashes, secp, wire};
use bsv::{ChainParams, P2PKHAddress, PrivateKey, PublicKey, Signature, BSM};
use num_bigint::BigUint;
use serde_json::{json, Value};
use std::sync::Arc;

pub const PROP: Prop = Prop {
    run,
    replay,
    spaces: Some(spaces),
    level_note: "trusted base: refs::secp (ECDSA verify and public-key recovery), refs::hashes (SHA-256d, HASH160), refs::b58 (address encoding), refs::wire::cs_encode; the signed digest is sha256d(cs(24) || \"Bitcoin Signed Message:\\n\" || cs(len) || msg); keys, nonces and messages outside the stated alphabets are not covered",
};

pub const KEYS: [&str; 12] = [
    "0000000000000000000000000000000000000000000000000000000000000001",
    "fffffffffffffffffffffffffffffffebaaedce6af48a03bbfd25e8cd0364140",
    "7fffffffffffffffffffffffffffffff5d576e7357a4501ddfe92f46681b20a0",
    "c0ffee254729296a45a3885639ac7e10f9d54979a0f5b2d1e8b1c4a7d3f6e5b9",
    "0000000000000000000000000000000000000000000000000000000000000002",
    "0000000000000000000000000000000000000000000000000000000000abcdef",
    "18e14a7b6a307f426a94f8114701e7c8e774e7f9a47e2c2035db29a206321725",
    "8000000000000000000000000000000000000000000000000000000000000000",
    "fffffffffffffffffffffffffffffffebaaedce6af48a03bbfd25e8cd036413f",
    "0123456789abcdef0123456789abcdef0123456789abcdef0123456789abcdef",
    "7fffffffffffffffffffffffffffffff5d576e7357a4501ddfe92f46681b20a1",
    "00000000000000000000000000000000ffffffffffffffffffffffffffffffff",
];

pub const NONCES: [&str; 4] = [
    "1f1e1d1c1b1a191817161514131211100f0e0d0c0b0a09080706050403020100",
    "0000000000000000000000000000000000000000000000000000000000000001",
    "fffffffffffffffffffffffffffffffebaaedce6af48a03bbfd25e8cd0364140",
    "5a8279996ed9eba18f1bbcdcca62c1d6243f6a8885a308d313198a2e03707344",
];

pub const PREFIXES: [u8; 4] = [0x00, 0x6f, 0x05, 0xff];
pub const MSG_LENS: [usize; 9] = [0, 1, 2, 252, 253, 254, 65535, 65536, 65537];
const MAGIC: &[u8] = b"Bitcoin Signed Message:\n";
const ENTRY_POINTS: [&str; 4] = ["BSM::verify_message", "BSM::is_valid_message", "P2PKHAddress::verify_bitcoin_message", "P2PKHAddress::is_valid_bitcoin_message"];

/// The digest a Bitcoin Signed Message signature signs.
fn bsm_digest(msg: &[u8]) -> [u8; 32] {
    let mut b = wire::cs_encode(MAGIC.len() as u64);
    b.extend_from_slice(MAGIC);
    b.extend_from_slice(&wire::cs_encode(msg.len() as u64));
    b.extend_from_slice(msg);
    hashes::sha256d(&b)
}

struct KeyRow {
    hex: &'static str,
    q: secp::Point,
    /// HASH160 of the SEC1 encoding, [uncompressed, compressed]
    h160: [[u8; 20]; 2],
}

fn key_rows(n: usize) -> Vec<KeyRow> {
    KEYS[..n]
        .iter()
        .map(|h| {
            let d = secp::from_be(&hex::decode(h).unwrap());
            let q = secp::mul_g(&d);
            let h160 = [hashes::hash160(&secp::encode_point(&q, false)), hashes::hash160(&secp::encode_point(&q, true))];
            KeyRow { hex: h, q, h160 }
        })
        .collect()
}

fn messages() -> Vec<Vec<u8>> {
    let mut v = vec![];
    for l in MSG_LENS {
        if l == 0 {
            v.push(vec![]);
            continue;
        }
        v.push(pattern(2, l));
        v.push(pattern(5, l));
    }
    // content classes: messages that themselves look like the framing the library adds (length byte + magic, the magic
    // alone, a complete framed preimage, the magic followed by a compact size) - the digest must still be over the
    // framed message, whatever the message starts with
    let mut framed = wire::cs_encode(MAGIC.len() as u64);
    framed.extend_from_slice(MAGIC);
    v.push(framed.clone());
    v.push(MAGIC.to_vec());
    let inner = b"hello".to_vec();
    let mut full = framed.clone();
    full.extend_from_slice(&wire::cs_encode(inner.len() as u64));
    full.extend_from_slice(&inner);
    v.push(full.clone());
    let mut twice = framed.clone();
    twice.extend_from_slice(&wire::cs_encode(full.len() as u64));
    twice.extend_from_slice(&full);
    v.push(twice);
    let mut m = MAGIC.to_vec();
    m.extend_from_slice(&[0xfd, 0x00, 0x01]);
    v.push(m);
    v.push(vec![0x18]);
    v.push(vec![0xfd, 0xfd, 0x00]);
    v
}

/// signer index of the digest-level entry point: the caller frames and hashes the message, the library signs the digest
const DIGEST_SIGNER: u64 = 99;

fn signer_name(s: u64) -> String {
    match s {
        0 => "BSM::sign_message".into(),
        DIGEST_SIGNER => "ECDSA::sign_digest_with_deterministic_k(SHA256d(framed message))".into(),
        n => format!("BSM::sign_message_with_k(k={})", NONCES[n as usize - 1]),
    }
}

fn signer_key(s: u64) -> &'static str {
    if s == 0 {
        "sign_message"
    } else if s == DIGEST_SIGNER {
        "sign_digest_with_deterministic_k"
    } else {
        "sign_message_with_k"
    }
}

fn lib_sign(row: &KeyRow, comp: bool, msg: &[u8], signer: u64) -> Result<Result<Signature, String>, String> {
    guard(|| {
        let pk = PrivateKey::from_hex(row.hex).map_err(|e| e.to_string())?.compress_public_key(comp);
        match signer {
            0 => BSM::sign_message(&pk, msg),
            DIGEST_SIGNER => bsv::ECDSA::sign_digest_with_deterministic_k(&pk, &bsm_digest(msg)),
            n => {
                let k = PrivateKey::from_hex(NONCES[n as usize - 1]).map_err(|e| e.to_string())?;
                BSM::sign_message_with_k(&pk, &k, msg)
            }
        }
        .map_err(|e| e.to_string())
    })
}

/// Address of (key, form) under `prefix`, built through the library and checked against the reference.
fn lib_address(acc: &mut Acc, row: &KeyRow, comp: bool, prefix: u8) -> Option<P2PKHAddress> {
    let h = row.h160[comp as usize];
    acc.transitions += 2;
    let built = guard(|| {
        let pk = PrivateKey::from_hex(row.hex).map_err(|e| e.to_string())?.compress_public_key(comp);
        let cp = ChainParams::new(prefix, 0x05, 0x80, 0x0488b21e, 0x0488ade4, 0xe3e1f3e8);
        let a = P2PKHAddress::from_pubkey(&PublicKey::from_private_key(&pk)).map_err(|e| e.to_string())?.set_chain_params(&cp).map_err(|e| e.to_string())?;
        let b = P2PKHAddress::from_pubkey_hash(&h).map_err(|e| e.to_string())?.set_chain_params(&cp).map_err(|e| e.to_string())?;
        let s = a.to_string().map_err(|e| e.to_string())?;
        Ok::<_, String>((a, b, s))
    });
    match built {
        Ok(Ok((a, b, s))) => {
            if a != b || s != b58::address_encode(prefix, &h) {
                // address derivation is C07's subject; verify against the address of the reference hash
                acc.bump("address_from_pubkey_differs_from_reference", 1);
                Some(b)
            } else {
                Some(a)
            }
        }
        _ => {
            acc.bump("address_construction_failed_case_skipped", 1);
            None
        }
    }
}

#[derive(Clone, PartialEq, Debug)]
enum Out {
    True,
    False(String),
    Panic(String),
}

fn verify4(acc: &mut Acc, msg: &[u8], sig: &Signature, addr: &P2PKHAddress) -> [Out; 4] {
    acc.transitions += 4;
    let r = |x: Result<Result<bool, String>, String>| match x {
        Ok(Ok(true)) => Out::True,
        Ok(Ok(false)) => Out::False("false".into()),
        Ok(Err(e)) => Out::False(e),
        Err(p) => Out::Panic(p),
    };
    [
        r(guard(|| BSM::verify_message(msg, sig, addr).map_err(|e| e.to_string()))),
        r(guard(|| Ok(BSM::is_valid_message(msg, sig, addr)))),
        r(guard(|| addr.verify_bitcoin_message(msg, sig).map_err(|e| e.to_string()))),
        r(guard(|| Ok(addr.is_valid_bitcoin_message(msg, sig)))),
    ]
}

struct V<'a, 'b> {
    acc: &'a mut Acc,
    case: &'a Case<'b>,
    input: &'a dyn Fn() -> Value,
}

impl<'a, 'b> V<'a, 'b> {
    fn bad(&mut self, key: &str, detail: String) {
        self.acc.violate(format!("C12/{}", key), self.case.idx, self.case.json((self.input)()), detail);
    }

    /// Panics are violations under the entry point's own key; returns Some(accepted) when all four agree.
    fn settle(&mut self, outs: &[Out; 4], what: &str) -> Option<bool> {
        let mut any_panic = false;
        for (i, o) in outs.iter().enumerate() {
            if let Out::Panic(p) = o {
                any_panic = true;
                self.bad(&format!("{}/kind=panic@{}", ENTRY_POINTS[i], panic_site(p)), format!("{}: {}", what, p));
            }
        }
        if any_panic {
            return None;
        }
        let t: Vec<bool> = outs.iter().map(|o| *o == Out::True).collect();
        if t.iter().any(|x| *x != t[0]) {
            self.bad("verify/kind=entry-points-disagree", format!("{}: {:?}", what, ENTRY_POINTS.iter().zip(t.iter()).collect::<Vec<_>>()));
            return None;
        }
        Some(t[0])
    }
}

fn prefix_class(p: u8) -> &'static str {
    if p == 0 {
        "mainnet"
    } else {
        "non-mainnet"
    }
}

/// Would a correct verifier accept the 65 compact bytes `cb` over digest `z` for the address hash `h160`?
fn ref_accepts(cb: &[u8], z: &BigUint, h160: &[u8; 20]) -> bool {
    if cb.len() != 65 || !(27..=34).contains(&cb[0]) {
        return false;
    }
    let recid = (cb[0] - 27) & 3;
    let comp = cb[0] >= 31;
    let r = secp::from_be(&cb[1..33]);
    let s = secp::from_be(&cb[33..65]);
    match secp::recover(z, &r, &s, recid) {
        None => false,
        Some(q) => hashes::hash160(&secp::encode_point(&q, comp)) == *h160 && secp::verify(&q, z, &r, &s),
    }
}

// ------------------------------------------------------------------ positive leg

fn positive_case(case: &Case, acc: &mut Acc, row: &KeyRow, comp: bool, msg: &[u8], signer: u64) {
    acc.evaluations += 1;
    let input = || json!({"key": row.hex, "compressed": comp, "message": hx(msg), "message_len": msg.len(), "signer": signer_name(signer)});
    let mut v = V { acc, case, input: &input };
    v.acc.transitions += 1;
    let sig = match lib_sign(row, comp, msg, signer) {
        Ok(Ok(s)) => s,
        Ok(Err(e)) => {
            v.acc.outcome(b"sign-err");
            v.bad(&format!("{}/kind=spurious-error", signer_key(signer)), e);
            return;
        }
        Err(p) => {
            v.acc.outcome(b"sign-panic");
            v.bad(&format!("{}/kind=panic@{}", signer_key(signer), panic_site(&p)), p);
            return;
        }
    };
    v.acc.nontrivial_structural += 1;
    let (r32, s32) = (sig.r(), sig.s());
    let (r, s) = (secp::from_be(&r32), secp::from_be(&s32));
    let z32 = bsm_digest(msg);
    let z = secp::from_be(&z32);
    // the signed digest is the independently computed one
    v.acc.traces += 1;
    let digest_ok = secp::verify(&row.q, &z, &r, &s);
    v.acc.outcome(&[b'd', digest_ok as u8]);
    if !digest_ok {
        v.bad(
            &format!("{}/signed-digest/len-prefix-width={}/kind=wrong-result", signer_key(signer), wire::cs_encode(msg.len() as u64).len()),
            format!("(r={}, s={}) does not verify under the signer's key for sha256d(cs(24)||magic||cs({})||msg) = {}", hx(&r32), hx(&s32), msg.len(), hx(&z32)),
        );
    }
    // compact form: compression marker and recovery id
    v.acc.transitions += 1;
    let cb = match guard(|| sig.to_compact_bytes(None)) {
        Ok(b) => b,
        Err(p) => {
            v.bad(&format!("to_compact_bytes/kind=panic@{}", panic_site(&p)), p);
            return;
        }
    };
    v.acc.traces += 1;
    if cb.len() != 65 || cb[1..33] != r32[..] || cb[33..65] != s32[..] || !(27..=34).contains(&cb[0]) {
        v.bad("to_compact_bytes/kind=wrong-result", format!("compact bytes {} for r={} s={}", hx(&cb), hx(&r32), hx(&s32)));
        return;
    }
    let marker = cb[0] >= 31;
    let recid = (cb[0] - 27) & 3;
    v.acc.outcome(&[b'h', cb[0]]);
    if marker != comp {
        v.bad("to_compact_bytes/kind=compression-marker-wrong", format!("header {} says compressed={}, signing key compressed={}", cb[0], marker, comp));
    }
    if digest_ok {
        v.acc.traces += 1;
        let rec = secp::recover(&z, &r, &s, recid);
        if rec.as_ref() != Some(&row.q) {
            v.bad("to_compact_bytes/kind=recovery-id-does-not-recover-signer", format!("header {} (recid {}): the reference recovers {:?}", cb[0], recid, rec.map(|p| hex::encode(secp::encode_point(&p, true)))));
        }
    }
    // both recovery entry points return the signer's key in the recorded form
    if digest_ok {
        v.acc.transitions += 2;
        let want = secp::encode_point(&row.q, marker);
        for (name, got) in [("recover_public_key_from_digest", guard(|| sig.recover_public_key_from_digest(&z32).and_then(|k| k.to_bytes()).map_err(|e| e.to_string())))] {
            match got {
                Ok(Ok(k)) if k == want => {}
                Ok(other) => v.bad(&format!("{}/kind=wrong-result", name), format!("{:?}; the signer's key in the recorded form is {}", other.map(|k| hx(&k)), hx(&want))),
                Err(p) => v.bad(&format!("{}/kind=panic@{}", name, panic_site(&p)), p),
            }
        }
    }
    // round trip through the 65-byte encoding
    v.acc.transitions += 2;
    let sig2 = match guard(|| Signature::from_compact_bytes(&cb).map(|s2| (s2.to_compact_bytes(None), s2)).map_err(|e| e.to_string())) {
        Ok(Ok((again, s2))) => {
            v.acc.traces += 1;
            if again != cb {
                v.bad("compact-roundtrip/kind=wrong-result", format!("{} re-serialises as {}", hx(&cb), hx(&again)));
            }
            Some(s2)
        }
        Ok(Err(e)) => {
            v.bad("compact-roundtrip/kind=spurious-error", format!("from_compact_bytes({}): {}", hx(&cb), e));
            None
        }
        Err(p) => {
            v.bad(&format!("compact-roundtrip/kind=panic@{}", panic_site(&p)), p);
            None
        }
    };
    // verification against the signer's address under every prefix
    for prefix in PREFIXES {
        let Some(addr) = lib_address(v.acc, row, comp, prefix) else { continue };
        v.acc.traces += 1;
        let direct = verify4(v.acc, msg, &sig, &addr);
        let what = format!("prefix 0x{:02x}, address {}", prefix, b58::address_encode(prefix, &row.h160[comp as usize]));
        let d = v.settle(&direct, &what);
        v.acc.outcome(&[b'p', prefix_class(prefix).len() as u8, d.map(|x| x as u8).unwrap_or(2)]);
        if d == Some(false) {
            v.bad(&format!("verify/prefix={}/kind=spurious-error", prefix_class(prefix)), format!("{}: own signature rejected: {:?}", what, direct[0]));
        }
        if let Some(s2) = &sig2 {
            v.acc.traces += 1;
            let rt = verify4(v.acc, msg, s2, &addr);
            let e = v.settle(&rt, &format!("{} (after compact round trip)", what));
            if e == Some(false) && d == Some(true) {
                v.bad(&format!("verify-after-compact-roundtrip/prefix={}/kind=spurious-error", prefix_class(prefix)), format!("{}: rejected after from_compact_bytes(to_compact_bytes(None)): {:?}", what, rt[0]));
            }
        }
    }
    // verification call histories on ONE signature object: what was checked before must not change the answer.
    // (a) an altered message first (must be rejected), then the signed message (must be accepted);
    // (b) the signed message first, then the altered one (must be rejected) - on the signed object and on one parsed
    // from the compact bytes
    if let Some(addr) = lib_address(v.acc, row, comp, PREFIXES[0]) {
        let mut altered = msg.to_vec();
        altered.push(0x2e);
        let fresh = guard(|| Signature::from_compact_bytes(&cb).ok()).ok().flatten();
        let objs: Vec<(&str, Option<Signature>)> = vec![("signed object", Some(sig.clone())), ("compact-parsed object", fresh)];
        for (label, o) in objs {
            let Some(o) = o else { continue };
            v.acc.traces += 2;
            let first = verify4(v.acc, &altered, &o, &addr);
            let second = verify4(v.acc, msg, &o, &addr);
            let a = v.settle(&first, &format!("{}: altered message, first call", label));
            let b = v.settle(&second, &format!("{}: signed message after the altered one", label));
            if a == Some(true) {
                v.bad("verify/history/kind=missing-error", format!("{}: the message with one byte appended is accepted", label));
            }
            if b == Some(false) {
                v.bad("verify/history/altered-then-signed/kind=spurious-error", format!("{}: own signature rejected after the same object was checked against an altered message: {:?}", label, second[0]));
            }
            let third = verify4(v.acc, &altered, &o, &addr);
            if v.settle(&third, &format!("{}: altered message after the signed one", label)) == Some(true) {
                v.bad("verify/history/signed-then-altered/kind=missing-error", format!("{}: the altered message is accepted after the same object verified the signed one", label));
            }
        }
    }
}

// ------------------------------------------------------------------ negative legs

/// Library verdict on (msg, sig, addr) must be a rejection unless the reference accepts.
fn expect_reject(v: &mut V, key: &str, what: &str, msg: &[u8], sig: &Signature, addr: &P2PKHAddress, ref_ok: bool, judged: bool) {
    v.acc.traces += 1;
    let outs = verify4(v.acc, msg, sig, addr);
    let Some(acc_lib) = v.settle(&outs, what) else { return };
    v.acc.outcome(&[b'n', acc_lib as u8, ref_ok as u8]);
    match (acc_lib, ref_ok) {
        (true, false) if judged => v.bad(&format!("verify/{}/kind=missing-error", key), format!("{}: accepted by all four entry points; the reference recovery does not lead to this address", what)),
        (true, false) => v.acc.bump(&format!("unjudged_{}_accepted", key), 1),
        (false, true) => v.acc.bump("reference_accepts_library_rejects_negative_leg", 1),
        _ => {}
    }
}

const NEG_MSG: [u8; 2] = [0x42, 0x53];

fn sign_or_skip(acc: &mut Acc, row: &KeyRow, comp: bool, msg: &[u8]) -> Option<(Signature, Vec<u8>)> {
    acc.transitions += 2;
    match lib_sign(row, comp, msg, 0) {
        Ok(Ok(s)) => match guard(|| s.to_compact_bytes(None)) {
            Ok(cb) if cb.len() == 65 => Some((s, cb)),
            _ => {
                acc.bump("negative_leg_skipped_no_compact_bytes", 1);
                None
            }
        },
        _ => {
            // reported by the positive leg
            acc.bump("negative_leg_skipped_signing_failed", 1);
            acc.outcome(b"nosig");
            None
        }
    }
}


// ------------------------------------------------------------------ long messages

/// Keys (indices into KEYS) of the long-message spaces.
const LONG_KEYS: [usize; 4] = [3, 6, 1, 9];
const MAX_LONG: usize = (1 << 22) + 64;

/// Aperiodic message bytes (a periodic pattern would hide swapped, repeated or skipped blocks);
/// the message of length l is the first l bytes.
fn long_bytes(len: usize) -> Vec<u8> {
    (0..len as u64).map(|i| ((i + 1).wrapping_mul(0x9E37_79B9_7F4A_7C15) >> 56) as u8).collect()
}

/// Length of cs(24) || magic || cs(l) || msg.
fn preimage_len(l: usize) -> usize {
    1 + MAGIC.len() + wire::cs_encode(l as u64).len() + l
}

/// Named size class of the prefixed preimage (discriminator of the long-message violation keys).
fn size_class(l: usize) -> &'static str {
    match preimage_len(l) {
        0..=4096 => "le-4KiB",
        4097..=65536 => "le-64KiB",
        65537..=1048576 => "le-1MiB",
        _ => "gt-1MiB",
    }
}

/// Message lengths for which the message itself or the whole prefixed preimage is b-1, b or b+1 bytes long.
fn around(b: usize) -> Vec<usize> {
    (b.saturating_sub(40)..=b + 1).filter(|l| (b - 1..=b + 1).contains(l) || (b - 1..=b + 1).contains(&preimage_len(*l))).collect()
}

fn sorted(mut v: Vec<usize>) -> Vec<usize> {
    v.sort();
    v.dedup();
    v
}

/// long-messages: every length 0..=130 (all SHA-256 block and padding boundaries of the first three blocks of
/// the preimage), both sides of powers of two up to 2^17 (2^19 thorough), a few lengths in between.
fn long_lens(tier: Tier) -> Vec<usize> {
    let mut v: Vec<usize> = (0..=130).collect();
    v.extend([300, 1000, 70000]);
    let pows: &[u32] = if tier.is_thorough() { &[8, 9, 10, 11, 12, 13, 14, 15, 16, 17, 18, 19] } else { &[12, 14, 17] };
    for p in pows {
        v.extend(around(1usize << p));
    }
    if tier.is_thorough() {
        v.extend([200_000, 300_001, 777_777]);
    }
    sorted(v)
}

/// huge-messages: both sides of the point where the message / the prefixed preimage crosses 2^20 (and 2^21, 3*2^19, 2^22
/// thorough), and lengths that are no multiple of anything in between.
fn huge_lens(tier: Tier) -> Vec<usize> {
    let mut v = around(1 << 20);
    v.extend([(1 << 20) + 4097, 1_500_000, (1 << 21) + 13]);
    if tier.is_thorough() {
        v.extend(around(1 << 21));
        v.extend(around(3 << 19));
        v.extend(around(1 << 22));
        v.extend([(1 << 20) + 64, (1 << 20) + 65537, 2_500_000, (3 << 20) + 4097]);
    }
    sorted(v)
}

const VARIANTS: [(&str, &str); 6] = [
    ("first-byte-flipped", "head"),
    ("middle-byte-flipped", "middle"),
    ("last-byte-flipped", "tail"),
    ("last-byte-dropped", "tail"),
    ("last-100-bytes-dropped", "tail"),
    ("one-byte-appended", "tail"),
];

/// The i-th altered message, None when it does not exist for this length or equals another variant.
fn variant(msg: &[u8], i: usize) -> Option<Vec<u8>> {
    let n = msg.len();
    let mut m = msg.to_vec();
    match i {
        0 if n >= 2 => m[0] ^= 0x01,
        1 if n >= 3 => m[n / 2] ^= 0x10,
        2 if n >= 1 => m[n - 1] ^= 0x80,
        3 if n >= 1 => m.truncate(n - 1),
        4 if n >= 101 => m.truncate(n - 100),
        5 => m.push(0x00),
        _ => return None,
    }
    Some(m)
}

/// One (key, form, length, signer) case of the long-message spaces: the signed digest is the independently
/// computed one, the library accepts its own signature, and it rejects the signature for every altered message
/// that the reference rejects.
fn long_case(case: &Case, acc: &mut Acc, row: &KeyRow, comp: bool, msg: &[u8], signer: u64) {
    acc.evaluations += 1;
    let class = size_class(msg.len());
    let input = || json!({"key": row.hex, "compressed": comp, "message": hx(msg), "message_len": msg.len(), "preimage_len": preimage_len(msg.len()), "message_bytes": "byte i = ((i+1) * 0x9E3779B97F4A7C15 mod 2^64) >> 56", "signer": signer_name(signer), "prefix": 0});
    let mut v = V { acc, case, input: &input };
    v.acc.transitions += 1;
    let sig = match lib_sign(row, comp, msg, signer) {
        Ok(Ok(s)) => s,
        Ok(Err(e)) => {
            v.acc.outcome(b"sign-err");
            v.bad(&format!("{}/preimage={}/kind=spurious-error", signer_key(signer), class), e);
            return;
        }
        Err(p) => {
            v.acc.outcome(b"sign-panic");
            v.bad(&format!("{}/preimage={}/kind=panic@{}", signer_key(signer), class, panic_site(&p)), p);
            return;
        }
    };
    v.acc.nontrivial_structural += 1;
    let (r32, s32) = (sig.r(), sig.s());
    let (r, s) = (secp::from_be(&r32), secp::from_be(&s32));
    let z32 = bsm_digest(msg);
    let z = secp::from_be(&z32);
    v.acc.traces += 1;
    let digest_ok = secp::verify(&row.q, &z, &r, &s);
    v.acc.outcome(&[b'D', digest_ok as u8]);
    if !digest_ok {
        v.bad(
            &format!("{}/signed-digest/preimage={}/kind=wrong-result", signer_key(signer), class),
            format!("(r={}, s={}) does not verify under the signer's key for sha256d(cs(24)||magic||cs({})||msg) = {} (preimage of {} bytes)", hx(&r32), hx(&s32), msg.len(), hx(&z32), preimage_len(msg.len())),
        );
    }
    v.acc.transitions += 1;
    let cb = match guard(|| sig.to_compact_bytes(None)) {
        Ok(b) if b.len() == 65 => b,
        _ => {
            // reported by the positive space
            v.acc.bump("long_case_no_compact_bytes", 1);
            return;
        }
    };
    let Some(addr) = lib_address(v.acc, row, comp, 0x00) else { return };
    let h160 = &row.h160[comp as usize];
    // own signature, own address
    v.acc.traces += 1;
    let own = verify4(v.acc, msg, &sig, &addr);
    let what = format!("message of {} bytes, address {}", msg.len(), b58::address_encode(0x00, h160));
    let d = v.settle(&own, &what);
    v.acc.outcome(&[b'P', d.map(|x| x as u8).unwrap_or(2)]);
    if d == Some(false) && ref_accepts(&cb, &z, h160) {
        v.bad(&format!("verify/prefix=mainnet/preimage={}/kind=spurious-error", class), format!("{}: own signature rejected: {:?}", what, own[0]));
    }
    // altered messages
    for (i, (name, region)) in VARIANTS.iter().enumerate() {
        let Some(other) = variant(msg, i) else { continue };
        let z2 = secp::from_be(&bsm_digest(&other));
        let ref_ok = ref_accepts(&cb, &z2, h160);
        expect_reject(&mut v, &format!("other-message/region={}/preimage={}", region, class), &format!("{} ({} -> {} bytes)", name, msg.len(), other.len()), &other, &sig, &addr, ref_ok, true);
    }
}

pub fn spaces(tier: Tier) -> Vec<Space> {
    let mut v = vec![];
    let nk: u64 = if tier.is_thorough() { 12 } else { 8 };
    let nsign: u64 = if tier.is_thorough() { 5 } else { 3 };
    let rows = Arc::new(key_rows(nk as usize));
    let msgs = Arc::new(messages());
    let nm = msgs.len() as u64;

    // 1. positive: key x form x message x signer; inside: 4 prefixes x {direct, after compact round trip} x 4 entry points
    {
        let (rows, msgs) = (rows.clone(), msgs.clone());
        v.push(Space::new("positive", nk * 2 * nm * (nsign + 1), move |case, acc| {
            let mut c = coords(case.idx, &[nk, 2, nm, nsign + 1]);
            if c[3] == nsign {
                c[3] = DIGEST_SIGNER;
            }
            let row = &rows[c[0] as usize];
            let msg = &msgs[c[2] as usize];
            if case.idx % 271 == 3 {
                acc.sample(case.idx / 271, || json!({"space": "positive", "idx": case.idx, "key": row.hex, "compressed": c[1] == 1, "message_len": msg.len(), "signer": signer_name(c[3]), "prefixes": PREFIXES}));
            }
            positive_case(case, acc, row, c[1] == 1, msg, c[3]);
        }));
    }
    // 2. other message: every single-bit flip of a 2-byte message, and the message one byte longer
    {
        let rows = rows.clone();
        v.push(Space::new("neg-message", nk * 2 * 17 * 2, move |case, acc| {
            let c = coords(case.idx, &[nk, 2, 17, 2]);
            let row = &rows[c[0] as usize];
            let comp = c[1] == 1;
            let prefix = PREFIXES[c[3] as usize];
            acc.evaluations += 1;
            let mut other = NEG_MSG.to_vec();
            let what = if c[2] < 16 {
                other[(c[2] / 8) as usize] ^= 1 << (c[2] % 8);
                format!("bit {} of the message flipped", c[2])
            } else {
                other.push(0);
                "message one byte longer".to_string()
            };
            let input = || json!({"key": row.hex, "compressed": comp, "signed_message": hex::encode(NEG_MSG), "verified_message": hex::encode(&other), "prefix": prefix});
            if case.idx % 263 == 9 {
                acc.sample(case.idx / 263, || json!({"space": "neg-message", "idx": case.idx, "key": row.hex, "compressed": comp, "signed_message": hex::encode(NEG_MSG), "verified_message": hex::encode(&other), "prefix": prefix}));
            }
            let Some((sig, cb)) = sign_or_skip(acc, row, comp, &NEG_MSG) else { return };
            let Some(addr) = lib_address(acc, row, comp, prefix) else { return };
            acc.nontrivial_structural += 1;
            let z2 = secp::from_be(&bsm_digest(&other));
            let ref_ok = ref_accepts(&cb, &z2, &row.h160[comp as usize]);
            let mut vv = V { acc, case, input: &input };
            expect_reject(&mut vv, "other-message", &what, &other, &sig, &addr, ref_ok, true);
        }));
    }
    // 3. other address: every other (key, form)
    {
        let rows = rows.clone();
        v.push(Space::new("neg-address", nk * 2 * nk * 2 * 2 * 2, move |case, acc| {
            let c = coords(case.idx, &[nk, 2, nk, 2, 2, 2]);
            if c[0] == c[2] && c[1] == c[3] {
                return;
            }
            let (row, comp) = (&rows[c[0] as usize], c[1] == 1);
            let (orow, ocomp) = (&rows[c[2] as usize], c[3] == 1);
            let msg: Vec<u8> = if c[4] == 0 { vec![] } else { NEG_MSG.to_vec() };
            let prefix = PREFIXES[c[5] as usize];
            acc.evaluations += 1;
            let input = || json!({"key": row.hex, "compressed": comp, "message": hex::encode(&msg), "address_of_key": orow.hex, "address_compressed": ocomp, "prefix": prefix});
            let Some((sig, cb)) = sign_or_skip(acc, row, comp, &msg) else { return };
            let Some(addr) = lib_address(acc, orow, ocomp, prefix) else { return };
            acc.nontrivial_structural += 1;
            let z = secp::from_be(&bsm_digest(&msg));
            let ref_ok = ref_accepts(&cb, &z, &orow.h160[ocomp as usize]);
            let same_key = c[0] == c[2];
            let mut vv = V { acc, case, input: &input };
            let what = format!("address {} of {}", b58::address_encode(prefix, &orow.h160[ocomp as usize]), if same_key { "the same key in the other compression form" } else { "another key" });
            // the statement speaks of addresses of *other keys*; the same key's other-form address is recorded only
            expect_reject(&mut vv, if same_key { "same-key-other-form-address" } else { "other-key-address" }, &what, &msg, &sig, &addr, ref_ok, !same_key);
        }));
    }
    // 4. every single-bit flip of the 65 compact bytes
    {
        let rows = rows.clone();
        let nk4: u64 = if tier.is_thorough() { 8 } else { 4 };
        let np: u64 = if tier.is_thorough() { 2 } else { 1 };
        v.push(Space::new("neg-sigbits", nk4 * 2 * 520 * np, move |case, acc| {
            let c = coords(case.idx, &[nk4, 2, 520, np]);
            let (row, comp) = (&rows[c[0] as usize], c[1] == 1);
            let prefix = PREFIXES[c[3] as usize];
            let bit = c[2] as usize;
            acc.evaluations += 1;
            let Some((_, cb)) = sign_or_skip(acc, row, comp, &NEG_MSG) else { return };
            let mut bad = cb.clone();
            bad[bit / 8] ^= 1 << (bit % 8);
            let part = match bit / 8 {
                0 => "header",
                1..=32 => "r",
                _ => "s",
            };
            let input = || json!({"key": row.hex, "compressed": comp, "message": hex::encode(NEG_MSG), "compact": hex::encode(&cb), "flipped_bit": bit, "corrupted": hex::encode(&bad), "prefix": prefix});
            if case.idx % 2003 == 77 {
                acc.sample(case.idx / 2003, || json!({"space": "neg-sigbits", "idx": case.idx, "key": row.hex, "compressed": comp, "flipped_bit": bit, "corrupted": hex::encode(&bad)}));
            }
            let z = secp::from_be(&bsm_digest(&NEG_MSG));
            let ref_ok = ref_accepts(&bad, &z, &row.h160[comp as usize]);
            acc.transitions += 1;
            acc.nontrivial_structural += 1;
            let sig2 = match guard(|| Signature::from_compact_bytes(&bad).map_err(|e| e.to_string())) {
                Ok(Ok(s)) => s,
                Ok(Err(_)) => {
                    acc.traces += 1;
                    acc.outcome(b"parse-err");
                    if ref_ok {
                        acc.bump("reference_accepts_library_rejects_negative_leg", 1);
                    }
                    return;
                }
                Err(_) => {
                    acc.traces += 1;
                    acc.outcome(b"parse-panic");
                    acc.bump("panics_left_to_C09", 1);
                    return;
                }
            };
            let mut ref_ok = ref_ok;
            if !(27..=34).contains(&bad[0]) {
                // The statement fixes the eight headers the library writes (27 + recovery id + 4 * compressed); what another
                // header byte means, if the parser takes it at all, is not prescribed (BIP137 reads 35..=42 as further
                // address types with the same recovery data). The verdict is then judged on what the parser says it read:
                // the parsed signature's own canonical compact form (negative control C06-n9-2; a false alarm before).
                acc.bump("compact_header_outside_27_34_accepted_by_parser", 1);
                match guard(|| sig2.to_compact_bytes(None)) {
                    Ok(norm) if norm.len() == 65 && (27..=34).contains(&norm[0]) => ref_ok = ref_accepts(&norm, &z, &row.h160[comp as usize]),
                    _ => {}
                }
            }
            let Some(addr) = lib_address(acc, row, comp, prefix) else { return };
            let mut vv = V { acc, case, input: &input };
            expect_reject(&mut vv, &format!("corrupted-signature/part={}", part), &format!("bit {} ({}) of the compact signature flipped", bit, part), &NEG_MSG, &sig2, &addr, ref_ok, true);
        }));
    }
    // 5./6. long and huge messages: key x form x length x signer; inside: digest, own verification, 6 altered messages x 4 entry points
    {
        let big = Arc::new(long_bytes(MAX_LONG));
        let nkl: u64 = if tier.is_thorough() { 4 } else { 2 };
        for (name, lens, nk, nsig) in [("long-messages", long_lens(tier), nkl, 2u64), ("huge-messages", huge_lens(tier), nkl, 2u64)] {
            let rows = rows.clone();
            let big = big.clone();
            let nl = lens.len() as u64;
            v.push(Space::new(name, nk * 2 * nl * nsig, move |case, acc| {
                let c = coords(case.idx, &[nk, 2, nl, nsig]);
                let row = &rows[LONG_KEYS[c[0] as usize]];
                let msg = &big[..lens[c[2] as usize]];
                if case.idx % 397 == 5 {
                    acc.sample(case.idx / 397, || json!({"space": name, "idx": case.idx, "key": row.hex, "compressed": c[1] == 1, "message_len": msg.len(), "preimage_len": preimage_len(msg.len()), "signer": signer_name(c[3]), "altered": VARIANTS.iter().map(|x| x.0).collect::<Vec<_>>()}));
                }
                long_case(case, acc, row, c[1] == 1, msg, c[3]);
            }));
        }
    }
    v
}

fn run(ctx: &Ctx) -> Report {
    let mut r = Report::new(
        "full products: (positive) keys x {compressed, uncompressed} x 17 messages (9 lengths across the 253 and 65536 length-prefix boundaries x 2 patterns) x signers (sign_message, sign_message_with_k per nonce), each checked against the reference verifier on the independently computed digest, for compression marker and recovery id, and verified under 4 address prefixes x {direct, after from_compact_bytes(to_compact_bytes(None))} x 4 verification entry points; (neg-message) all 16 single-bit flips of a 2-byte message and the message one byte longer; (neg-address) every other (key, form) address; (neg-sigbits) all 520 single-bit flips of the compact signature; (long-messages, huge-messages) keys x {compressed, uncompressed} x message lengths x signers with aperiodic message bytes: every length 0..=130, both sides (b-1, b, b+1 for the message and for the whole prefixed preimage) of the powers of two b = 2^12, 2^14, 2^17, 2^20 (thorough: every power from 2^8 to 2^22 and 3*2^19) and lengths in between up to 2^21+13 (thorough 2^22+1): the signature verifies under the reference on the independently computed digest, is accepted by the 4 entry points for the signer's mainnet address, and is rejected for 6 altered messages (first/middle/last byte flipped, last byte dropped, last 100 bytes dropped, one byte appended) unless the reference accepts. Expected outcome of every negative case is computed by reference recovery + HASH160 + verification. Non-trivial = a signature was produced and its verification verdict compared; distinct by construction.",
    );
    let tier = ctx.tier;
    let nk = if tier.is_thorough() { 12 } else { 8 };
    let nsign: u64 = if tier.is_thorough() { 5 } else { 3 };
    r.bounds = json!({
        "keys": KEYS[..nk],
        "message_lengths": MSG_LENS,
        "message_patterns": 2,
        "signers": (0..nsign).map(signer_name).collect::<Vec<_>>(),
        "address_prefixes": PREFIXES.iter().map(|p| format!("0x{:02x}", p)).collect::<Vec<_>>(),
        "negative_message": hex::encode(NEG_MSG),
        "neg_sigbits_keys": if tier.is_thorough() { 8 } else { 4 },
        "neg_prefixes": ["0x00", "0x6f"],
        "deviation_bound": 1,
        "long_keys": LONG_KEYS[..if tier.is_thorough() { 4 } else { 2 }].iter().map(|i| KEYS[*i]).collect::<Vec<_>>(),
        "long_message_lengths": long_lens(tier),
        "huge_message_lengths": huge_lens(tier),
        "long_signers": {"long-messages": [signer_name(0), signer_name(1)], "huge-messages": [signer_name(0), signer_name(1)]},
        "long_message_bytes": "byte i = ((i+1) * 0x9E3779B97F4A7C15 mod 2^64) >> 56",
        "long_altered_messages": VARIANTS.iter().map(|x| x.0).collect::<Vec<_>>(),
        "long_prefix": "0x00",
    });
    r.assumptions.push("the four verification entry points must agree; Ok(false) and Err both count as rejection".into());
    r.assumptions.push("an address of the same key in the other compression form is not an address 'derived from any other key': acceptance there is counted, not judged".into());
    r.assumptions.push("a corrupted compact signature that panics in Signature::from_compact_bytes (header byte < 27) counts as rejected here; the panic is C09's subject (counter panics_left_to_C09)".into());
    r.assumptions.push("long-messages / huge-messages verify under the mainnet prefix only (prefix handling does not depend on the message; it is covered by the positive space)".into());
    r.assumptions.push("negative cases in which the reference itself accepts (never observed) are not judged".into());
    run_spaces(ctx, &mut r, spaces(tier));
    r
}

fn replay(case: &Value) -> Vec<(String, String)> {
    replay_spaces(spaces, case)
}
