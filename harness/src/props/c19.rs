//! C19 — script templates match what they describe; criteria select the right indices.
//!
//! Reference matcher (`ref_match`, written from the property statement): a script
//! matches a template iff both have the same number of elements and every element
//! satisfies its token. Templates are built as reference token lists (`TT`),
//! rendered to the template text by `render` and parsed by the real
//! `ScriptTemplate::from_asm_string`; scripts are reference token lists serialised
//! by refs::script and parsed by the real `Script::from_bytes`; the verdict and the
//! extracted values of the real `Script::matches` / `is_match` are compared with the
//! reference. Criteria: real `Transaction::match_output(s)` / `match_input(s)`
//! against the reference index list.
use super::c17::{self, Found};
use super::{hx, pattern, replay_spaces, run_spaces, Case, Prop, Space};
use crate::engine::{coords, guard, panic_site, Acc, Ctx, Report, Tier};
use crate::refs::script::{self as rs, Tok};
use crate::refs::secp as rsecp;
use bsv::{MatchCriteria, Script, ScriptTemplate, Transaction, TxIn, TxOut};
use num_bigint::BigUint;
use serde_json::{json, Value};
use std::sync::Arc;

pub const PROP: Prop = Prop {
    run,
    replay,
    spaces: Some(spaces),
    level_note: "trusted base: the reference matcher in props/c19.rs (element-wise predicate from the property statement), refs::secp::der_decode (BIP66 shape, 1 <= r,s < n) and refs::secp::decode_point (SEC1, on-curve) for the signature / public-key tokens, refs::script serializer; opcode names are learned from the implementation; templates, scripts and transactions outside the stated alphabets are not covered",
};

// ---------------------------------------------------------------------------
// reference model
// ---------------------------------------------------------------------------

#[derive(Clone, Copy, Debug, PartialEq, Eq)]
pub enum Tri {
    Yes,
    No,
    /// the statement does not decide
    Amb(&'static str),
}

#[derive(Clone, Copy, Debug, PartialEq, Eq)]
pub enum Cmp {
    Eq,
    Gt,
    Lt,
    Ge,
    Le,
}

impl Cmp {
    const ALL: [Cmp; 5] = [Cmp::Eq, Cmp::Gt, Cmp::Lt, Cmp::Ge, Cmp::Le];
    fn sym(self) -> &'static str {
        match self {
            Cmp::Eq => "=",
            Cmp::Gt => ">",
            Cmp::Lt => "<",
            Cmp::Ge => ">=",
            Cmp::Le => "<=",
        }
    }
    fn holds(self, len: usize, n: usize) -> bool {
        match self {
            Cmp::Eq => len == n,
            Cmp::Gt => len > n,
            Cmp::Lt => len < n,
            Cmp::Ge => len >= n,
            Cmp::Le => len <= n,
        }
    }
}

/// Template token.
#[derive(Clone, Debug, PartialEq)]
pub enum TT {
    /// exact opcode, written by name
    Op(u8),
    /// exact opcode OP_0 / OP_1..OP_16, written as the number 0..16
    Alias(u8),
    /// exact data, written as hex
    Data(Vec<u8>),
    /// OP_DATA
    Any,
    /// OP_DATA<cmp>N
    Len(Cmp, usize),
    Sig,
    PubKey,
    Pkh,
}

impl TT {
    fn render(&self, env: &c17::Env) -> String {
        match self {
            TT::Op(b) => env.names[*b as usize].clone().unwrap_or_else(|| format!("<op{:02x}>", b)),
            TT::Alias(n) => n.to_string(),
            TT::Data(d) => hex::encode(d),
            TT::Any => "OP_DATA".into(),
            TT::Len(c, n) => format!("OP_DATA{}{}", c.sym(), n),
            TT::Sig => "OP_SIG".into(),
            TT::PubKey => "OP_PUBKEY".into(),
            TT::Pkh => "OP_PUBKEYHASH".into(),
        }
    }
    fn kind(&self) -> String {
        match self {
            TT::Op(_) => "opcode-name".into(),
            TT::Alias(_) => "numeric-alias".into(),
            TT::Data(_) => "hex-data".into(),
            TT::Any => "OP_DATA".into(),
            TT::Len(c, _) => format!("OP_DATA{}N", c.sym()),
            TT::Sig => "OP_SIG".into(),
            TT::PubKey => "OP_PUBKEY".into(),
            TT::Pkh => "OP_PUBKEYHASH".into(),
        }
    }
    fn extract_kind(&self) -> Option<&'static str> {
        match self {
            TT::Any | TT::Len(_, _) => Some("Data"),
            TT::Sig => Some("Signature"),
            TT::PubKey => Some("PublicKey"),
            TT::Pkh => Some("PublicKeyHash"),
            _ => None,
        }
    }
}

/// sighash flag bytes everybody agrees on: {ALL, NONE, SINGLE} x {-, FORKID} x {-, ANYONECANPAY}
const STD_FLAGS: [u8; 12] = [0x01, 0x02, 0x03, 0x41, 0x42, 0x43, 0x81, 0x82, 0x83, 0xc1, 0xc2, 0xc3];

fn der_valid(d: &[u8]) -> bool {
    match rsecp::der_decode(d) {
        Some((r, s)) => {
            let n = rsecp::n();
            let one = BigUint::from(1u32);
            r >= one && r < n && s >= one && s < n
        }
        None => false,
    }
}

/// Does the payload decode as a signature: DER, optionally followed by one sighash flag byte.
pub fn sig_ok(d: &[u8]) -> Tri {
    if der_valid(d) {
        return Tri::Yes;
    }
    if d.len() >= 2 && der_valid(&d[..d.len() - 1]) {
        if STD_FLAGS.contains(&d[d.len() - 1]) {
            return Tri::Yes;
        }
        return Tri::Amb("DER followed by a byte that is not one of the twelve standard sighash flags");
    }
    Tri::No
}

/// One script element of the alphabet (a conditional block is one element of several tokens).
#[derive(Clone, Debug)]
pub struct Elem {
    pub label: String,
    pub class: &'static str,
    pub toks: Vec<Tok>,
    sig: Tri,
    key: bool,
}

impl Elem {
    fn new(label: &str, class: &'static str, toks: Vec<Tok>) -> Elem {
        let (sig, key) = match toks.as_slice() {
            [Tok::Push(d)] | [Tok::PushData(_, d)] => (sig_ok(d), rsecp::decode_point(d).is_some()),
            _ => (Tri::No, false),
        };
        Elem { label: label.to_string(), class, toks, sig, key }
    }
    fn is_cond(&self) -> bool {
        self.toks.len() != 1
    }
}

/// Does one flat script token satisfy one template token?
fn satisfies(tt: &TT, tok: &Tok, sig: Tri, key: bool) -> Tri {
    let (payload, minimal) = match tok {
        Tok::Op(b) => {
            return match tt {
                TT::Op(x) => {
                    if x == b {
                        Tri::Yes
                    } else {
                        Tri::No
                    }
                }
                TT::Alias(n) => {
                    if *b == (if *n == 0 { 0 } else { 0x50 + n }) {
                        Tri::Yes
                    } else {
                        Tri::No
                    }
                }
                TT::Any if *b == 0 => Tri::Amb("OP_0 against a data token"),
                TT::Len(c, n) if *b == 0 && c.holds(0, *n) => Tri::Amb("OP_0 against a data token"),
                _ => Tri::No,
            };
        }
        Tok::Push(d) => (d, rs::is_minimal(tok)),
        Tok::PushData(_, d) => (d, rs::is_minimal(tok)),
    };
    let typed = |ok: Tri| -> Tri {
        match ok {
            Tri::No => Tri::No,
            o if minimal => o,
            _ => Tri::Amb("non-minimal push against an exact-data / signature / key / hash token"),
        }
    };
    match tt {
        TT::Op(_) | TT::Alias(_) => Tri::No,
        // "exact data match only equal elements": a push of the same payload through a larger-than-necessary push opcode
        // is a different script element (a template derived from it records that opcode), so it does not match
        TT::Data(d) => {
            if d == payload && minimal {
                Tri::Yes
            } else {
                Tri::No
            }
        }
        TT::Any => Tri::Yes,
        TT::Len(c, n) => {
            if c.holds(payload.len(), *n) {
                Tri::Yes
            } else {
                Tri::No
            }
        }
        TT::Sig => typed(sig),
        TT::PubKey => typed(if key { Tri::Yes } else { Tri::No }),
        TT::Pkh => typed(if payload.len() == 20 { Tri::Yes } else { Tri::No }),
    }
}

#[derive(Clone, Debug, PartialEq)]
pub enum RefRes {
    Match(Vec<(String, Vec<u8>)>),
    NoMatch,
    Amb(&'static str),
}

/// The reference matcher over flat tokens with per-token attributes.
fn ref_match_flat(tmpl: &[&TT], toks: &[(&Tok, Tri, bool)]) -> RefRes {
    if tmpl.len() != toks.len() {
        return RefRes::NoMatch;
    }
    let mut amb = None;
    let mut ex = vec![];
    for (tt, (tok, sig, key)) in tmpl.iter().zip(toks.iter()) {
        match satisfies(tt, tok, *sig, *key) {
            Tri::No => return RefRes::NoMatch,
            Tri::Amb(why) => amb = amb.or(Some(why)),
            Tri::Yes => {
                if let Some(k) = tt.extract_kind() {
                    let d = match tok {
                        Tok::Push(d) | Tok::PushData(_, d) => d.clone(),
                        Tok::Op(_) => vec![],
                    };
                    ex.push((k.to_string(), d));
                }
            }
        }
    }
    match amb {
        Some(w) => RefRes::Amb(w),
        None => RefRes::Match(ex),
    }
}

pub fn ref_match(tmpl: &[&TT], elems: &[&Elem]) -> RefRes {
    let flat: Vec<(&Tok, Tri, bool)> = elems.iter().flat_map(|e| e.toks.iter().map(move |t| (t, e.sig, e.key))).collect();
    let r = ref_match_flat(tmpl, &flat);
    if elems.iter().any(|e| e.is_cond()) && r != RefRes::NoMatch {
        // counting a conditional block as one element (which no token describes) says "no match",
        // counting its opcodes one by one says otherwise: the statement does not fix the unit
        return RefRes::Amb("what counts as an element of a script with a conditional block");
    }
    r
}

// ---------------------------------------------------------------------------
// library side
// ---------------------------------------------------------------------------

#[derive(Clone, Debug, PartialEq)]
enum LibRes {
    Match(Vec<(String, Vec<u8>)>),
    NoMatch(String),
    TemplateErr(String),
    ScriptErr(String),
    Panic(String),
}

fn lib_match(tmpl_text: &str, script_bytes: &[u8], acc: &mut Acc) -> (LibRes, Option<bool>) {
    acc.transitions += 2;
    let t = match guard(|| ScriptTemplate::from_asm_string(tmpl_text)) {
        Ok(Ok(t)) => t,
        Ok(Err(e)) => return (LibRes::TemplateErr(e.to_string()), None),
        Err(p) => return (LibRes::Panic(p), None),
    };
    let s = match guard(|| Script::from_bytes(script_bytes)) {
        Ok(Ok(s)) => s,
        Ok(Err(e)) => return (LibRes::ScriptErr(e.to_string()), None),
        Err(p) => return (LibRes::Panic(p), None),
    };
    acc.transitions += 2;
    let r = match guard(|| s.matches(&t)) {
        Ok(Ok(v)) => LibRes::Match(
            v.into_iter()
                .map(|(k, d)| {
                    // name the kind by matching on the variant (a renamed variant is then a build error, not a verdict)
                    let kind = match k {
                        bsv::MatchDataTypes::Data => "Data",
                        bsv::MatchDataTypes::Signature => "Signature",
                        bsv::MatchDataTypes::PublicKey => "PublicKey",
                        bsv::MatchDataTypes::PublicKeyHash => "PublicKeyHash",
                    };
                    (kind.to_string(), d)
                })
                .collect(),
        ),
        Ok(Err(e)) => {
            let m = e.to_string();
            LibRes::NoMatch(if m.len() > 120 { format!("{}…", &m[..m.char_indices().take(120).last().map(|x| x.0).unwrap_or(0)]) } else { m })
        }
        Err(p) => return (LibRes::Panic(p), None),
    };
    let b = guard(|| s.is_match(&t)).ok();
    (r, b)
}

fn show_ex(v: &[(String, Vec<u8>)]) -> String {
    format!("[{}]", v.iter().map(|(k, d)| format!("{}:{}", k, hx(d))).collect::<Vec<_>>().join(", "))
}

fn show_lib(l: &LibRes) -> String {
    match l {
        LibRes::Match(v) => format!("match {}", show_ex(v)),
        LibRes::NoMatch(e) => format!("no match ({})", e),
        LibRes::TemplateErr(e) => format!("template rejected ({})", e),
        LibRes::ScriptErr(e) => format!("script rejected ({})", e),
        LibRes::Panic(p) => format!("panic ({})", p),
    }
}

fn show_ref(r: &RefRes) -> String {
    match r {
        RefRes::Match(v) => format!("match {}", show_ex(v)),
        RefRes::NoMatch => "no match".into(),
        RefRes::Amb(w) => format!("undecided ({})", w),
    }
}

/// Compare one (template, script) pair. Returns the root-cause key of a divergence.
fn divergence(r: &RefRes, l: &LibRes, is_match: Option<bool>) -> Option<&'static str> {
    match (r, l) {
        (_, LibRes::Panic(_)) => Some("panic"),
        (_, LibRes::ScriptErr(_)) => None,
        (_, LibRes::TemplateErr(_)) => Some("valid-template-rejected"),
        (RefRes::Amb(_), _) => None,
        (RefRes::Match(a), LibRes::Match(b)) => {
            if a != b {
                Some("wrong-extraction")
            } else if is_match != Some(true) {
                Some("is_match-disagrees-with-matches")
            } else {
                None
            }
        }
        (RefRes::NoMatch, LibRes::NoMatch(_)) => {
            if is_match != Some(false) {
                Some("is_match-disagrees-with-matches")
            } else {
                None
            }
        }
        (RefRes::Match(_), LibRes::NoMatch(_)) => Some("missing-match"),
        (RefRes::NoMatch, LibRes::Match(_)) => Some("spurious-match"),
    }
}

/// Root-cause key of a one-token / one-element divergence.
fn single_key(tt: &TT, e: &Elem, d: &str, env: &c17::Env, acc: &mut Acc) -> String {
    if let TT::Data(x) = tt {
        // hex text "00".."09": does the library read it as the numeric alias 0..9?
        if x.len() == 1 && x[0] <= 9 {
            let alias_op = if x[0] == 0 { 0 } else { 0x50 + x[0] };
            if let (LibRes::Match(_), _) = lib_match(&tt.render(env), &[alias_op], acc) {
                return "C19/from_asm_string/kind=hex-data-00..09-read-as-numeric-alias".to_string();
            }
        }
    }
    format!("C19/matches/token={}/kind={}/elem={}", tt.kind(), d, elem_class_for(tt, e))
}

/// Element class as far as it can matter to the token: a length or hash token does not
/// care whether the push happens to be a key, a signature token not whether it is a key, ...
fn elem_class_for(tt: &TT, e: &Elem) -> &'static str {
    let is_sig = e.class.starts_with("sig-");
    let is_key = e.class.starts_with("key-");
    match tt {
        TT::Sig if is_key => "push",
        TT::PubKey if is_sig => "push",
        TT::Sig | TT::PubKey => e.class,
        _ if is_sig || is_key => "push",
        _ => e.class,
    }
}

fn eval_match(tmpl: &[&TT], elems: &[&Elem], env: &c17::Env, acc: &mut Acc, case: &Case) {
    acc.evaluations += 1;
    let text = tmpl.iter().map(|t| t.render(env)).collect::<Vec<_>>().join(" ");
    let toks: Vec<Tok> = elems.iter().flat_map(|e| e.toks.iter().cloned()).collect();
    let bytes = rs::serialize(&toks);
    let r = ref_match(tmpl, elems);
    let (l, im) = lib_match(&text, &bytes, acc);
    let input = || json!({"template": text, "script_hex": hx(&bytes), "elements": elems.iter().map(|e| e.label.clone()).collect::<Vec<_>>()});
    let oc = match &l {
        LibRes::Match(v) => 10 + v.len() as u8,
        LibRes::NoMatch(_) => 1,
        LibRes::TemplateErr(_) => 2,
        LibRes::ScriptErr(_) => 3,
        LibRes::Panic(_) => 4,
    };
    acc.outcome(&[b'm', oc, matches!(r, RefRes::Amb(_)) as u8, tmpl.len() as u8]);
    if let LibRes::ScriptErr(_) = l {
        acc.bump("premise_script_rejected_by_from_bytes", 1);
        return;
    }
    if let RefRes::Amb(w) = &r {
        acc.bump(&format!("excluded_undecided/{}", w), 1);
    } else {
        acc.traces += 1;
        acc.nontrivial_structural += 1;
    }
    let d = match divergence(&r, &l, im) {
        None => return,
        Some(d) => d,
    };
    let mut found = Found::new(case);
    if let LibRes::Panic(p) = &l {
        found.add(acc, &format!("C19/matches/kind=panic@{}", panic_site(p)), || p.clone());
        found.flush(acc, case, input);
        return;
    }
    if let LibRes::TemplateErr(e) = &l {
        // which token is refused on its own
        let culprit = tmpl.iter().find(|t| matches!(guard(|| ScriptTemplate::from_asm_string(&t.render(env)).is_err()), Ok(true) | Err(_)));
        let k = culprit.map(|t| t.kind()).unwrap_or_else(|| "only-in-composition".into());
        found.add(acc, &format!("C19/from_asm_string/kind=valid-template-rejected/token={}", k), || format!("template {:?}: {}", text, e));
        found.flush(acc, case, input);
        return;
    }
    // root cause: the first position whose one-token / one-element comparison already diverges
    let mut key = None;
    if tmpl.len() == elems.len() && (tmpl.len() > 1) {
        for (tt, e) in tmpl.iter().zip(elems.iter()) {
            let r1 = ref_match(&[*tt], &[*e]);
            let (l1, im1) = lib_match(&tt.render(env), &rs::serialize(&e.toks), acc);
            if let Some(d1) = divergence(&r1, &l1, im1) {
                key = Some(single_key(tt, e, d1, env, acc));
                break;
            }
        }
        if key.is_none() {
            key = Some(format!("C19/matches/kind={}/only-in-composition", d));
        }
    }
    let key = key.unwrap_or_else(|| {
        if tmpl.len() == 1 && elems.len() == 1 {
            single_key(tmpl[0], elems[0], d, env, acc)
        } else {
            format!("C19/matches/kind={}/element-count-differs", d)
        }
    });
    found.add(acc, &key, || format!("library: {}{}; reference: {}", show_lib(&l), im.map(|b| format!(", is_match={}", b)).unwrap_or_default(), show_ref(&r)));
    found.flush(acc, case, input);
}

// ---------------------------------------------------------------------------
// alphabets
// ---------------------------------------------------------------------------

fn pc(n: usize) -> Vec<u8> {
    if n == 1 {
        vec![0xab]
    } else {
        pattern(5, n)
    }
}

fn raw_der(r: &[u8], s: &[u8]) -> Vec<u8> {
    let mut v = vec![0x30, (4 + r.len() + s.len()) as u8, 0x02, r.len() as u8];
    v.extend_from_slice(r);
    v.push(0x02);
    v.push(s.len() as u8);
    v.extend_from_slice(s);
    v
}

pub const LEN_N: [usize; 6] = [0, 1, 2, 20, 75, 76];
pub const LEN_EXTRA: [usize; 6] = [33, 65, 255, 256, 65535, 65536];

pub struct Alpha {
    pub tokens: Vec<TT>,
    pub elems: Vec<Elem>,
    /// indices into tokens / elems for the pair and triple spaces
    pub rt: Vec<usize>,
    pub re: Vec<usize>,
    pub re3: Vec<usize>,
}

pub fn alphabet(env: &c17::Env, tier: Tier) -> Alpha {
    let mut tokens = vec![];
    // every opcode the library names, by name (the four pseudo-opcodes cannot be written as exact opcodes)
    for b in env.plain_ops() {
        if !(0xfb..=0xfe).contains(&b) {
            tokens.push(TT::Op(b));
        }
    }
    for n in 0..=16u8 {
        tokens.push(TT::Alias(n));
    }
    for d in [pc(1), pc(2), pc(20), pc(75), pc(76), pc(77), pattern(6, 20), vec![0x01], vec![0x05], vec![0x00], vec![0x17], vec![0x00, 0x05]] {
        tokens.push(TT::Data(d));
    }
    tokens.push(TT::Any);
    let mut lens: Vec<usize> = LEN_N.to_vec();
    lens.extend(LEN_EXTRA);
    for c in Cmp::ALL {
        for n in &lens {
            tokens.push(TT::Len(c, *n));
        }
    }
    tokens.push(TT::Sig);
    tokens.push(TT::PubKey);
    tokens.push(TT::Pkh);

    let mut elems = vec![];
    let op = |b: u8| Elem::new(&env.names[b as usize].clone().unwrap_or_else(|| format!("op{:02x}", b)), if b == 0 { "OP_0" } else if (0xfb..=0xfe).contains(&b) { "pseudo-opcode" } else { "opcode" }, vec![Tok::Op(b)]);
    for b in env.plain_ops() {
        elems.push(op(b));
    }
    // lengths N-1, N, N+1 around every compared bound
    let mut plens: Vec<usize> = lens.iter().flat_map(|n| [n.saturating_sub(1), *n, n + 1]).filter(|n| *n >= 1).collect();
    plens.sort();
    plens.dedup();
    for n in plens {
        elems.push(Elem::new(&format!("push{}", n), "push", vec![rs::minimal_push(&pc(n))]));
    }
    elems.push(Elem::new("push20-other-content", "push", vec![rs::minimal_push(&pattern(6, 20))]));
    for d in [vec![0x01u8], vec![0x05], vec![0x17], vec![0x00, 0x05]] {
        elems.push(Elem::new(&format!("push:{}", hex::encode(&d)), "push", vec![rs::minimal_push(&d)]));
    }
    for (f, d) in [(0x4cu8, vec![]), (0x4c, pc(1)), (0x4c, pc(20)), (0x4d, pc(2)), (0x4e, pc(75)), (0x4d, pc(76)), (0x4d, vec![])] {
        elems.push(Elem::new(&format!("pushdata{:02x}/{}", f, d.len()), "push-nonminimal", vec![Tok::PushData(f, d)]));
    }
    // signatures
    let n = rsecp::n();
    let big = |k: u32| &n - BigUint::from(k);
    let u = |k: u32| BigUint::from(k);
    let rt = rsecp::from_be(&pattern(4, 32)) % &n;
    let st0 = rsecp::from_be(&pattern(7, 32)) % &n;
    // a typical s whose last byte is not flag-valued
    let st = (&st0 >> 8u32 << 8u32) + u(0x7b);
    let s41 = (&st0 >> 8u32 << 8u32) + u(0x41);
    let der = |r: &BigUint, s: &BigUint| rsecp::der_encode(r, s);
    let with = |mut v: Vec<u8>, tail: &[u8]| {
        v.extend_from_slice(tail);
        v
    };
    let mut sigs: Vec<(String, Vec<u8>)> = vec![
        ("der(1,1)".into(), der(&u(1), &u(1))),
        ("der(n-2,n-2)".into(), der(&big(2), &big(2))),
        ("der(typical)".into(), der(&rt, &st)),
        ("der(n-1,n-1) [ends in 0x40]".into(), der(&big(1), &big(1))),
        ("der(5,0x41) [ends in 0x41]".into(), der(&u(5), &u(0x41))),
        ("der(5,1) [ends in 0x01]".into(), der(&u(5), &u(1)).to_vec()),
        ("der(typical r, s ending in 0x41)".into(), der(&rt, &s41)),
        ("der(typical r, s ending in 0xc3)".into(), der(&rt, &((&st0 >> 8u32 << 8u32) + u(0xc3)))),
        ("der(5,0x41)+41".into(), with(der(&u(5), &u(0x41)), &[0x41])),
        ("der(typical)+4141".into(), with(der(&rt, &st), &[0x41, 0x41])),
        ("der(typical)+aabb".into(), with(der(&rt, &st), &[0xaa, 0xbb])),
        ("der tag 31".into(), {
            let mut v = der(&rt, &st);
            v[0] = 0x31;
            v
        }),
        ("der total length +1".into(), {
            let mut v = der(&rt, &st);
            v[1] += 1;
            v
        }),
        ("der integer tag 03".into(), {
            let mut v = der(&rt, &st);
            v[2] = 0x03;
            v
        }),
        ("der negative r".into(), raw_der(&[0x80, 0x01], &[0x01])),
        ("der r with superfluous 00".into(), raw_der(&[0x00, 0x01], &[0x01])),
        ("der s with superfluous 00".into(), raw_der(&[0x01], &[0x00, 0x7f])),
        ("der empty r".into(), raw_der(&[], &[0x01])),
        ("der(0,1)".into(), der(&u(0), &u(1))),
        ("der(1,0)".into(), der(&u(1), &u(0))),
        ("der(n,1)".into(), der(&n, &u(1))),
        ("der(1,n)".into(), der(&u(1), &n)),
        ("der(1,n+1)".into(), der(&u(1), &(&n + u(1)))),
        ("der long-form length".into(), {
            let v = der(&u(1), &u(1));
            let mut w = vec![0x30, 0x81];
            w.extend_from_slice(&v[1..]);
            w
        }),
        ("der truncated by one".into(), {
            let v = der(&rt, &st);
            v[..v.len() - 1].to_vec()
        }),
    ];
    for f in [0x01u8, 0x41, 0xc3, 0x83, 0x02, 0x43] {
        sigs.push((format!("der(typical)+{:02x}", f), with(der(&rt, &st), &[f])));
    }
    for f in [0x40u8, 0x80, 0x00, 0x05, 0xff] {
        sigs.push((format!("der(typical)+{:02x}", f), with(der(&rt, &st), &[f])));
    }
    for (label, bytes) in sigs {
        let pure = der_valid(&bytes);
        let class = match sig_ok(&bytes) {
            Tri::Yes if pure && (STD_FLAGS.contains(bytes.last().unwrap()) || [0x40u8, 0x80].contains(bytes.last().unwrap())) => "sig-der-ending-in-flag-valued-byte",
            Tri::Yes if pure => "sig-der",
            Tri::Yes => "sig-der+flag",
            Tri::Amb(_) => "sig-der+unusual-byte",
            Tri::No => "sig-malformed",
        };
        elems.push(Elem::new(&format!("sig:{}", label), class, vec![rs::minimal_push(&bytes)]));
    }
    // public keys
    let g = rsecp::g();
    let g2 = rsecp::add(&g, &g);
    let (gx, gy) = match &g {
        rsecp::Point::Affine { x, y } => (x.clone(), y.clone()),
        _ => unreachable!(),
    };
    let mut off_x = u(1);
    while rsecp::lift_x(&off_x, false).is_some() {
        off_x += 1u32;
    }
    let mut on_x = u(1);
    while rsecp::lift_x(&on_x, false).is_none() {
        on_x += 1u32;
    }
    let cat = |tag: u8, parts: &[&[u8]]| {
        let mut v = vec![tag];
        for p in parts {
            v.extend_from_slice(p);
        }
        v
    };
    let gxb = rsecp::be32(&gx);
    let gyb = rsecp::be32(&gy);
    let gy1 = rsecp::be32(&(&gy + u(1)));
    let keys: Vec<(String, &'static str, Vec<u8>)> = vec![
        ("G compressed".into(), "key-valid", rsecp::encode_point(&g, true)),
        ("G uncompressed".into(), "key-valid", rsecp::encode_point(&g, false)),
        ("2G compressed".into(), "key-valid", rsecp::encode_point(&g2, true)),
        ("2G uncompressed".into(), "key-valid", rsecp::encode_point(&g2, false)),
        (format!("02||x={} (x^3+7 is not a square)", off_x), "key-off-curve", cat(0x02, &[&rsecp::be32(&off_x)])),
        (format!("03||x={} (x^3+7 is not a square)", off_x), "key-off-curve", cat(0x03, &[&rsecp::be32(&off_x)])),
        ("04||Gx||Gy+1".into(), "key-off-curve", cat(0x04, &[&gxb, &gy1])),
        ("04||0||0".into(), "key-off-curve", cat(0x04, &[&[0u8; 32], &[0u8; 32]])),
        (format!("02||p+{} (coordinate not reduced)", on_x), "key-coordinate>=p", cat(0x02, &[&rsecp::be32(&(rsecp::p() + &on_x))])),
        ("02||ff..ff".into(), "key-coordinate>=p", cat(0x02, &[&[0xffu8; 32]])),
        ("00 (identity encoding)".into(), "key-identity", vec![0x00]),
        ("hybrid 06/07||Gx||Gy".into(), "key-bad-format", cat(if gy.bit(0) { 0x07 } else { 0x06 }, &[&gxb, &gyb])),
        ("04||Gx (33 bytes)".into(), "key-bad-format", cat(0x04, &[&gxb])),
        ("02||Gx||Gy (65 bytes)".into(), "key-bad-format", cat(0x02, &[&gxb, &gyb])),
        ("05||Gx".into(), "key-bad-format", cat(0x05, &[&gxb])),
        ("00||Gx".into(), "key-bad-format", cat(0x00, &[&gxb])),
        ("Gx only (32 bytes)".into(), "key-bad-format", gxb.to_vec()),
        ("02||Gx||00 (34 bytes)".into(), "key-bad-format", cat(0x02, &[&gxb, &[0u8]])),
        ("04||Gx||Gy minus last byte (64 bytes)".into(), "key-bad-format", cat(0x04, &[&gxb, &gyb[..31]])),
        ("04||Gx||Gy||00 (66 bytes)".into(), "key-bad-format", cat(0x04, &[&gxb, &gyb, &[0u8]])),
        ("33 zero bytes".into(), "key-bad-format", vec![0u8; 33]),
    ];
    for (label, class, bytes) in keys {
        elems.push(Elem::new(&format!("key:{}", label), class, vec![rs::minimal_push(&bytes)]));
    }
    // conditional blocks: one element in the library's nested representation
    elems.push(Elem::new("IF OP_1 ENDIF", "conditional-block", vec![Tok::Op(rs::OP_IF), Tok::Op(0x51), Tok::Op(rs::OP_ENDIF)]));
    elems.push(Elem::new("NOTIF ENDIF", "conditional-block", vec![Tok::Op(rs::OP_NOTIF), Tok::Op(rs::OP_ENDIF)]));
    elems.push(Elem::new("IF push20 ELSE ENDIF", "conditional-block", vec![Tok::Op(rs::OP_IF), rs::minimal_push(&pc(20)), Tok::Op(rs::OP_ELSE), Tok::Op(rs::OP_ENDIF)]));

    let find_t = |t: &TT| tokens.iter().position(|x| x == t).expect("reduced token in alphabet");
    let mut rt_list = vec![TT::Op(0x76), TT::Alias(1), TT::Alias(0), TT::Data(pc(20)), TT::Data(pc(1)), TT::Any, TT::Len(Cmp::Eq, 20), TT::Len(Cmp::Gt, 1), TT::Len(Cmp::Le, 75), TT::Sig, TT::PubKey, TT::Pkh];
    if tier.is_thorough() {
        rt_list.extend([TT::Op(0xac), TT::Op(0x00), TT::Alias(16), TT::Data(pc(2)), TT::Data(pc(76)), TT::Len(Cmp::Lt, 20), TT::Len(Cmp::Ge, 76), TT::Len(Cmp::Eq, 0)]);
    }
    let rt_idx: Vec<usize> = rt_list.iter().map(find_t).collect();
    let find_e = |l: &str| elems.iter().position(|x| x.label == l).unwrap_or_else(|| panic!("reduced element {} in alphabet", l));
    let mut re_list = vec!["OP_DUP", "OP_1", "OP_0", "push20", "push1", "push21", "push76", "sig:der(typical)+41", "sig:der(5,0x41) [ends in 0x41]", "key:G compressed", "key:04||Gx||Gy+1", "IF OP_1 ENDIF"];
    let mut re3_list = vec!["OP_DUP", "OP_0", "push20", "push1", "sig:der(typical)+41", "IF OP_1 ENDIF"];
    if tier.is_thorough() {
        re_list.extend(["OP_CHECKSIG", "OP_16", "push2", "push19", "push75", "pushdata4c/0", "sig:der(typical)", "key:G uncompressed"]);
        re3_list.extend(["OP_1", "push21", "push76", "key:G compressed"]);
    }
    let re_idx: Vec<usize> = re_list.iter().map(|l| find_e(l)).collect();
    let re3: Vec<usize> = re3_list.iter().map(|l| find_e(l)).collect();
    Alpha { tokens, elems, rt: rt_idx, re: re_idx, re3 }
}

// ---------------------------------------------------------------------------
// self-match
// ---------------------------------------------------------------------------

fn self_match_once(bytes: &[u8], acc: &mut Acc) -> Result<bool, String> {
    acc.transitions += 3;
    let s = match guard(|| Script::from_bytes(bytes)) {
        Ok(Ok(s)) => s,
        Ok(Err(_)) => return Err("premise".into()),
        Err(p) => return Err(format!("panic:{}", p)),
    };
    let t = match guard(|| ScriptTemplate::from_script(&s)) {
        Ok(Ok(t)) => t,
        Ok(Err(e)) => return Err(format!("from_script:{}", e)),
        Err(p) => return Err(format!("panic:{}", p)),
    };
    match guard(|| (s.is_match(&t), s.matches(&t).is_ok())) {
        Ok((a, b)) if a == b => Ok(a),
        Ok(_) => Err("is_match disagrees with matches".into()),
        Err(p) => Err(format!("panic:{}", p)),
    }
}

fn self_class(t: &Tok) -> &'static str {
    match t {
        Tok::Op(b) if (0xfb..=0xfe).contains(b) => "pseudo-opcode",
        Tok::Op(_) => "opcode",
        Tok::Push(d) if d.len() == 1 && (0x10..=0x16).contains(&d[0]) => "push-hex-10..16-read-as-numeric-alias",
        Tok::Push(d) if d.len() == 1 && d[0] <= 0x09 => "push-hex-00..09-read-as-numeric-alias",
        Tok::Push(d) if d.len() == 1 => "push1",
        Tok::Push(_) => "direct-push",
        Tok::PushData(_, _) => "pushdata",
    }
}

fn eval_self(toks: &[Tok], acc: &mut Acc, case: &Case) {
    acc.evaluations += 1;
    let bytes = rs::serialize(toks);
    let input = || json!({"script_hex": hx(&bytes), "template": "ScriptTemplate::from_script(script)"});
    let r = self_match_once(&bytes, acc);
    acc.outcome(&[b's', match &r { Ok(true) => 1, Ok(false) => 0, Err(_) => 2 }, toks.len() as u8]);
    if r == Err("premise".to_string()) {
        acc.bump("premise_script_rejected_by_from_bytes", 1);
        return;
    }
    acc.traces += 1;
    acc.nontrivial_structural += 1;
    let mut found = Found::new(case);
    let key_for = |e: &str, elem: &str| -> String {
        if let Some(p) = e.strip_prefix("panic:") {
            format!("C19/self-match/kind=panic@{}", panic_site(p))
        } else if e.starts_with("from_script:") {
            format!("C19/self-match/kind=from_script-error/elem={}", elem)
        } else {
            "C19/is_match/kind=disagrees-with-matches".to_string()
        }
    };
    match &r {
        Ok(true) => {}
        _ => {
            // culprit: the first element that does not match its own template when alone
            let mut key = None;
            if toks.is_empty() {
                key = Some(match &r {
                    Ok(_) => "C19/self-match/kind=empty-script-does-not-match-own-template".to_string(),
                    Err(e) => key_for(e, "empty-script"),
                });
            } else if toks.len() > 1 {
                for t in toks {
                    let r1 = self_match_once(&rs::serialize(std::slice::from_ref(t)), acc);
                    match r1 {
                        Ok(true) => {}
                        Ok(false) => {
                            key = Some(format!("C19/self-match/kind=no-match/elem={}", self_class(t)));
                            break;
                        }
                        Err(e) => {
                            key = Some(key_for(&e, self_class(t)));
                            break;
                        }
                    }
                }
            }
            let key = key.unwrap_or_else(|| match &r {
                Ok(_) if toks.len() == 1 => format!("C19/self-match/kind=no-match/elem={}", self_class(&toks[0])),
                Ok(_) => "C19/self-match/kind=no-match/only-in-composition".to_string(),
                Err(e) => key_for(e, if toks.len() == 1 { self_class(&toks[0]) } else { "composition" }),
            });
            found.add(acc, &key, || match &r {
                Ok(_) => format!("script {} does not match ScriptTemplate::from_script of itself (rendering {:?})", hx(&bytes), Script::from_bytes(&bytes).map(|s| s.to_asm_string()).unwrap_or_default()),
                Err(e) => e.clone(),
            });
        }
    }
    found.flush(acc, case, input);
}

// ---------------------------------------------------------------------------
// criteria
// ---------------------------------------------------------------------------

pub const BOUNDS: [u64; 4] = [0, 1, 1000, u64::MAX];

fn around(b: u64) -> [u64; 3] {
    [b.saturating_sub(1), b, b.saturating_add(1)]
}

fn all_values() -> Vec<u64> {
    let mut v: Vec<u64> = BOUNDS.iter().flat_map(|b| around(*b)).collect();
    v.sort();
    v.dedup();
    v
}

#[derive(Clone, Copy, Debug, PartialEq)]
struct Crit {
    tmpl: bool,
    exact: Option<u64>,
    min: Option<u64>,
    max: Option<u64>,
    /// which of the 24 permutations of the four setter calls builds the criteria (0 = template, exact, min, max)
    order: usize,
}

impl Crit {
    fn has_value_field(&self) -> bool {
        self.exact.is_some() || self.min.is_some() || self.max.is_some()
    }
    fn accepts(&self, script_matches: bool, value: Option<u64>) -> Option<bool> {
        if self.tmpl && !script_matches {
            return Some(false);
        }
        if !self.has_value_field() {
            return Some(true);
        }
        // the statement does not say what an absent value satisfies
        let v = value?;
        Some(self.exact.map_or(true, |e| v == e) && self.min.map_or(true, |m| v >= m) && self.max.map_or(true, |m| v <= m))
    }
    fn json(&self, text: &str) -> Value {
        json!({"template": if self.tmpl { json!(text) } else { Value::Null }, "exact": self.exact, "min": self.min, "max": self.max, "setter_call_order": self.order})
    }
    fn build(&self, t: &ScriptTemplate) -> MatchCriteria {
        self.build_in_order(t, self.order)
    }
    /// The four setters called in the `order`-th of the 24 permutations (0 = template, exact, min, max).
    fn build_in_order(&self, t: &ScriptTemplate, order: usize) -> MatchCriteria {
        let mut items = vec![0u8, 1, 2, 3];
        let mut perm = vec![];
        let mut r = order % 24;
        for k in (1..=4).rev() {
            perm.push(items.remove(r % k));
            r /= k;
        }
        let mut c = MatchCriteria::new();
        for f in perm {
            match f {
                0 => {
                    if self.tmpl {
                        c.set_script_template(t);
                    }
                }
                1 => {
                    if let Some(v) = self.exact {
                        c.set_value(v);
                    }
                }
                2 => {
                    if let Some(v) = self.min {
                        c.set_min(v);
                    }
                }
                _ => {
                    if let Some(v) = self.max {
                        c.set_max(v);
                    }
                }
            }
        }
        c
    }
    fn single_fields(&self) -> Vec<(&'static str, Crit)> {
        let none = Crit { tmpl: false, exact: None, min: None, max: None, order: 0 };
        let mut v = vec![];
        if self.tmpl {
            v.push(("template", Crit { tmpl: true, ..none }));
        }
        if self.exact.is_some() {
            v.push(("exact", Crit { exact: self.exact, ..none }));
        }
        if self.min.is_some() {
            v.push(("min", Crit { min: self.min, ..none }));
        }
        if self.max.is_some() {
            v.push(("max", Crit { max: self.max, ..none }));
        }
        v
    }
}

const CRIT_TEMPLATE: &str = "OP_DUP OP_HASH160 OP_PUBKEYHASH OP_EQUALVERIFY OP_CHECKSIG";

struct CritScript {
    script: Script,
    /// does the reference say it matches the criteria template; None = the statement does not decide
    matches: Option<bool>,
    bytes: Vec<u8>,
    /// (token kind, element class) the verdict hinges on: names the root cause when the library's
    /// `is_match` on this script alone already disagrees with the reference
    hinge: (&'static str, &'static str),
}

struct CritEnv {
    tmpl: ScriptTemplate,
    text: String,
    scripts: Vec<CritScript>,
}

fn crit_env(env: &c17::Env) -> CritEnv {
    let tmpl = ScriptTemplate::from_asm_string(CRIT_TEMPLATE).expect("criteria template parses");
    let tts = [TT::Op(0x76), TT::Op(0xa9), TT::Pkh, TT::Op(0x88), TT::Op(0xac)];
    let ttr: Vec<&TT> = tts.iter().collect();
    let _ = env;
    let mk = |toks: Vec<Tok>| {
        let els: Vec<Elem> = toks.iter().map(|t| Elem::new("", "", vec![t.clone()])).collect();
        let elr: Vec<&Elem> = els.iter().collect();
        let m = matches!(ref_match(&ttr, &elr), RefRes::Match(_));
        let b = rs::serialize(&toks);
        CritScript { script: Script::from_bytes(&b).expect("criteria script parses"), matches: Some(m), bytes: b, hinge: ("OP_PUBKEYHASH", "push") }
    };
    let p2pkh = |h: Vec<u8>| vec![Tok::Op(0x76), Tok::Op(0xa9), rs::minimal_push(&h), Tok::Op(0x88), Tok::Op(0xac)];
    let scripts = vec![mk(p2pkh(pattern(2, 20))), mk(p2pkh(pattern(2, 19))), mk(vec![Tok::Op(0x00), Tok::Op(0x6a), rs::minimal_push(&[0xaa, 0xbb])]), mk(p2pkh(pattern(5, 20)))];
    assert!(scripts[0].matches == Some(true) && scripts[1].matches == Some(false) && scripts[2].matches == Some(false) && scripts[3].matches == Some(true));
    CritEnv { tmpl, text: CRIT_TEMPLATE.to_string(), scripts }
}

#[derive(Clone, Copy, PartialEq)]
enum Side {
    Outputs,
    Inputs,
}

impl Side {
    fn name(self) -> &'static str {
        match self {
            Side::Outputs => "output",
            Side::Inputs => "input",
        }
    }
}

fn build_tx(side: Side, slots: &[(usize, Option<u64>)], ce: &CritEnv) -> Transaction {
    let mut tx = Transaction::new(1, 0);
    for (i, (si, v)) in slots.iter().enumerate() {
        match side {
            Side::Outputs => tx.add_output(&TxOut::new(v.unwrap_or(0), &ce.scripts[*si].script)),
            Side::Inputs => {
                let mut inp = TxIn::new(&[i as u8 + 1; 32], i as u32, &ce.scripts[*si].script, None);
                if let Some(v) = v {
                    inp.set_satoshis(*v);
                }
                tx.add_input(&inp);
            }
        }
    }
    tx
}

fn lib_select(side: Side, tx: &Transaction, c: &MatchCriteria) -> Result<(Vec<usize>, Option<usize>), String> {
    guard(|| match side {
        Side::Outputs => (tx.match_outputs(c), tx.match_output(c)),
        Side::Inputs => (tx.match_inputs(c), tx.match_input(c)),
    })
}

fn eval_criteria(side: Side, slots: &[(usize, Option<u64>)], crit: Crit, ce: &CritEnv, acc: &mut Acc, case: &Case) {
    acc.evaluations += 1;
    // reference index list; None = the statement does not decide (absent value under a value criterion)
    let mut want = vec![];
    for (i, (si, v)) in slots.iter().enumerate() {
        let sm = match ce.scripts[*si].matches {
            Some(m) => m,
            None if !crit.tmpl => false, // not looked at
            None => {
                acc.bump("excluded_undecided/criteria template against a script the reference matcher leaves undecided", 1);
                acc.outcome(b"c-excluded-script");
                return;
            }
        };
        match crit.accepts(sm, *v) {
            Some(true) => want.push(i),
            Some(false) => {}
            None => {
                acc.bump("excluded_undecided/absent input value under a value criterion", 1);
                acc.outcome(b"c-excluded");
                return;
            }
        }
    }
    let tx = build_tx(side, slots, ce);
    let c = crit.build(&ce.tmpl);
    acc.transitions += 2;
    acc.traces += 1;
    acc.nontrivial_structural += 1;
    let input = || json!({"side": side.name(), "slots": slots.iter().map(|(si, v)| json!({"script_hex": hx(&ce.scripts[*si].bytes), "value": v})).collect::<Vec<_>>(), "criteria": crit.json(&ce.text)});
    let got = lib_select(side, &tx, &c);
    let mut found = Found::new(case);
    match &got {
        Err(p) => {
            acc.outcome(b"c-panic");
            found.add(acc, &format!("C19/match_{}s/kind=panic@{}", side.name(), panic_site(p)), || p.clone());
        }
        Ok((list, first)) => {
            acc.outcome(&[b'c', list.len() as u8, first.map(|f| f as u8 + 1).unwrap_or(0), slots.len() as u8]);
            if *list != want {
                // which single criterion is judged wrongly for the first index whose membership differs
                let i = (0..slots.len()).find(|i| list.contains(i) != want.contains(i)).unwrap_or(0);
                let mut fields = vec![];
                let mut matcher_key = None;
                if i < slots.len() {
                    let cs = &ce.scripts[slots[i].0];
                    for (name, single) in crit.single_fields() {
                        let tx1 = build_tx(side, &slots[i..i + 1], ce);
                        let l1 = lib_select(side, &tx1, &single.build(&ce.tmpl)).map(|r| !r.0.is_empty()).ok();
                        acc.transitions += 2;
                        if l1 != single.accepts(cs.matches.unwrap_or(false), slots[i].1) {
                            fields.push(name);
                        }
                    }
                    // is the template criterion wrong because the matcher itself already judges this script wrongly?
                    if fields == ["template"] {
                        acc.transitions += 1;
                        if let (Some(m), Ok(l)) = (cs.matches, guard(|| cs.script.is_match(&ce.tmpl))) {
                            if l != m {
                                matcher_key = Some(format!("C19/matches/token={}/kind={}/elem={}", cs.hinge.0, if m { "missing-match" } else { "spurious-match" }, cs.hinge.1));
                            }
                        }
                    }
                }
                let f = if fields.is_empty() { "combination".to_string() } else { fields.join("+") };
                let key = matcher_key.unwrap_or_else(|| format!("C19/match_{}s/kind=wrong-indices/field={}", side.name(), f));
                found.add(acc, &key, || format!("match_{}s: library {:?} reference {:?}", side.name(), list, want));
            }
            if *first != want.first().copied() {
                let k = if *first == list.first().copied() { "wrong-index-same-as-list" } else { "not-first-of-the-list" };
                if k == "not-first-of-the-list" || *list == want {
                    found.add(acc, &format!("C19/match_{}/kind={}", side.name(), k), || format!("library {:?} (list {:?}) reference {:?}", first, list, want.first()));
                }
            }
        }
    }
    found.flush(acc, case, input);
}

/// index -> sequence of `n` digits (n = 0..=max) in base `base`, shortest first
struct Seqs {
    base: u64,
    offsets: Vec<u64>,
}

impl Seqs {
    fn new(base: u64, max: usize) -> Seqs {
        let mut offsets = vec![0u64];
        for k in 0..=max {
            offsets.push(offsets[k] + base.pow(k as u32));
        }
        Seqs { base, offsets }
    }
    fn total(&self) -> u64 {
        *self.offsets.last().unwrap()
    }
    fn get(&self, idx: u64) -> Vec<u64> {
        let k = self.offsets.iter().rposition(|o| *o <= idx).unwrap();
        let mut rem = idx - self.offsets[k];
        let mut d = vec![0u64; k];
        for i in (0..k).rev() {
            d[i] = rem % self.base;
            rem /= self.base;
        }
        d
    }
}

fn criteria_spaces(v: &mut Vec<Space>, side: Side, tier: Tier, ce: Arc<CritEnv>) {
    let thorough = tier.is_thorough();
    let name = side.name();
    // (a) one slot: value x script x template? x exact x min x max, each bound from the whole value set or absent
    {
        let ce = ce.clone();
        let vals = all_values();
        let nv = vals.len() as u64;
        let nval_dim = if side == Side::Inputs { nv + 1 } else { nv }; // inputs: last = satoshis absent
        let nscripts = 4u64;
        let _ = thorough;
        v.push(Space::new(&format!("{}-bounds", name), nval_dim * nscripts * 2 * (nv + 1).pow(3), move |case, acc| {
            let c = coords(case.idx, &[nval_dim, nscripts, 2, nv + 1, nv + 1, nv + 1]);
            let value = vals.get(c[0] as usize).copied();
            let opt = |k: u64| if k == 0 { None } else { Some(vals[k as usize - 1]) };
            let crit = Crit { tmpl: c[2] == 1, exact: opt(c[3]), min: opt(c[4]), max: opt(c[5]), order: 0 };
            if side == Side::Outputs && value.is_none() {
                return;
            }
            if case.idx == 12345 {
                acc.sample(case.idx, || json!({"space": format!("{}-bounds", side.name()), "value": value, "criteria": crit.json(&ce.text)}));
            }
            eval_criteria(side, &[(c[1] as usize, value)], crit, &ce, acc, case);
        }));
    }
    // (b) 0..=4 slots: index selection; slot alphabet = {matching, non-matching script} x {b-1, b, b+1 [, absent]}
    {
        let ce = ce.clone();
        let per_slot: u64 = if side == Side::Inputs { 8 } else { 6 };
        let seqs = Seqs::new(per_slot, if thorough { 5 } else { 4 });
        let nseq = seqs.total();
        let nb = BOUNDS.len() as u64;
        // thorough: exact / min / max move independently over {b-1, b, b+1}
        let nk: u64 = 27;
        v.push(Space::new(&format!("{}-selection", name), nb * 16 * nk * nseq, move |case, acc| {
            let c = coords(case.idx, &[nb, 16, nk, nseq]);
            let b = BOUNDS[c[0] as usize];
            let ar = around(b);
            let (ke, kmin, kmax) = ((c[2] / 9) as usize, (c[2] / 3 % 3) as usize, (c[2] % 3) as usize);
            let p = c[1];
            let crit = Crit { tmpl: p & 8 != 0, exact: if p & 4 != 0 { Some(ar[ke]) } else { None }, min: if p & 2 != 0 { Some(ar[kmin]) } else { None }, max: if p & 1 != 0 { Some(ar[kmax]) } else { None }, order: 0 };
            let slots: Vec<(usize, Option<u64>)> = seqs
                .get(c[3])
                .iter()
                .map(|d| {
                    let script = (d % 2) as usize; // 0 = matches the template, 1 = near miss (19-byte hash)
                    let vi = (d / 2) as usize;
                    (script, ar.get(vi).copied())
                })
                .collect();
            if c[0] == 2 && c[1] == 15 && c[2] == 0 && c[3] == 300 {
                acc.sample(case.idx, || json!({"space": format!("{}-selection", side.name()), "slots": slots.iter().map(|s| json!({"script_matches": s.0 == 0, "value": s.1})).collect::<Vec<_>>(), "criteria": crit.json(&ce.text)}));
            }
            eval_criteria(side, &slots, crit, &ce, acc, case);
        }));
    }
    // (c) builder histories: the four setters called in every one of the 24 orders, every present/absent combination,
    // exact / min / max each at b-1, b, b+1, one slot whose value is b-1, b or b+1 - the criteria mean the same whatever
    // the order in which they were configured
    {
        let ce = ce.clone();
        v.push(Space::new(&format!("{}-builder-orders", name), 24 * 16 * 27 * 3 * 2, move |case, acc| {
            let c = coords(case.idx, &[24, 16, 27, 3, 2]);
            let ar = around(1000);
            let (ke, kmin, kmax) = ((c[2] / 9) as usize, (c[2] / 3 % 3) as usize, (c[2] % 3) as usize);
            let p = c[1];
            let crit = Crit { tmpl: p & 8 != 0, exact: if p & 4 != 0 { Some(ar[ke]) } else { None }, min: if p & 2 != 0 { Some(ar[kmin]) } else { None }, max: if p & 1 != 0 { Some(ar[kmax]) } else { None }, order: c[0] as usize };
            eval_criteria(side, &[(c[4] as usize, Some(ar[c[3] as usize]))], crit, &ce, acc, case);
        }));
    }
    // (d) setter histories with repetition: every sequence of up to N calls over {template A, template B, exact v1/v2,
    // min v1/v2, max v1/v2} on ONE criteria object (the last call for a field wins); the selection over six outputs
    // {script A, script B} x {999, 1000, 1001} must be the one the final field values describe
    if side == Side::Outputs {
        let maxk: usize = if thorough { 5 } else { 4 };
        let seqs = Seqs::new(8, maxk);
        let nseq = seqs.total();
        v.push(Space::new("output-setter-histories", nseq * 2, move |case, acc| {
            let c = coords(case.idx, &[nseq, 2]);
            let calls = seqs.get(c[0]);
            let on_clone = c[1] == 1;
            let ta = ScriptTemplate::from_asm_string(CRIT_TEMPLATE).expect("template A");
            let tb = ScriptTemplate::from_asm_string("OP_1 OP_DATA=2 OP_DROP").expect("template B");
            let sa = Script::from_bytes(&[&[0x76u8, 0xa9, 0x14][..], &pattern(2, 20), &[0x88, 0xac]].concat()).expect("script A");
            let sb = Script::from_bytes(&[0x51, 0x02, 0xaa, 0xbb, 0x75]).expect("script B");
            let vals = [999u64, 1000, 1001];
            let mut tx = Transaction::new(1, 0);
            for sc in [&sa, &sb] {
                for v in vals {
                    tx.add_output(&TxOut::new(v, sc));
                }
            }
            // model: the last value set per field
            let (mut mt, mut me, mut mmin, mut mmax): (Option<u8>, Option<u64>, Option<u64>, Option<u64>) = (None, None, None, None);
            let mut crit = MatchCriteria::new();
            let names = ["template A", "template B", "exact 999", "exact 1000", "min 1000", "min 1001", "max 1000", "max 999"];
            acc.evaluations += 1;
            acc.transitions += calls.len() as u64 + 1;
            acc.traces += 1;
            acc.nontrivial_structural += 1;
            let built = guard(|| {
                for call in &calls {
                    // `on_clone`: continue on the value the setter returns instead of the receiver
                    let r = match call {
                        0 => crit.set_script_template(&ta),
                        1 => crit.set_script_template(&tb),
                        2 => crit.set_value(999),
                        3 => crit.set_value(1000),
                        4 => crit.set_min(1000),
                        5 => crit.set_min(1001),
                        6 => crit.set_max(1000),
                        _ => crit.set_max(999),
                    };
                    if on_clone {
                        crit = r;
                    }
                }
                tx.match_outputs(&crit)
            });
            for call in &calls {
                match call {
                    0 => mt = Some(0),
                    1 => mt = Some(1),
                    2 => me = Some(999),
                    3 => me = Some(1000),
                    4 => mmin = Some(1000),
                    5 => mmin = Some(1001),
                    6 => mmax = Some(1000),
                    _ => mmax = Some(999),
                }
            }
            let mut want = vec![];
            for (i, (si, v)) in [(0u8, 999u64), (0, 1000), (0, 1001), (1, 999), (1, 1000), (1, 1001)].iter().enumerate() {
                if mt.map_or(true, |t| t == *si) && me.map_or(true, |e| *v == e) && mmin.map_or(true, |m| *v >= m) && mmax.map_or(true, |m| *v <= m) {
                    want.push(i);
                }
            }
            let hist: Vec<&str> = calls.iter().map(|k| names[*k as usize]).collect();
            let input = json!({"setter_calls": hist, "continue_on_returned_value": on_clone});
            match built {
                Ok(got) => {
                    acc.outcome(&[b'h', got.len() as u8, want.len() as u8]);
                    if got != want {
                        let last = hist.last().copied().unwrap_or("").split(' ').next().unwrap_or("");
                        acc.violate(format!("C19/match_outputs/kind=wrong-indices/after-setter-history/last={}", last), case.idx, case.json(input), format!("library {:?}, the final field values select {:?}", got, want));
                    }
                }
                Err(p) => acc.violate(format!("C19/match_outputs/kind=panic@{}", panic_site(&p)), case.idx, case.json(input), p),
            }
        }));
    }
}

// ---------------------------------------------------------------------------
// signature / public-key shape products
// ---------------------------------------------------------------------------

/// Byte lengths of the synthetic r / s values (each with its top bit clear and set, so the DER
/// INTEGER is `len` or `len + 1` bytes long).
fn shape_lens(tier: Tier) -> Vec<usize> {
    if tier.is_thorough() {
        vec![1, 2, 16, 30, 31, 32]
    } else {
        vec![1, 31, 32]
    }
}

/// What follows the DER part: nothing, each standard flag, flag-like and non-flag bytes, two flags.
fn shape_tails() -> Vec<Vec<u8>> {
    let mut v: Vec<Vec<u8>> = vec![vec![]];
    v.extend(STD_FLAGS.iter().map(|f| vec![*f]));
    v.extend([vec![0x40u8], vec![0x80], vec![0x00], vec![0x05], vec![0xff], vec![0x41, 0x41]]);
    v
}

/// Final bytes of s: one that is no sighash flag and one that is (pure DER must be taken as is).
const SHAPE_S_LAST: [u8; 2] = [0x7b, 0x41];

/// A `len`-byte big-endian value below n with the given top bit and last byte.
/// `high_fill`: fill with ff below a leading 7f (only used for the 32-byte, top-bit-clear, s > n/2 value).
fn shape_value(len: usize, top_set: bool, last: u8, high_fill: bool) -> Vec<u8> {
    if len == 1 {
        return vec![if top_set { 0x80 | last } else { last & 0x7f }];
    }
    let mut v = if high_fill { vec![0xffu8; len] } else { pattern(4, len) };
    v[0] = match (top_set, high_fill) {
        (true, _) => 0xd6,
        (false, true) => 0x7f,
        (false, false) => 0x5a,
    };
    v[len - 1] = last;
    v
}

pub struct SigShape {
    pub elem: Elem,
    pub push_len: usize,
}

/// Full product r shape x s shape x final byte of s x tail.
pub fn sig_shapes(tier: Tier) -> Vec<SigShape> {
    let n = rsecp::n();
    let half = &n >> 1u32;
    let lens = shape_lens(tier);
    // (len, top bit set, high fill)
    let mut r_shapes = vec![];
    let mut s_shapes = vec![];
    for l in &lens {
        for top in [false, true] {
            r_shapes.push((*l, top, false));
            s_shapes.push((*l, top, false));
            if *l == 32 && !top {
                s_shapes.push((*l, top, true));
            }
        }
    }
    let tails = shape_tails();
    let mut out = vec![];
    for (rl, rtop, _) in &r_shapes {
        let rb = shape_value(*rl, *rtop, 0x3c, false);
        let r = rsecp::from_be(&rb);
        for (sl, stop, sfill) in &s_shapes {
            for last in SHAPE_S_LAST {
                let sb = shape_value(*sl, *stop, last, *sfill);
                let sv = rsecp::from_be(&sb);
                assert!(r < n && sv < n && r.bits() > 0 && sv.bits() > 0);
                let high = sv > half;
                let der = rsecp::der_encode(&r, &sv);
                assert_eq!(der.len(), 6 + rl + *rtop as usize + sl + *stop as usize);
                for tail in &tails {
                    let mut bytes = der.clone();
                    bytes.extend_from_slice(tail);
                    let pure = der_valid(&bytes);
                    let class = match (sig_ok(&bytes), high) {
                        (Tri::Yes, _) if pure && (STD_FLAGS.contains(bytes.last().unwrap()) || [0x40u8, 0x80].contains(bytes.last().unwrap())) => "sig-der-ending-in-flag-valued-byte",
                        (Tri::Yes, false) if pure => "sig-der",
                        (Tri::Yes, true) if pure => "sig-der-high-s",
                        (Tri::Yes, false) => "sig-der+flag",
                        (Tri::Yes, true) => "sig-der-high-s+flag",
                        (Tri::Amb(_), _) => "sig-der+unusual-byte",
                        (Tri::No, _) => "sig-malformed",
                    };
                    let label = format!(
                        "sig:shape r={}B{} s={}B{}{} s-ends-{:02x} tail={} [{}-byte push]",
                        rl,
                        if *rtop { "+pad" } else { "" },
                        sl,
                        if *stop { "+pad" } else { "" },
                        if high { " high-S" } else { " low-S" },
                        sb[sb.len() - 1],
                        if tail.is_empty() { "none".to_string() } else { hex::encode(tail) },
                        bytes.len()
                    );
                    let push_len = bytes.len();
                    out.push(SigShape { elem: Elem::new(&label, class, vec![rs::minimal_push(&bytes)]), push_len });
                }
            }
        }
    }
    out
}

pub const KEY_TAGS: [u8; 10] = [0x00, 0x01, 0x02, 0x03, 0x04, 0x05, 0x06, 0x07, 0x80, 0xff];
pub const KEY_LENS: [usize; 9] = [1, 2, 32, 33, 34, 64, 65, 66, 75];

/// Full product tag x total length x coordinate source.
pub fn key_shapes() -> Vec<Elem> {
    let g = rsecp::g();
    let g2 = rsecp::add(&g, &g);
    let xy = |p: &rsecp::Point| match p {
        rsecp::Point::Affine { x, y } => {
            let mut v = rsecp::be32(x).to_vec();
            v.extend_from_slice(&rsecp::be32(y));
            v
        }
        _ => unreachable!(),
    };
    let mut off_x = BigUint::from(1u32);
    while rsecp::lift_x(&off_x, false).is_some() {
        off_x += 1u32;
    }
    let mut off = rsecp::be32(&off_x).to_vec();
    off.extend_from_slice(&[0u8; 32]);
    let sources: [(&str, Vec<u8>); 3] = [("G", xy(&g)), ("2G", xy(&g2)), ("x-not-on-curve", off)];
    let mut out = vec![];
    for tag in KEY_TAGS {
        for len in KEY_LENS {
            for (name, coords) in &sources {
                // tag, then the coordinates cut or zero-padded to the length
                let mut bytes = vec![tag];
                bytes.extend(coords.iter().copied().chain(std::iter::repeat(0u8)).take(len - 1));
                let well_formed = (len == 33 && (tag == 2 || tag == 3)) || (len == 65 && tag == 4);
                let class = match (rsecp::decode_point(&bytes).is_some(), well_formed) {
                    (true, _) => "key-valid",
                    (false, true) => "key-off-curve",
                    (false, false) => "key-bad-format",
                };
                out.push(Elem::new(&format!("key:shape tag={:02x} len={} coordinates={}", tag, len, name), class, vec![rs::minimal_push(&bytes)]));
            }
        }
    }
    out
}

fn payload(e: &Elem) -> Vec<u8> {
    match e.toks.as_slice() {
        [Tok::Push(d)] | [Tok::PushData(_, d)] => d.clone(),
        _ => vec![],
    }
}

/// Tokens every shaped element is put against: the typed tokens, OP_DATA, the element's own
/// bytes as exact data, and length comparisons around the given bounds.
fn shape_tokens(bounds: &[usize]) -> Vec<TT> {
    let mut v = vec![TT::Sig, TT::PubKey, TT::Pkh, TT::Any];
    for c in Cmp::ALL {
        for n in bounds {
            v.push(TT::Len(c, *n));
        }
    }
    v
}

const SIG_CRIT_TEMPLATE: &str = "OP_SIG OP_PUBKEY";

/// Slot patterns of the selection space: 1..=max slots, exactly one of them the shaped script (2),
/// the others a script that does not match (0) or a typical signature script (1).
fn sel_patterns(max: usize) -> Vec<Vec<usize>> {
    let mut v = vec![];
    for l in 1..=max {
        for pos in 0..l {
            for mask in 0..(1u32 << (l - 1)) {
                let mut p = vec![];
                let mut k = 0;
                for i in 0..l {
                    if i == pos {
                        p.push(2);
                    } else {
                        p.push(((mask >> k) & 1) as usize);
                        k += 1;
                    }
                }
                v.push(p);
            }
        }
    }
    v
}

fn shape_spaces(v: &mut Vec<Space>, env: &Arc<c17::Env>, tier: Tier) {
    let shapes = Arc::new(sig_shapes(tier));
    let keys = Arc::new(key_shapes());
    let ns = shapes.len() as u64;
    let nk = keys.len() as u64;
    // 6. every signature shape against the typed / length / own-data tokens
    {
        let (e, sh) = (env.clone(), shapes.clone());
        let toks = shape_tokens(&[72, 73]);
        let nt = toks.len() as u64 + 1;
        v.push(Space::new("sig-shape-x-token", ns * nt, move |case, acc| {
            let c = coords(case.idx, &[ns, nt]);
            let el = &sh[c[0] as usize].elem;
            let own;
            let t = match toks.get(c[1] as usize) {
                Some(t) => t,
                None => {
                    own = TT::Data(payload(el));
                    &own
                }
            };
            if case.idx == 3 * nt || case.idx == ns * nt - nt {
                acc.sample(case.idx, || json!({"space": "sig-shape-x-token", "template": t.render(&e), "element": el.label}));
            }
            eval_match(&[t], &[el], &e, acc, case);
        }));
    }
    // 7. every public-key shape against the typed / length / own-data tokens
    {
        let (e, ks) = (env.clone(), keys.clone());
        let toks = shape_tokens(&[33, 65]);
        let nt = toks.len() as u64 + 1;
        v.push(Space::new("key-shape-x-token", nk * nt, move |case, acc| {
            let c = coords(case.idx, &[nk, nt]);
            let el = &ks[c[0] as usize];
            let own;
            let t = match toks.get(c[1] as usize) {
                Some(t) => t,
                None => {
                    own = TT::Data(payload(el));
                    &own
                }
            };
            if case.idx == 100 * nt + 1 {
                acc.sample(case.idx, || json!({"space": "key-shape-x-token", "template": t.render(&e), "element": el.label}));
            }
            eval_match(&[t], &[el], &e, acc, case);
        }));
    }
    // 8. the unlocking-script form: OP_SIG OP_PUBKEY against (signature shape, key shape)
    {
        let (e, sh, ks) = (env.clone(), shapes.clone(), keys.clone());
        // thorough: every key shape; quick: the 33- and 65-byte ones (all tags, all coordinate sources)
        let kidx: Vec<usize> = (0..keys.len()).filter(|i| tier.is_thorough() || keys[*i].label.contains("len=33 ") || keys[*i].label.contains("len=65 ")).collect();
        let nki = kidx.len() as u64;
        let tmpl = [TT::Sig, TT::PubKey];
        v.push(Space::new("sig-shape-x-key-shape", ns * nki, move |case, acc| {
            let c = coords(case.idx, &[ns, nki]);
            let el = [&sh[c[0] as usize].elem, &ks[kidx[c[1] as usize]]];
            if case.idx == 5 * nki + 7 {
                acc.sample(case.idx, || json!({"space": "sig-shape-x-key-shape", "template": SIG_CRIT_TEMPLATE, "elements": el.iter().map(|x| x.label.clone()).collect::<Vec<_>>()}));
            }
            eval_match(&[&tmpl[0], &tmpl[1]], &el, &e, acc, case);
        }));
    }
    // 9. selection by an OP_SIG template: one slot carries the shaped signature
    {
        let tmpl = ScriptTemplate::from_asm_string(SIG_CRIT_TEMPLATE).expect("signature criteria template parses");
        let tts = [TT::Sig, TT::PubKey];
        let gkey = Elem::new("key:G compressed", "key-valid", vec![rs::minimal_push(&rsecp::encode_point(&rsecp::g(), true))]);
        let typical = {
            let n = rsecp::n();
            let r = rsecp::from_be(&pattern(4, 32)) % &n;
            let s = ((rsecp::from_be(&pattern(7, 32)) % &n) >> 8u32 << 8u32) + BigUint::from(0x7bu32);
            let mut b = rsecp::der_encode(&r, &s);
            b.push(0x41);
            Elem::new("sig:der(typical)+41", "sig-der+flag", vec![rs::minimal_push(&b)])
        };
        let mk = |els: &[&Elem], hinge: (&'static str, &'static str)| {
            let m = match ref_match(&[&tts[0], &tts[1]], els) {
                RefRes::Match(_) => Some(true),
                RefRes::NoMatch => Some(false),
                RefRes::Amb(_) => None,
            };
            let toks: Vec<Tok> = els.iter().flat_map(|e| e.toks.iter().cloned()).collect();
            let b = rs::serialize(&toks);
            CritScript { script: Script::from_bytes(&b).expect("criteria script parses"), matches: m, bytes: b, hinge }
        };
        let op1 = Elem::new("OP_1", "opcode", vec![Tok::Op(0x51)]);
        let op2 = Elem::new("OP_2", "opcode", vec![Tok::Op(0x52)]);
        let envs: Vec<CritEnv> = shapes
            .iter()
            .map(|sh| CritEnv {
                tmpl: tmpl.clone(),
                text: SIG_CRIT_TEMPLATE.to_string(),
                scripts: vec![mk(&[&op1, &op2], ("opcode-name", "opcode")), mk(&[&typical, &gkey], ("OP_SIG", "sig-der+flag")), mk(&[&sh.elem, &gkey], ("OP_SIG", sh.elem.class))],
            })
            .collect();
        assert!(envs[0].scripts[0].matches == Some(false) && envs[0].scripts[1].matches == Some(true));
        let envs = Arc::new(envs);
        let pats = Arc::new(sel_patterns(if tier.is_thorough() { 4 } else { 3 }));
        let np = pats.len() as u64;
        for side in [Side::Outputs, Side::Inputs] {
            let (envs, pats, sh) = (envs.clone(), pats.clone(), shapes.clone());
            let name = format!("sig-shape-{}-selection", side.name());
            let nm = name.clone();
            v.push(Space::new(&name, ns * np, move |case, acc| {
                let c = coords(case.idx, &[ns, np]);
                let ce = &envs[c[0] as usize];
                let slots: Vec<(usize, Option<u64>)> = pats[c[1] as usize].iter().enumerate().map(|(i, s)| (*s, if side == Side::Outputs { Some(1000 + i as u64) } else { None })).collect();
                if case.idx == 7 * np + 9 {
                    acc.sample(case.idx, || json!({"space": nm, "slots": pats[c[1] as usize].iter().map(|s| ["OP_1 OP_2", "typical signature + key", "shaped signature + key"][*s]).collect::<Vec<_>>(), "shaped_signature": sh[c[0] as usize].elem.label, "criteria_template": SIG_CRIT_TEMPLATE}));
                }
                eval_criteria(side, &slots, Crit { tmpl: true, exact: None, min: None, max: None, order: 0 }, ce, acc, case);
            }));
        }
    }
}

pub fn spaces(tier: Tier) -> Vec<Space> {
    let env = Arc::new(c17::env());
    let al = Arc::new(alphabet(&env, tier));
    let mut v = vec![];
    let (nt, ne) = (al.tokens.len() as u64, al.elems.len() as u64);
    // 1. every token against every element
    {
        let (e, a) = (env.clone(), al.clone());
        v.push(Space::new("token-x-element", nt * ne, move |case, acc| {
            let c = coords(case.idx, &[nt, ne]);
            let (t, el) = (&a.tokens[c[0] as usize], &a.elems[c[1] as usize]);
            if case.idx == 7 || case.idx == nt * ne / 2 {
                acc.sample(case.idx, || json!({"space": "token-x-element", "template": t.render(&e), "element": el.label}));
            }
            eval_match(&[t], &[el], &e, acc, case);
        }));
    }
    // 2. every pair against every pair over the reduced alphabets
    {
        let (e, a) = (env.clone(), al.clone());
        let (rt, re) = (al.rt.len() as u64, al.re.len() as u64);
        v.push(Space::new("pair-x-pair", rt * rt * re * re, move |case, acc| {
            let c = coords(case.idx, &[rt, rt, re, re]);
            let t = [&a.tokens[a.rt[c[0] as usize]], &a.tokens[a.rt[c[1] as usize]]];
            let el = [&a.elems[a.re[c[2] as usize]], &a.elems[a.re[c[3] as usize]]];
            if case.idx == 5000 {
                acc.sample(case.idx, || json!({"space": "pair-x-pair", "template": t.iter().map(|x| x.render(&e)).collect::<Vec<_>>().join(" "), "elements": el.iter().map(|x| x.label.clone()).collect::<Vec<_>>()}));
            }
            eval_match(&t, &el, &e, acc, case);
        }));
    }
    // 3. element count differs by one
    {
        let (e, a) = (env.clone(), al.clone());
        let (rt, re, r3) = (al.rt.len() as u64, al.re.len() as u64, al.re3.len() as u64);
        let n1 = nt * (1 + re * re); // one token vs 0 and 2 elements
        let n2 = rt * rt * (ne + r3 * r3 * r3); // two tokens vs 1 and 3 elements
        v.push(Space::new("count-off-by-one", n1 + n2, move |case, acc| {
            let mut t: Vec<&TT> = vec![];
            let mut el: Vec<&Elem> = vec![];
            if case.idx < n1 {
                let c = coords(case.idx, &[nt, 1 + re * re]);
                t.push(&a.tokens[c[0] as usize]);
                if c[1] > 0 {
                    let k = c[1] - 1;
                    el.push(&a.elems[a.re[(k / re) as usize]]);
                    el.push(&a.elems[a.re[(k % re) as usize]]);
                }
            } else {
                let c = coords(case.idx - n1, &[rt, rt, ne + r3 * r3 * r3]);
                t.push(&a.tokens[a.rt[c[0] as usize]]);
                t.push(&a.tokens[a.rt[c[1] as usize]]);
                if c[2] < ne {
                    el.push(&a.elems[c[2] as usize]);
                } else {
                    let k = c[2] - ne;
                    for d in [k / (r3 * r3), k / r3 % r3, k % r3] {
                        el.push(&a.elems[a.re3[d as usize]]);
                    }
                }
            }
            if case.idx == n1 + 17 {
                acc.sample(case.idx, || json!({"space": "count-off-by-one", "template": t.iter().map(|x| x.render(&e)).collect::<Vec<_>>().join(" "), "elements": el.iter().map(|x| x.label.clone()).collect::<Vec<_>>()}));
            }
            eval_match(&t, &el, &e, acc, case);
        }));
    }
    // 4. self-match of every conditional-free script of the C17 single / pair alphabets (and the empty script)
    {
        let singles = Arc::new(c17::single_alphabet(&env));
        let pairs = Arc::new(c17::pair_alphabet(&env, tier));
        let (ns, np) = (singles.len() as u64, pairs.len() as u64);
        v.push(Space::new("self-match", 1 + ns + np * np, move |case, acc| {
            let toks: Vec<Tok> = if case.idx == 0 {
                vec![]
            } else if case.idx <= ns {
                vec![singles[case.idx as usize - 1].clone()]
            } else {
                let k = case.idx - 1 - ns;
                vec![pairs[(k / np) as usize].clone(), pairs[(k % np) as usize].clone()]
            };
            if case.idx == 0 || case.idx == ns + 30 {
                acc.sample(case.idx, || json!({"space": "self-match", "script_hex": hx(&rs::serialize(&toks))}));
            }
            eval_self(&toks, acc, case);
        }));
    }
    // 5. criteria
    let ce = Arc::new(crit_env(&env));
    criteria_spaces(&mut v, Side::Outputs, tier, ce.clone());
    criteria_spaces(&mut v, Side::Inputs, tier, ce);
    // 6.-9. signature / public-key shape products
    shape_spaces(&mut v, &env, tier);
    v
}

fn run(ctx: &Ctx) -> Report {
    let mut r = Report::new(
        "templates as reference token lists rendered to text and parsed by ScriptTemplate::from_asm_string, scripts as reference token lists serialised and parsed by Script::from_bytes: every template token x every script element; every token pair x every element pair over reduced alphabets; element counts differing by one (1 token vs 0/2 elements, 2 tokens vs 1/3 elements); verdict, extracted (kind, payload) list and is_match compared with the reference matcher. Self-match: the empty script, every element of the C17 single alphabet and every ordered pair of the C17 pair alphabet against ScriptTemplate::from_script of itself. Criteria: one output/input x every value x script x template present/absent x exact/min/max each absent or any value of the bound set; 0..4 outputs/inputs over {matching, near-miss script} x {b-1,b,b+1[,absent]} x 16 presence combinations x 4 bounds; match_outputs/match_inputs vs reference index list, match_output/match_input vs its first element. Signature / key shapes: the full product {r length} x {top bit of r} x {s length} x {top bit of s, and for 32 bytes s below / above n/2} x {final byte of s flag-valued or not} x {no tail, each of the 12 standard flags, 40, 80, 00, 05, ff, two flags} of synthetic DER signatures (push lengths 8..74) and the full product {tag} x {total length} x {coordinates of G, 2G, an x not on the curve} of public-key pushes, each against OP_SIG, OP_PUBKEY, OP_PUBKEYHASH, OP_DATA, OP_DATA<cmp>N around the maximal lengths and its own bytes as exact data; OP_SIG OP_PUBKEY against every (signature shape, key shape) pair; match_outputs/match_inputs (and match_output/match_input) with the template criterion OP_SIG OP_PUBKEY over 1..3 slots, exactly one carrying the shaped signature, the others a non-matching or a typical signature script. Non-trivial = reference decides the case and the library result was compared; cases are distinct by construction.",
    );
    let env = c17::env();
    let al = alphabet(&env, ctx.tier);
    let shapes = sig_shapes(ctx.tier);
    let mut shape_classes = shapes.iter().map(|s| s.elem.class).collect::<Vec<_>>();
    shape_classes.sort();
    shape_classes.dedup();
    r.bounds = json!({
        "template_tokens": al.tokens.iter().map(|t| t.render(&env)).collect::<Vec<_>>(),
        "script_elements": al.elems.iter().map(|e| format!("{} [{}]", e.label, e.class)).collect::<Vec<_>>(),
        "reduced_tokens": al.rt.iter().map(|i| al.tokens[*i].render(&env)).collect::<Vec<_>>(),
        "reduced_elements": al.re.iter().map(|i| al.elems[*i].label.clone()).collect::<Vec<_>>(),
        "length_bounds_N": LEN_N.iter().chain(LEN_EXTRA.iter()).collect::<Vec<_>>(),
        "criteria_bounds": BOUNDS.iter().map(|b| b.to_string()).collect::<Vec<_>>(),
        "criteria_values": all_values().iter().map(|b| b.to_string()).collect::<Vec<_>>(),
        "criteria_template": CRIT_TEMPLATE,
        "max_outputs_inputs": if ctx.tier.is_thorough() { 5 } else { 4 },
        "sig_shape_value_byte_lengths_r_and_s": shape_lens(ctx.tier),
        "sig_shape_top_bit": ["clear", "set (DER integer gets a 00 pad byte)"],
        "sig_shape_s_extra": "32-byte s with top bit clear both below n/2 (low-S) and above n/2 (high-S)",
        "sig_shape_s_final_byte": SHAPE_S_LAST.iter().map(|b| format!("{:02x}", b)).collect::<Vec<_>>(),
        "sig_shape_tails": shape_tails().iter().map(|t| if t.is_empty() { "none".to_string() } else { hex::encode(t) }).collect::<Vec<_>>(),
        "sig_shape_elements": shapes.len(),
        "sig_shape_push_lengths": [shapes.iter().map(|s| s.push_len).min(), shapes.iter().map(|s| s.push_len).max()],
        "sig_shape_classes": shape_classes,
        "sig_shape_length_tokens_N": [72, 73],
        "key_shape_tags": KEY_TAGS.iter().map(|b| format!("{:02x}", b)).collect::<Vec<_>>(),
        "key_shape_total_lengths": KEY_LENS,
        "key_shape_coordinates": ["G", "2G", "x-not-on-curve (first x >= 1 for which x^3+7 is no square)"],
        "key_shape_length_tokens_N": [33, 65],
        "sig_selection_template": SIG_CRIT_TEMPLATE,
        "sig_selection_max_slots": if ctx.tier.is_thorough() { 4 } else { 3 },
        "deviation_bound": "n/a (full enumeration)"
    });
    r.assumptions.push("extracted values are the pushes matched by OP_DATA / OP_DATA<op>N / OP_SIG / OP_PUBKEY / OP_PUBKEYHASH tokens (as in the library's documented example); pushes matched by exact hex data are not expected in the list".into());
    r.assumptions.push("excluded as undecided by the statement (counted in counters excluded_undecided/*): OP_0 against OP_DATA-family tokens it would satisfy as an empty push; non-minimal pushes against exact-data/OP_SIG/OP_PUBKEY/OP_PUBKEYHASH tokens; DER followed by a byte outside the twelve standard sighash flags; scripts with a conditional block whenever counting the block as one element and counting its opcodes give different answers; inputs without satoshis under a value criterion".into());
    r.assumptions.push("exact-data template tokens whose hex text is 10..16 are not used in direct pairs (alias/hex ambiguity of the grammar, see C17); the self-match space covers them because the statement demands self-match".into());
    r.assumptions.push("signature shapes use synthetic (r, s) values (no key signed anything): the OP_SIG token is about decoding, not verification; whether s is above n/2 (high-S) is not a criterion of the statement, so high-S signatures are expected to match".into());
    r.assumptions.push("inputs carry no locking script, so the finalised script is the unlocking script".into());
    run_spaces(ctx, &mut r, spaces(ctx.tier));
    r
}

fn replay(case: &Value) -> Vec<(String, String)> {
    replay_spaces(spaces, case)
}
