//! C03 (FORKID sighash preimage + signing) and C10 (legacy sighash preimage).
use super::{hx, replay_spaces, run_spaces, Case, Prop, Space};
use crate::engine::{coords, guard, panic_site, Acc, Ctx, Report, Tier};
use crate::refs::secp;
use crate::refs::sighash::{self as sh, Pre};
use crate::refs::wire::{self as rw, RIn, ROut, RTx};
use crate::refs::{hashes, script as rs};
use bsv::{PrivateKey, PublicKey, Script, SigHash, Transaction};
use serde_json::{json, Value};

pub const PROP_C03: Prop = Prop {
    run: run_c03,
    replay: replay_c03,
    spaces: Some(spaces_c03),
    level_note: "trusted base: refs::sighash (replay-protected digest algorithm, bound to the bsv.js vectors of the repository's tests), refs::secp ECDSA verifier, refs::wire; every library call is made on a freshly parsed transaction so the verdict does not depend on the hash cache (that is C04)",
};

pub const PROP_C10: Prop = Prop {
    run: run_c10,
    replay: replay_c10,
    spaces: Some(spaces_c10),
    level_note: "trusted base: refs::sighash::legacy_preimage (original SignatureHash, bound to the bsv.js vectors of the repository's tests), refs::script tokenizer for code-separator removal, refs::wire",
};

const SEQS: [u32; 5] = [0xffffffff, 0, 1, 0x01020304, 0xfffffffe];
const VALS: [u64; 4] = [0, 1, 0x0102030405060708, u64::MAX];
const VERLOCK: [u32; 4] = [0, 2, 0x01020304, 0xffffffff];

fn txid(k: usize) -> [u8; 32] {
    let mut t = [0u8; 32];
    for (i, x) in t.iter_mut().enumerate() {
        *x = (i as u8).wrapping_mul(3).wrapping_add(17u8.wrapping_mul((k as u8).wrapping_add(1)));
    }
    t[31] ^= (k >> 8) as u8;
    t
}

fn p2pkh(tag: u8) -> Vec<u8> {
    let mut s = vec![0x76, 0xa9, 0x14];
    s.extend((0..20).map(|i| tag.wrapping_add(i)));
    s.extend_from_slice(&[0x88, 0xac]);
    s
}

fn base_tx(n_in: usize, n_out: usize, seqs: &[u32], other_scripts: bool) -> RTx {
    RTx {
        version: 0x01020304,
        locktime: 0x0a0b0c0d,
        inputs: (0..n_in)
            .map(|k| RIn { txid_wire: txid(k), vout: 0x0100 + k as u32, script: if other_scripts { vec![0x01, 0x40u8.wrapping_add(k as u8), 0x51] } else { vec![] }, sequence: seqs[k] })
            .collect(),
        outputs: (0..n_out).map(|k| ROut { value: 0x0102030405060700 + k as u64, script: if k % 2 == 0 { p2pkh(k as u8) } else { vec![0x6a, 0x02, 0xbe, 0xef] } }).collect(),
    }
}

fn flag_to_sighash(flag: u32) -> Option<SigHash> {
    SigHash::try_from(flag as u8).ok()
}

/// Name of the FORKID preimage field containing byte offset `off`.
fn forkid_field(off: usize, script_len: usize) -> &'static str {
    let cs = rw::cs_encode(script_len as u64).len();
    let marks = [
        (4, "version"),
        (36, "hashPrevouts"),
        (68, "hashSequence"),
        (104, "outpoint"),
        (104 + cs, "scriptlen"),
        (104 + cs + script_len, "subscript"),
        (112 + cs + script_len, "value"),
        (116 + cs + script_len, "sequence"),
        (148 + cs + script_len, "hashOutputs"),
        (152 + cs + script_len, "locktime"),
        (156 + cs + script_len, "type"),
    ];
    for (end, name) in marks {
        if off < end {
            return name;
        }
    }
    "length"
}

fn first_diff(a: &[u8], b: &[u8]) -> usize {
    a.iter().zip(b.iter()).position(|(x, y)| x != y).unwrap_or(a.len().min(b.len()))
}

/// Name the first transaction component in which two legacy preimages differ.
fn legacy_component(lib: &[u8], want: &[u8]) -> String {
    if lib.len() < 4 || want.len() < 4 {
        return "length".into();
    }
    let (lt, wt) = (rw::decode(&lib[..lib.len() - 4]), rw::decode(&want[..want.len() - 4]));
    match (lt, wt) {
        (Ok(l), Ok(w)) => {
            let (l, w) = (l.tx, w.tx);
            if l.version != w.version {
                return "version".into();
            }
            if l.inputs.len() != w.inputs.len() {
                return "input-count".into();
            }
            for (a, b) in l.inputs.iter().zip(w.inputs.iter()) {
                if a.txid_wire != b.txid_wire || a.vout != b.vout {
                    return "input-outpoint".into();
                }
                if a.script != b.script {
                    return "input-script".into();
                }
                if a.sequence != b.sequence {
                    return "input-sequence".into();
                }
            }
            if l.outputs.len() != w.outputs.len() {
                return "output-count".into();
            }
            if l.outputs != w.outputs {
                return "outputs".into();
            }
            if l.locktime != w.locktime {
                return "locktime".into();
            }
            if lib[lib.len() - 4..] != want[want.len() - 4..] {
                return "type".into();
            }
            "bytes".into()
        }
        _ => "unparseable".into(),
    }
}

struct Q<'a> {
    tx: &'a RTx,
    idx: usize,
    subscript: &'a [u8],
    value: u64,
    flag: u32,
}

/// One preimage comparison on a freshly parsed transaction.
fn check_preimage(prop: &str, q: &Q, acc: &mut Acc, case: &Case) {
    acc.evaluations += 1;
    acc.transitions += 2;
    acc.traces += 1;
    acc.nontrivial_structural += 1;
    let input = || json!({"tx_hex": hx(&q.tx.encode()), "input_index": q.idx, "subscript_hex": hx(q.subscript), "value": q.value, "flag": format!("0x{:02x}", q.flag)});
    let want = sh::preimage(q.tx, q.idx, q.subscript, q.value, q.flag);
    let txb = q.tx.encode();
    let Some(sigh) = flag_to_sighash(q.flag) else {
        acc.violate(format!("{}/flag=0x{:02x}/kind=flag-not-representable", prop, q.flag), case.idx, case.json(input()), "SigHash::try_from failed");
        return;
    };
    let lib = guard(|| {
        let mut tx = Transaction::from_bytes(&txb).map_err(|e| format!("from_bytes: {}", e))?;
        let script = Script::from_bytes(q.subscript).map_err(|e| format!("subscript: {}", e))?;
        tx.sighash_preimage(sigh, q.idx, &script, q.value).map_err(|e| e.to_string())
    });
    match (lib, want) {
        (Err(p), _) => {
            acc.outcome(b"panic");
            acc.violate(format!("{}/preimage/flag=0x{:02x}/kind=panic@{}", prop, q.flag, panic_site(&p)), case.idx, case.json(input()), p);
        }
        (Ok(Err(_)), Pre::SingleOutOfRange(_)) => acc.outcome(b"refused-single"),
        (Ok(Err(e)), _) => {
            acc.outcome(b"err");
            acc.violate(format!("{}/preimage/flag=0x{:02x}/kind=spurious-error", prop, q.flag), case.idx, case.json(input()), e);
        }
        (Ok(Ok(got)), Pre::Bytes(w)) | (Ok(Ok(got)), Pre::SingleOutOfRange(w)) => {
            acc.outcome(&[q.flag as u8, (got == w) as u8]);
            if got != w {
                let what = if q.flag & sh::FORKID != 0 {
                    format!("field={}", forkid_field(first_diff(&got, &w), q.subscript.len()))
                } else {
                    format!("component={}", legacy_component(&got, &w))
                };
                acc.violate(format!("{}/preimage/flag=0x{:02x}/{}", prop, q.flag, what), case.idx, case.json(input()), format!("library={} specified={}", hx(&got), hx(&w)));
            }
        }
        (Ok(Ok(_)), Pre::NoSuchInput) => {}
    }
}

/// All (n_in, n_out, idx, seq-tuple) shapes, flattened.
fn shapes(max_in: usize, nseq: usize) -> Vec<(usize, usize, usize, Vec<u32>)> {
    let mut v = vec![];
    for n_in in 1..=max_in {
        for n_out in 0..=3usize {
            for idx in 0..n_in {
                let total = nseq.pow(n_in as u32);
                for t in 0..total {
                    let mut seqs = vec![];
                    let mut r = t;
                    for _ in 0..n_in {
                        seqs.push(SEQS[r % nseq]);
                        r /= nseq;
                    }
                    v.push((n_in, n_out, idx, seqs));
                }
            }
        }
    }
    v
}

fn subscript_of(len: usize, realisation: u64) -> Vec<u8> {
    if realisation == 0 || len < 6 {
        return vec![0x61; len];
    }
    // one push filling as much as possible, NOP filler for the rest
    for overhead in [1usize, 2, 3, 5] {
        if len >= overhead + 1 {
            let n = len - overhead;
            let p = rs::minimal_push_prefix(n as u64);
            if p.len() == overhead {
                let mut s = p;
                s.extend((0..n).map(|i| (i * 7 + 3) as u8));
                return s;
            }
        }
    }
    vec![0x61; len]
}

const SUB_LENS: [usize; 9] = [0, 1, 25, 252, 253, 254, 65535, 65536, 65537];

fn common_spaces(prop: &'static str, flags: [u32; 6], tier: Tier, other_scripts: bool) -> Vec<Space> {
    let mut v = vec![];
    let nseq = if tier.is_thorough() { 5 } else { 4 };
    let sh_list = std::sync::Arc::new(shapes(if tier.is_thorough() { 4 } else { 3 }, nseq));
    let n = sh_list.len() as u64;
    {
        let l = sh_list.clone();
        v.push(Space::new("shapes", n * 6, move |case, acc| {
            let c = coords(case.idx, &[n, 6]);
            let (n_in, n_out, idx, seqs) = &l[c[0] as usize];
            let tx = base_tx(*n_in, *n_out, seqs, other_scripts);
            let sub = p2pkh(0x33);
            acc.sample(case.idx, || json!({"space": "shapes", "n_in": n_in, "n_out": n_out, "idx": idx, "sequences": seqs, "flag": format!("0x{:02x}", flags[c[1] as usize])}));
            check_preimage(prop, &Q { tx: &tx, idx: *idx, subscript: &sub, value: 0x0807060504030201, flag: flags[c[1] as usize] }, acc, case);
        }));
    }
    // outputs forced to collide: every tuple of 1..3 outputs over two distinct outputs {A, B} (equal outputs included)
    {
        let mut tuples: Vec<Vec<u8>> = vec![];
        for n in 1..=3usize {
            for m in 0..(1u32 << n) {
                tuples.push((0..n).map(|k| ((m >> k) & 1) as u8).collect());
            }
        }
        let nt = tuples.len() as u64;
        v.push(Space::new("output-tuples", nt * 6 * 3, move |case, acc| {
            let c = coords(case.idx, &[nt, 6, 3]);
            let t = &tuples[c[0] as usize];
            let mut tx = base_tx(3, 0, &[0x01020304, 0xfffffffe, 7], other_scripts);
            tx.outputs = t.iter().map(|k| if *k == 0 { ROut { value: 1000, script: p2pkh(0xaa) } } else { ROut { value: 2000, script: p2pkh(0xbb) } }).collect();
            let sub = vec![0xac];
            check_preimage(prop, &Q { tx: &tx, idx: c[2] as usize, subscript: &sub, value: 9, flag: flags[c[1] as usize] }, acc, case);
        }));
    }
    v.push(Space::new("ints", 4 * 4 * 4 * 6 * 2, move |case, acc| {
        let c = coords(case.idx, &[4, 4, 4, 6, 2]);
        let mut tx = base_tx(2, 2, &[0x01020304, 0xfffffffe], other_scripts);
        tx.version = VERLOCK[c[0] as usize];
        tx.locktime = VERLOCK[c[1] as usize];
        let sub = vec![0xac];
        check_preimage(prop, &Q { tx: &tx, idx: c[4] as usize, subscript: &sub, value: VALS[c[2] as usize], flag: flags[c[3] as usize] }, acc, case);
    }));
    // single-bit and all-ones-below patterns in every integer field (byte-order and masking slips that boundary values hide)
    v.push(Space::new("field-bit-patterns", 4 * 66 * 2 * 6, move |case, acc| {
        let c = coords(case.idx, &[4, 66, 2, 6]);
        let k = c[1] as u32;
        let pow = |bits: u32| -> u64 { if k >= bits { u64::MAX >> (64 - bits) } else { 1u64 << k } };
        let v64 = if c[2] == 0 { pow(64) } else { pow(64).wrapping_sub(1) };
        let v32 = (if c[2] == 0 { pow(32) } else { pow(32).wrapping_sub(1) }) as u32;
        let mut tx = base_tx(2, 2, &[0x01020304, 0xfffffffe], other_scripts);
        let mut value = 0x0102030405060708u64;
        match c[0] {
            0 => tx.version = v32,
            1 => tx.locktime = v32,
            2 => {
                tx.inputs[0].sequence = v32;
                tx.inputs[1].vout = v32.rotate_left(8);
            }
            _ => {
                value = v64;
                tx.outputs[1].value = v64.rotate_left(16);
            }
        }
        let sub = vec![0xac];
        check_preimage(prop, &Q { tx: &tx, idx: 1, subscript: &sub, value, flag: flags[c[3] as usize] }, acc, case);
    }));
    // every subscript length 0..=N (interior lengths)
    {
        let maxlen: u64 = if tier.is_thorough() { 66000 } else { 1100 };
        v.push(Space::new("subscript-length-sweep", (maxlen + 1) * 2, move |case, acc| {
            let c = coords(case.idx, &[maxlen + 1, 2]);
            let tx = base_tx(2, 2, &[5, 0xfffffffe], other_scripts);
            let sub = subscript_of(c[0] as usize, 1);
            check_preimage(prop, &Q { tx: &tx, idx: c[1] as usize, subscript: &sub, value: 7, flag: flags[(c[0] % 6) as usize] }, acc, case);
        }));
    }
    // larger shapes: every (n_in 1..=N, n_out 0..=N, input index) with all-distinct inputs and outputs, six flags
    {
        let nmax: u64 = if tier.is_thorough() { 24 } else { 8 };
        let mut sh3: Vec<(usize, usize, usize)> = vec![];
        for n_in in 1..=nmax as usize {
            for n_out in 0..=nmax as usize {
                for idx in 0..n_in {
                    sh3.push((n_in, n_out, idx));
                }
            }
        }
        let n3 = sh3.len() as u64;
        v.push(Space::new("larger-shapes", n3 * 6, move |case, acc| {
            let c = coords(case.idx, &[n3, 6]);
            let (n_in, n_out, idx) = sh3[c[0] as usize];
            let seqs: Vec<u32> = (0..n_in).map(|k| 0xfffffff0u32.wrapping_add(k as u32 * 3)).collect();
            let tx = base_tx(n_in, n_out, &seqs, other_scripts);
            let sub = p2pkh(0x35);
            check_preimage(prop, &Q { tx: &tx, idx, subscript: &sub, value: 0x0807060504030201, flag: flags[c[1] as usize] }, acc, case);
        }));
    }
    // many inputs / outputs: counts well beyond the shape grid, signed index first / interior / last, six flags
    {
        let counts: Vec<(usize, usize)> = vec![(16, 1), (30, 30), (33, 2), (64, 65), (100, 3), (253, 1), (1, 253), (300, 300)];
        let nc = counts.len() as u64;
        v.push(Space::new("many-inputs-outputs", nc * 4 * 6, move |case, acc| {
            let c = coords(case.idx, &[nc, 4, 6]);
            let (n_in, n_out) = counts[c[0] as usize];
            let idx = [0usize, n_in / 2, n_in.saturating_sub(2), n_in - 1][c[1] as usize];
            let seqs: Vec<u32> = (0..n_in).map(|k| 0xffff0000u32.wrapping_add(k as u32 * 7)).collect();
            let tx = base_tx(n_in, n_out, &seqs, other_scripts);
            let sub = p2pkh(0x36);
            check_preimage(prop, &Q { tx: &tx, idx, subscript: &sub, value: 12345, flag: flags[c[2] as usize] }, acc, case);
        }));
    }
    // relations between inputs: three inputs whose txid / vout / sequence are each drawn from {A, B}
    // (equal outpoints, equal txids with different vouts, equal sequences ...), spent value in {0, 1, 2} (may equal the index)
    {
        let ni: u64 = if tier.is_thorough() { 4 } else { 3 };
        let combos = 8u64.pow(ni as u32);
        v.push(Space::new("input-relations", combos * 6 * ni * 3, move |case, acc| {
            let c = coords(case.idx, &[combos, 6, ni, 3]);
            let mut tx = base_tx(ni as usize, 2, &vec![0; ni as usize], other_scripts);
            for k in 0..ni as usize {
                let bits = (c[0] >> (3 * k)) & 7;
                tx.inputs[k].txid_wire = txid((bits & 1) as usize);
                tx.inputs[k].vout = if bits & 2 == 0 { 0 } else { 1 };
                tx.inputs[k].sequence = if bits & 4 == 0 { 0xffffffff } else { 2 };
            }
            let sub = vec![0xac];
            check_preimage(prop, &Q { tx: &tx, idx: c[2] as usize, subscript: &sub, value: c[3], flag: flags[c[1] as usize] }, acc, case);
        }));
    }
    // content sweep: one (or two adjacent) byte(s) through all 256 values at every position of the signed input's txid,
    // of another input's txid, of a 24-byte push in the subscript and of a 24-byte push in an output script
    v.push(Space::new("content-sweep", (32 + 32 + 24 + 24) * 256 * 2, move |case, acc| {
        let c = coords(case.idx, &[112, 256, 2]);
        let (pos, b, adjacent) = (c[0] as usize, c[1] as u8, c[2] == 1);
        let mut tx = base_tx(2, 2, &[0xfffffffe, 3], other_scripts);
        let mut sub: Vec<u8> = std::iter::once(24u8).chain((0..24).map(|i| (0x90 + i) as u8)).collect();
        sub.push(0xac);
        let put = |buf: &mut [u8], at: usize| {
            buf[at] = b;
            if adjacent {
                let n = buf.len();
                buf[(at + 1) % n] = b;
            }
        };
        if pos < 32 {
            put(&mut tx.inputs[0].txid_wire, pos);
        } else if pos < 64 {
            put(&mut tx.inputs[1].txid_wire, pos - 32);
        } else if pos < 88 {
            put(&mut sub[1..25], pos - 64);
        } else {
            let mut sc: Vec<u8> = std::iter::once(24u8).chain((0..24).map(|i| (0x40 + i) as u8)).collect();
            put(&mut sc[1..25], pos - 88);
            sc.push(0x87);
            tx.outputs[1].script = sc;
        }
        check_preimage(prop, &Q { tx: &tx, idx: 0, subscript: &sub, value: 5000, flag: flags[((c[0] + c[1]) % 6) as usize] }, acc, case);
    }));
    // transaction objects whose inputs carry the non-serialised annotations (satoshis, locking script) and unlocking scripts:
    // the preimage is a function of the arguments and the serialised contents only — an annotation that differs from the
    // value / subscript argument must not leak into it. Objects are built through the API and, in a second variant, loaded
    // from the library's JSON form (which keeps the annotations).
    v.push(Space::new("annotated-inputs", 6 * 2 * 8 * 3 * 2, move |case, acc| {
        let c = coords(case.idx, &[6, 2, 8, 3, 2]);
        let flag = flags[c[0] as usize];
        let idx = c[1] as usize;
        let (ann_sat, ann_lock, ann_unlock) = (c[2] & 1 != 0, c[2] & 2 != 0, c[2] & 4 != 0);
        let value: u64 = 50_000;
        let ann_value = [value - 1, value + 0x1_0000_0000, 0u64][c[3] as usize];
        let via_json = c[4] == 1;
        let mut model = base_tx(2, 2, &[0xfffffffe, 7], other_scripts);
        if ann_unlock {
            model.inputs[idx].script = vec![0x02, 0xca, 0xfe, 0x51];
        }
        let sub = p2pkh(0x66);
        acc.evaluations += 1;
        acc.transitions += 3;
        acc.traces += 1;
        acc.nontrivial_structural += 1;
        let input = json!({"flag": format!("0x{:02x}", flag), "input_index": idx, "annotations_on_every_input": {"satoshis": if ann_sat { Some(ann_value) } else { None }, "locking_script": if ann_lock { Some("51 (differs from the subscript)") } else { None }}, "unlocking_script_on_signed_input": ann_unlock, "value_argument": value, "loaded_from_json": via_json, "tx_hex": hx(&model.encode())});
        let m = model.clone();
        let sub2 = sub.clone();
        let lib = guard(move || -> Result<Vec<u8>, String> {
            let es = |e: bsv::BSVErrors| e.to_string();
            let mut t = Transaction::new(m.version, m.locktime);
            for i in &m.inputs {
                let mut ti = bsv::TxIn::new(&i.txid_display(), i.vout, &Script::from_bytes(&i.script).map_err(es)?, Some(i.sequence));
                if ann_sat {
                    ti.set_satoshis(ann_value);
                }
                if ann_lock {
                    ti.set_locking_script(&Script::from_bytes(&[0x51]).map_err(es)?);
                }
                t.add_input(&ti);
            }
            for o in &m.outputs {
                t.add_output(&bsv::TxOut::new(o.value, &Script::from_bytes(&o.script).map_err(es)?));
            }
            if via_json {
                t = Transaction::from_json_string(&t.to_json_string().map_err(es)?).map_err(es)?;
            }
            t.sighash_preimage(flag_to_sighash(flag).ok_or("flag")?, idx, &Script::from_bytes(&sub2).map_err(es)?, value).map_err(es)
        });
        let want = sh::preimage(&model, idx, &sub, value, flag);
        match (lib, want) {
            (Err(p), _) => acc.violate(format!("{}/annotated-inputs/kind=panic@{}", prop, panic_site(&p)), case.idx, case.json(input), p),
            (Ok(Err(_)), Pre::SingleOutOfRange(_)) => acc.outcome(b"refused-single"),
            (Ok(Err(e)), _) => acc.violate(format!("{}/annotated-inputs/kind=spurious-error", prop), case.idx, case.json(input), e),
            (Ok(Ok(got)), Pre::Bytes(w)) | (Ok(Ok(got)), Pre::SingleOutOfRange(w)) => {
                acc.outcome(&[0x55, (got == w) as u8]);
                if got != w {
                    let what = if flag & sh::FORKID != 0 { format!("field={}", forkid_field(first_diff(&got, &w), sub.len())) } else { format!("component={}", legacy_component(&got, &w)) };
                    acc.violate(format!("{}/annotated-inputs/{}", prop, what), case.idx, case.json(input), format!("library={} specified={}", hx(&got), hx(&w)));
                }
            }
            (Ok(Ok(_)), Pre::NoSuchInput) => {}
        }
    }));
    v.push(Space::new("subscripts", 9 * 2 * 6 * 2, move |case, acc| {
        let c = coords(case.idx, &[9, 2, 6, 2]);
        let tx = base_tx(2, 2, &[5, 0xfffffffe], other_scripts);
        let sub = subscript_of(SUB_LENS[c[0] as usize], c[1]);
        check_preimage(prop, &Q { tx: &tx, idx: c[3] as usize, subscript: &sub, value: 7, flag: flags[c[2] as usize] }, acc, case);
    }));
    v
}

// ---------------------------------------------------------------- C03

const KEYS: [&str; 4] = [
    "0000000000000000000000000000000000000000000000000000000000000001",
    "fffffffffffffffffffffffffffffffebaaedce6af48a03bbfd25e8cd0364140",
    "7fffffffffffffffffffffffffffffff5d576e7357a4501ddfe92f46681b20a0",
    "c0ffee254729296a45a3885639ac7e10f9d54979a0f5b2d1e8b1c4a7d3f6e5b9",
];

pub fn spaces_c03(tier: Tier) -> Vec<Space> {
    let mut v = common_spaces("C03", sh::FORKID_FLAGS, tier, false);
    // subscripts containing OP_CODESEPARATOR: the FORKID digest commits to the subscript byte for byte
    {
        let subs = std::sync::Arc::new(codesep_subscripts());
        let n = subs.len() as u64;
        v.push(Space::new("codeseparators-kept", n * 6 * 2, move |case, acc| {
            let c = coords(case.idx, &[n, 6, 2]);
            let (_desc, sub) = &subs[c[0] as usize];
            let tx = base_tx(2, 2, &[7, 0xfffffffe], false);
            check_preimage("C03", &Q { tx: &tx, idx: c[2] as usize, subscript: sub, value: 3, flag: sh::FORKID_FLAGS[c[1] as usize] }, acc, case);
        }));
    }
    v.push(skeleton_space("C03", sh::FORKID_FLAGS, tier, false));
    // bounded histories with the SPEC as oracle: build through the construction API, observe with flag f1,
    // apply one mutation, observe with flag f2 — the second preimage must equal the specification on the new contents
    {
        v.push(Space::new("construct-observe-mutate-observe", 6 * 6 * HIST_MUTATIONS.len() as u64 * 2, move |case, acc| {
            let c = coords(case.idx, &[6, 6, HIST_MUTATIONS.len() as u64, 2]);
            let (f1, f2) = (sh::FORKID_FLAGS[c[0] as usize], sh::FORKID_FLAGS[c[1] as usize]);
            let mutation = HIST_MUTATIONS[c[2] as usize];
            let idx = c[3] as usize;
            history_case("C03", acc, case, f1, f2, &[mutation], idx);
        }));
        // every ordered triple (thorough: quadruple) of mutations, each preceded by an observation
        let nm = HIST_MUTATIONS.len() as u64;
        let depth: u32 = if tier.is_thorough() { 4 } else { 3 };
        let nflags: u64 = 6;
        v.push(Space::new("construct-observe-mutate-sequences", nflags * nflags * nm.pow(depth) * 2, move |case, acc| {
            let c = coords(case.idx, &[nflags, nflags, nm.pow(depth), 2]);
            let pick = |k: u64| sh::FORKID_FLAGS[k as usize];
            let (f1, f2) = (pick(c[0]), pick(c[1]));
            let mut ms = vec![];
            let mut r = c[2];
            for _ in 0..depth {
                ms.push(HIST_MUTATIONS[(r % nm) as usize]);
                r /= nm;
            }
            if ms.iter().any(|m| *m == "none") {
                return;
            }
            history_case("C03", acc, case, f1, f2, &ms, c[3] as usize);
        }));
    }
    // sign leg: signature over the specified preimage must verify under the reference verifier
    let sl = std::sync::Arc::new(shapes(if tier.is_thorough() { 3 } else { 2 }, 2));
    let n = sl.len() as u64;
    v.push(Space::new("sign", n * 6 * 4, move |case, acc| {
        let c = coords(case.idx, &[n, 6, 4]);
        let (n_in, n_out, idx, seqs) = &sl[c[0] as usize];
        let tx = base_tx(*n_in, *n_out, seqs, false);
        let flag = sh::FORKID_FLAGS[c[1] as usize];
        let sub = p2pkh(0x44);
        eval_sign(acc, case, &tx, *idx, &sub, 0x1122334455667788u64, flag, KEYS[c[2] as usize], false);
    }));
    // the signing entry points must sign the preimage of the subscript AS GIVEN (the FORKID digest keeps every
    // OP_CODESEPARATOR): every separator-bearing subscript x flag x two keys x {sign, sign_with_k}
    {
        let subs = std::sync::Arc::new(codesep_subscripts());
        let ns = subs.len() as u64;
        v.push(Space::new("sign-subscripts", ns * 6 * 2 * 2, move |case, acc| {
            let c = coords(case.idx, &[ns, 6, 2, 2]);
            let tx = base_tx(2, 2, &[7, 0xfffffffe], false);
            let (_d, sub) = &subs[c[0] as usize];
            eval_sign(acc, case, &tx, 1, sub, 3, sh::FORKID_FLAGS[c[1] as usize], KEYS[(c[2] * 3) as usize], c[3] == 1);
        }));
    }
    v
}

#[allow(clippy::too_many_arguments)]
fn eval_sign(acc: &mut Acc, case: &Case, tx: &RTx, idx: usize, sub: &[u8], value: u64, flag: u32, keyhex: &str, with_k: bool) {
    let idx = &idx;
        acc.evaluations += 1;
        acc.transitions += 3;
        let want = sh::forkid_preimage(tx, *idx, sub, value, flag);
        let txb = tx.encode();
        let input = json!({"tx_hex": hx(&txb), "input_index": idx, "flag": format!("0x{:02x}", flag), "key": keyhex, "subscript": hx(sub), "entry": if with_k { "sign_with_k" } else { "sign" }});
        let lib = guard(|| {
            let mut t = Transaction::from_bytes(&txb).map_err(|e| e.to_string())?;
            let script = Script::from_bytes(sub).map_err(|e| e.to_string())?;
            let pk = PrivateKey::from_hex(keyhex).map_err(|e| e.to_string())?;
            let sig = if with_k {
                // caller-supplied nonce: any valid nonce gives a valid signature
                let k = PrivateKey::from_hex("00000000000000000000000000000000000000000000000000000000000a11ce").map_err(|e| e.to_string())?;
                t.sign_with_k(&pk, &k, flag_to_sighash(flag).unwrap(), *idx, &script, value).map_err(|e| e.to_string())?
            } else {
                t.sign(&pk, flag_to_sighash(flag).unwrap(), *idx, &script, value).map_err(|e| e.to_string())?
            };
            let bytes = sig.to_bytes().map_err(|e| e.to_string())?;
            // verify and its digest-level twin _verify (plain byte order) must both accept the library's own signature
            let ok = t.verify(&PublicKey::from_private_key(&pk), &sig) && t._verify(&PublicKey::from_private_key(&pk), &sig, false);
            Ok::<_, String>((bytes, ok))
        });
        match (lib, want) {
            (Err(p), _) => acc.violate(format!("C03/sign/kind=panic@{}", panic_site(&p)), case.idx, case.json(input), p),
            (Ok(Err(_)), Pre::SingleOutOfRange(_)) => acc.outcome(b"refused-single"),
            (Ok(Err(e)), _) => acc.violate(format!("C03/sign/flag=0x{:02x}/kind=spurious-error", flag), case.idx, case.json(input), e),
            (Ok(Ok((bytes, lib_ok))), Pre::Bytes(w)) | (Ok(Ok((bytes, lib_ok))), Pre::SingleOutOfRange(w)) => {
                acc.traces += 1;
                acc.nontrivial_structural += 1;
                acc.outcome(&bytes[4..8.min(bytes.len())]);
                if bytes.last().copied() != Some(flag as u8) {
                    acc.violate("C03/sign/kind=flag-byte-missing", case.idx, case.json(input.clone()), format!("signature bytes {}", hx(&bytes)));
                    return;
                }
                let der = &bytes[..bytes.len() - 1];
                match secp::der_decode(der) {
                    Some((r, s)) => {
                        let d = secp::from_be(&hex::decode(keyhex).unwrap());
                        let qpt = secp::mul_g(&d);
                        let z = secp::from_be(&hashes::sha256d(&w)) % secp::n();
                        if !secp::verify(&qpt, &z, &r, &s) {
                            acc.violate(
                                format!("C03/sign/flag=0x{:02x}/kind=does-not-verify-against-specified-preimage", flag),
                                case.idx,
                                case.json(input.clone()),
                                format!("DER {} does not verify under the signer's key for sha256d(specified preimage)", hx(der)),
                            );
                        }
                        if s > secp::half_n() {
                            acc.violate("C03/sign/kind=high-s", case.idx, case.json(input.clone()), hx(der));
                        }
                    }
                    None => acc.violate("C03/sign/kind=not-strict-der", case.idx, case.json(input.clone()), hx(der)),
                }
                if !lib_ok {
                    acc.violate("C03/sign/kind=library-verify-rejects-own-signature", case.idx, case.json(input), hx(&bytes));
                }
            }
            (Ok(Ok(_)), Pre::NoSuchInput) => {}
        }
}

const HIST_MUTATIONS: [&str; 14] = [
    "none",
    "set_input(same outpoint, other sequence)",
    "set_input(same txid, other vout)",
    "set_input(other txid)",
    "set_output(same script, other value)",
    "set_output(other script, same value)",
    "set_version",
    "set_nlocktime",
    "add_input",
    "add_output",
    "add_inputs(two)",
    "add_outputs(two)",
    "add_outputs(two) from no outputs",
    "add_inputs(one) add_outputs(one)",
];

fn lib_txin(i: &RIn) -> bsv::TxIn {
    bsv::TxIn::new(&i.txid_display(), i.vout, &Script::from_bytes(&i.script).unwrap(), Some(i.sequence))
}

fn lib_txout(o: &ROut) -> bsv::TxOut {
    bsv::TxOut::new(o.value, &Script::from_bytes(&o.script).unwrap())
}

fn history_case(prop: &str, acc: &mut Acc, case: &Case, f1: u32, f2: u32, mutations: &[&str], idx: usize) {
    acc.evaluations += 1;
    acc.transitions += 2 + 2 * mutations.len() as u64;
    acc.traces += 1;
    acc.nontrivial_structural += 1;
    let mut model = base_tx(2, 2, &[0x01020304, 0xfffffffe], false);
    let sub = p2pkh(0x55);
    let value = 0x0102030405u64;
    let input = json!({"flag_before": format!("0x{:02x}", f1), "mutations": mutations, "flag_after": format!("0x{:02x}", f2), "input_index": idx, "note": "the transaction is observed with flag_before before the first and after every mutation but the last, and with flag_after at the end"});
    if mutations.contains(&"add_outputs(two) from no outputs") {
        model.outputs.clear();
    }
    let m0 = model.clone();
    // operands of the k-th mutation of a history differ from those of the others
    let tag = |k: usize| (k as u8).wrapping_mul(0x11);
    let lib = guard(|| -> Result<Vec<u8>, String> {
        let mut t = Transaction::new(m0.version, m0.locktime);
        for i in &m0.inputs {
            t.add_input(&lib_txin(i));
        }
        for o in &m0.outputs {
            t.add_output(&lib_txout(o));
        }
        let script = Script::from_bytes(&sub).unwrap();
        for (k, mutation) in mutations.iter().enumerate() {
            // the earlier observations only warm the caches; they may legitimately be refused (SINGLE without a matching output)
            let _ = t.sighash_preimage(flag_to_sighash(f1).unwrap(), idx, &script, value);
            let g = tag(k);
            let cur_in = |t: &Transaction, i: usize| t.get_input(i).ok_or_else(|| "no such input".to_string());
            let cur_out = |t: &Transaction, i: usize| t.get_output(i).ok_or_else(|| "no such output".to_string());
            match *mutation {
                "set_input(same outpoint, other sequence)" => {
                    let mut i = cur_in(&t, 1)?;
                    i.set_sequence(0x0a0b0c0d ^ g as u32);
                    t.set_input(1, &i)
                }
                "set_input(same txid, other vout)" => {
                    let mut i = cur_in(&t, 0)?;
                    i.set_vout(0x7777 ^ g as u32);
                    t.set_input(0, &i)
                }
                "set_input(other txid)" => {
                    let mut i = cur_in(&t, 1)?;
                    i.set_prev_tx_id(&[0x5a ^ g; 32]);
                    t.set_input(1, &i)
                }
                "set_output(same script, other value)" => {
                    let o = cur_out(&t, 1)?;
                    t.set_output(1, &bsv::TxOut::new(42 + g as u64, &o.get_script_pub_key()))
                }
                "set_output(other script, same value)" => {
                    let o = cur_out(&t, 0)?;
                    t.set_output(0, &bsv::TxOut::new(o.get_satoshis(), &Script::from_bytes(&[0x51, 0x01, g]).unwrap()))
                }
                "set_version" => {
                    t.set_version(0x0badcafe ^ g as u32);
                }
                "set_nlocktime" => {
                    t.set_nlocktime(0x0000beef ^ g as u32);
                }
                "add_input" => t.add_input(&lib_txin(&RIn { txid_wire: [0x33 ^ g; 32], vout: 9, script: vec![], sequence: 0x00000011 })),
                "add_output" => t.add_output(&lib_txout(&ROut { value: 77 + g as u64, script: vec![0x52] })),
                "add_inputs(two)" => t.add_inputs(vec![lib_txin(&RIn { txid_wire: [0x33 ^ g; 32], vout: 9, script: vec![], sequence: 0x00000011 }), lib_txin(&RIn { txid_wire: [0x34 ^ g; 32], vout: 8, script: vec![], sequence: 0x00000012 })]),
                "add_outputs(two)" | "add_outputs(two) from no outputs" => t.add_outputs(vec![lib_txout(&ROut { value: 77 + g as u64, script: vec![0x52] }), lib_txout(&ROut { value: 78 + g as u64, script: vec![0x53] })]),
                "add_inputs(one) add_outputs(one)" => {
                    t.add_inputs(vec![lib_txin(&RIn { txid_wire: [0x33 ^ g; 32], vout: 9, script: vec![], sequence: 0x00000011 })]);
                    t.add_outputs(vec![lib_txout(&ROut { value: 77 + g as u64, script: vec![0x52] })]);
                }
                _ => {}
            }
        }
        t.sighash_preimage(flag_to_sighash(f2).unwrap(), idx, &script, value).map_err(|e| e.to_string())
    });
    for (k, mutation) in mutations.iter().enumerate() {
        let g = tag(k);
        if (mutation.starts_with("set_output(same") && model.outputs.len() < 2) || (mutation.starts_with("set_output(other") && model.outputs.is_empty()) {
            // the history is not constructible (no such output to replace): nothing to compare
            acc.bump("history_not_constructible", 1);
            return;
        }
        match *mutation {
            "set_input(same outpoint, other sequence)" => model.inputs[1].sequence = 0x0a0b0c0d ^ g as u32,
            "set_input(same txid, other vout)" => model.inputs[0].vout = 0x7777 ^ g as u32,
            "set_input(other txid)" => {
                // set_prev_tx_id takes display order like TxIn::new
                let mut w = [0x5a ^ g; 32];
                w.reverse();
                model.inputs[1].txid_wire = w
            }
            "set_output(same script, other value)" => model.outputs[1].value = 42 + g as u64,
            "set_output(other script, same value)" => model.outputs[0].script = vec![0x51, 0x01, g],
            "set_version" => model.version = 0x0badcafe ^ g as u32,
            "set_nlocktime" => model.locktime = 0x0000beef ^ g as u32,
            "add_input" => model.inputs.push(RIn { txid_wire: [0x33 ^ g; 32], vout: 9, script: vec![], sequence: 0x00000011 }),
            "add_output" => model.outputs.push(ROut { value: 77 + g as u64, script: vec![0x52] }),
            "add_inputs(two)" => {
                model.inputs.push(RIn { txid_wire: [0x33 ^ g; 32], vout: 9, script: vec![], sequence: 0x00000011 });
                model.inputs.push(RIn { txid_wire: [0x34 ^ g; 32], vout: 8, script: vec![], sequence: 0x00000012 });
            }
            "add_outputs(two)" | "add_outputs(two) from no outputs" => {
                model.outputs.push(ROut { value: 77 + g as u64, script: vec![0x52] });
                model.outputs.push(ROut { value: 78 + g as u64, script: vec![0x53] });
            }
            "add_inputs(one) add_outputs(one)" => {
                model.inputs.push(RIn { txid_wire: [0x33 ^ g; 32], vout: 9, script: vec![], sequence: 0x00000011 });
                model.outputs.push(ROut { value: 77 + g as u64, script: vec![0x52] });
            }
            _ => {}
        }
    }
    let last = mutations.last().copied().unwrap_or("none");
    let want = sh::preimage(&model, idx, &sub, value, f2);
    match (lib, want) {
        (Err(p), _) => acc.violate(format!("{}/history/kind=panic@{}", prop, panic_site(&p)), case.idx, case.json(input), p),
        (Ok(Err(_)), Pre::SingleOutOfRange(_)) => acc.outcome(b"refused-single"),
        (Ok(Err(e)), _) => acc.violate(format!("{}/history/kind=spurious-error", prop), case.idx, case.json(input), e),
        (Ok(Ok(got)), Pre::Bytes(w)) | (Ok(Ok(got)), Pre::SingleOutOfRange(w)) => {
            acc.outcome(&[0x77, (got == w) as u8]);
            if got != w {
                let field = if f2 & sh::FORKID != 0 { forkid_field(first_diff(&got, &w), sub.len()).to_string() } else { legacy_component(&got, &w).to_string() };
                acc.violate(format!("{}/history/after={}/field={}", prop, last.split('(').next().unwrap_or(last), field), case.idx, case.json(input), format!("library={} specified={}", hx(&got), hx(&w)));
            }
        }
        (Ok(Ok(_)), Pre::NoSuchInput) => {}
    }
}

fn run_c03(ctx: &Ctx) -> Report {
    let mut r = Report::new(
        "full products: every (n_in in 1..3, n_out in 0..3, input index, per-input sequence tuple over a 4(5)-value alphabet) x 6 FORKID flags; version x locktime x value x flag x index over boundary alphabets; subscript lengths across compact-size boundaries x 2 realisations x flags x index; sign leg: shapes x flags x 4 keys, DER verified by the reference ECDSA against sha256d(specified preimage). Each library call runs on a freshly parsed transaction. Non-trivial = library returned a preimage/signature that was compared; distinct by construction.",
    );
    r.bounds = json!({"sequences": SEQS, "values": VALS, "version_locktime": VERLOCK, "subscript_lens": SUB_LENS, "keys": KEYS, "flags": sh::FORKID_FLAGS.iter().map(|f| format!("0x{:02x}", f)).collect::<Vec<_>>()});
    run_spaces(ctx, &mut r, spaces_c03(ctx.tier));
    r
}

fn replay_c03(case: &Value) -> Vec<(String, String)> {
    replay_spaces(spaces_c03, case)
}

// ---------------------------------------------------------------- C10

/// Subscripts with code separators at every position, doubled, and inside conditionals.
fn codesep_subscripts() -> Vec<(String, Vec<u8>)> {
    let base: Vec<Vec<u8>> = vec![vec![0x76], vec![0x02, 0xab, 0xab], vec![0x88], vec![0xac]];
    let mut v: Vec<(String, Vec<u8>)> = vec![];
    let cat = |parts: &[Vec<u8>]| -> Vec<u8> { parts.iter().flatten().copied().collect() };
    v.push(("no separator".into(), cat(&base)));
    for pos in 0..=4 {
        let mut p = base.clone();
        p.insert(pos, vec![0xab]);
        v.push((format!("separator at token {}", pos), cat(&p)));
        let mut p2 = base.clone();
        p2.insert(pos, vec![0xab, 0xab]);
        v.push((format!("double separator at token {}", pos), cat(&p2)));
    }
    v.push(("separator in pass branch".into(), vec![0x51, 0x63, 0xab, 0x52, 0x68, 0xac]));
    v.push(("separator in fail branch".into(), vec![0x51, 0x63, 0x52, 0x67, 0xab, 0x53, 0x68, 0xac]));
    v.push(("separator in both branches".into(), vec![0x51, 0x63, 0xab, 0x67, 0xab, 0x68, 0xac]));
    v.push(("separator in nested conditional".into(), vec![0x51, 0x63, 0x51, 0x64, 0x52, 0xab, 0x68, 0x67, 0x53, 0x68, 0xac]));
    v.push(("separators at top level and nested".into(), vec![0xab, 0x51, 0x63, 0xab, 0x68, 0xab, 0xac]));
    v.push(("only separators".into(), vec![0xab, 0xab, 0xab]));
    v.push(("push data containing 0xab bytes only".into(), vec![0x03, 0xab, 0xab, 0xab, 0xac]));
    v
}

/// Every well-formed token string of length <= max over {IF, ELSE, ENDIF, CODESEPARATOR, OP_1} that contains a separator.
fn separator_skeletons(max: usize) -> Vec<Vec<u8>> {
    let syms = [0x63u8, 0x67, 0x68, 0xab, 0x51];
    let mut out = vec![];
    fn rec(cur: &mut Vec<u8>, depth: Vec<bool>, max: usize, syms: &[u8; 5], out: &mut Vec<Vec<u8>>) {
        if depth.is_empty() && cur.contains(&0xab) {
            out.push(cur.clone());
        }
        if cur.len() == max {
            return;
        }
        for &s in syms {
            let mut d = depth.clone();
            match s {
                0x63 => d.push(false),
                0x67 => match d.last_mut() {
                    Some(seen) if !*seen => *seen = true,
                    _ => continue,
                },
                0x68 => {
                    if d.pop().is_none() {
                        continue;
                    }
                }
                _ => {}
            }
            // the remaining budget must suffice to close everything
            if cur.len() + 1 + d.len() > max {
                continue;
            }
            cur.push(s);
            rec(cur, d, max, syms, out);
            cur.pop();
        }
    }
    rec(&mut vec![], vec![], max, &syms, &mut out);
    out
}

fn skeleton_space(prop: &'static str, flags: [u32; 6], tier: Tier, other_scripts: bool) -> Space {
    let sk = std::sync::Arc::new(separator_skeletons(if tier.is_thorough() { 9 } else { 8 }));
    let n = sk.len() as u64;
    Space::new("separator-skeletons", n * 6, move |case, acc| {
        let c = coords(case.idx, &[n, 6]);
        // a leading OP_1 feeds the first conditional; the skeleton itself is the interesting part
        let mut sub = vec![0x51];
        sub.extend_from_slice(&sk[c[0] as usize]);
        sub.push(0xac);
        let tx = base_tx(2, 2, &[7, 0xfffffffe], other_scripts);
        if c[0] % 997 == 0 && c[1] == 0 {
            acc.sample(case.idx + (3 << 32), || json!({"space": "separator-skeletons", "subscript_hex": hex::encode(&sub)}));
        }
        check_preimage(prop, &Q { tx: &tx, idx: 1, subscript: &sub, value: 5, flag: flags[c[1] as usize] }, acc, case);
    })
}

pub fn spaces_c10(tier: Tier) -> Vec<Space> {
    let mut v = common_spaces("C10", sh::LEGACY_FLAGS, tier, true);
    // bounded histories on one object with the legacy SPECIFICATION as oracle (as under C03): construct, observe with
    // legacy flag f1, mutate, [observe, mutate,] observe with legacy flag f2
    {
        let nm = HIST_MUTATIONS.len() as u64;
        v.push(Space::new("construct-observe-mutate-observe", 6 * 6 * nm * 2, move |case, acc| {
            let c = coords(case.idx, &[6, 6, nm, 2]);
            history_case("C10", acc, case, sh::LEGACY_FLAGS[c[0] as usize], sh::LEGACY_FLAGS[c[1] as usize], &[HIST_MUTATIONS[c[2] as usize]], c[3] as usize);
        }));
        let depth: u32 = if tier.is_thorough() { 3 } else { 2 };
        v.push(Space::new("construct-observe-mutate-sequences", 6 * 6 * nm.pow(depth) * 2, move |case, acc| {
            let c = coords(case.idx, &[6, 6, nm.pow(depth), 2]);
            let mut ms = vec![];
            let mut r = c[2];
            for _ in 0..depth {
                ms.push(HIST_MUTATIONS[(r % nm) as usize]);
                r /= nm;
            }
            if ms.iter().any(|m| *m == "none") {
                return;
            }
            history_case("C10", acc, case, sh::LEGACY_FLAGS[c[0] as usize], sh::LEGACY_FLAGS[c[1] as usize], &ms, c[3] as usize);
        }));
    }
    v.push(skeleton_space("C10", sh::LEGACY_FLAGS, tier, true));
    let subs = std::sync::Arc::new(codesep_subscripts());
    let n = subs.len() as u64;
    v.push(Space::new("codeseparators", n * 6 * 3 * 2, move |case, acc| {
        let c = coords(case.idx, &[n, 6, 3, 2]);
        let (desc, sub) = &subs[c[0] as usize];
        let n_in = 1 + c[2] as usize;
        let idx = if c[3] == 0 { 0 } else { n_in - 1 };
        let seqs = [7u32, 0xfffffffe, 0x01020304];
        let tx = base_tx(n_in, 3, &seqs[..n_in], true);
        acc.sample(case.idx + (1 << 32), || json!({"space": "codeseparators", "subscript": desc, "subscript_hex": hex::encode(sub)}));
        check_preimage("C10", &Q { tx: &tx, idx, subscript: sub, value: 0, flag: sh::LEGACY_FLAGS[c[1] as usize] }, acc, case);
    }));
    // relation between the transaction and the subscript: the signed input (and / or another input) already carries the
    // subscript itself as its unlocking script - the manual flow "copy the previous locking script into the input, then sign"
    let subs2 = std::sync::Arc::new(codesep_subscripts());
    v.push(Space::new("input-script-equals-subscript", n * 6 * 4 * 2, move |case, acc| {
        let c = coords(case.idx, &[n, 6, 4, 2]);
        let (_desc, sub) = &subs2[c[0] as usize];
        let mut tx = base_tx(2, 2, &[7, 0xfffffffe], true);
        let idx = c[3] as usize;
        if c[2] & 1 == 1 {
            tx.inputs[idx].script = sub.clone();
        }
        if c[2] & 2 == 2 {
            tx.inputs[1 - idx].script = sub.clone();
        }
        check_preimage("C10", &Q { tx: &tx, idx, subscript: sub, value: 0, flag: sh::LEGACY_FLAGS[c[1] as usize] }, acc, case);
    }));
    v
}

fn run_c10(ctx: &Ctx) -> Report {
    let mut r = Report::new(
        "full products as for C03 with the six legacy flags and non-empty scripts on the other inputs (every input index, n_out up to 3 so that SINGLE at index >= 1 with an output present is covered), plus subscripts with OP_CODESEPARATOR at every token position, doubled, inside pass/fail/nested branches x flags x n_in x index. Non-trivial = library returned a preimage that was compared byte for byte; distinct by construction.",
    );
    r.bounds = json!({"sequences": SEQS, "subscript_lens": SUB_LENS, "codeseparator_subscripts": codesep_subscripts().iter().map(|s| s.0.clone()).collect::<Vec<_>>(), "flags": sh::LEGACY_FLAGS.iter().map(|f| format!("0x{:02x}", f)).collect::<Vec<_>>()});
    run_spaces(ctx, &mut r, spaces_c10(ctx.tier));
    r
}

fn replay_c10(case: &Value) -> Vec<(String, String)> {
    replay_spaces(spaces_c10, case)
}
