//! Small adapters over the library's public API shared by several properties.
use crate::refs::script::{Tok, OP_ELSE, OP_ENDIF};
use bsv::{OpCodes, Script, ScriptBit};

/// Flatten the library's nested script representation in serialisation order.
/// Coinbase blobs have no token structure: None.
pub fn flatten_bits(bits: &[ScriptBit], out: &mut Vec<Tok>) -> bool {
    for b in bits {
        match b {
            ScriptBit::OpCode(c) => out.push(Tok::Op(*c as u8)),
            ScriptBit::Push(d) => out.push(Tok::Push(d.clone())),
            ScriptBit::PushData(c, d) => out.push(Tok::PushData(*c as u8, d.clone())),
            ScriptBit::If { code, pass, fail } => {
                out.push(Tok::Op(*code as u8));
                if !flatten_bits(pass, out) {
                    return false;
                }
                if let Some(f) = fail {
                    out.push(Tok::Op(OP_ELSE));
                    if !flatten_bits(f, out) {
                        return false;
                    }
                }
                out.push(Tok::Op(OP_ENDIF));
            }
            ScriptBit::Coinbase(_) => return false,
        }
    }
    true
}

pub fn flatten(script: &Script) -> Option<Vec<Tok>> {
    let mut v = Vec::new();
    if flatten_bits(&script.to_script_bits(), &mut v) {
        Some(v)
    } else {
        None
    }
}

/// Which single opcode bytes the library's parser accepts. The properties do
/// not fix this set, so it is learned from the implementation: byte b counts
/// as accepted if `[b]` parses, or `[b, OP_ENDIF]` parses (block openers).
pub fn learn_opcode_set() -> [bool; 256] {
    let mut acc = [false; 256];
    for b in 0..=255u8 {
        if (1..=0x4e).contains(&b) {
            continue;
        }
        let one = crate::engine::guard(|| Script::from_bytes(&[b]).is_ok()).unwrap_or(false);
        let two = crate::engine::guard(|| Script::from_bytes(&[b, OP_ENDIF]).is_ok()).unwrap_or(false);
        acc[b as usize] = one || two;
    }
    acc
}

/// Opcode bytes the library treats as block openers (learned: `[b]` alone is rejected but `[b, ENDIF]` parses).
pub fn learn_openers() -> Vec<u8> {
    let mut v = vec![];
    for b in 0x4f..=255u8 {
        let one = crate::engine::guard(|| Script::from_bytes(&[b]).is_ok()).unwrap_or(false);
        let two = crate::engine::guard(|| Script::from_bytes(&[b, OP_ENDIF]).is_ok()).unwrap_or(false);
        if !one && two {
            v.push(b);
        }
    }
    v
}

#[allow(dead_code)]
pub fn opcode_from_u8(b: u8) -> Option<OpCodes> {
    num_traits::FromPrimitive::from_u8(b)
}
