//! Small adapters over the library's public API shared by several properties.
use crate::refs::script::{Tok, OP_ELSE, OP_ENDIF};
use bsv::{OpCodes, Script, ScriptBit};

/// Flatten the library's nested script representation in serialisation order.
/// Coinbase blobs have no token structure: None.
pub fn flatten_bits(bits: &[ScriptBit], out: &mut Vec<Tok>) -> bool {
    for b in bits {
        match b {
            ScriptBit::OpCode(c) => out.push(Tok::Op(*c as u8)),
            ScriptBit::Push(d) => out.push(Tok::Push(d.clone())),
            ScriptBit::PushData(c, d) => out.push(Tok::PushData(*c as u8, d.clone())),
            ScriptBit::If { code, pass, fail } => {
                out.push(Tok::Op(*code as u8));
                if !flatten_bits(pass, out) {
                    return false;
                }
                if let Some(f) = fail {
                    out.push(Tok::Op(OP_ELSE));
                    if !flatten_bits(f, out) {
                        return false;
                    }
                }
                out.push(Tok::Op(OP_ENDIF));
            }
            ScriptBit::Coinbase(_) => return false,
        }
    }
    true
}

pub fn flatten(script: &Script) -> Option<Vec<Tok>> {
    let mut v = Vec::new();
    if flatten_bits(&script.to_script_bits(), &mut v) {
        Some(v)
    } else {
        None
    }
}

/// Which single opcode bytes the library's parser accepts. The properties do
/// not fix this set, so it is learned from the implementation: byte b counts
/// as accepted if `[b]` parses, or `[b, OP_ENDIF]` parses (block openers).
pub fn learn_opcode_set() -> [bool; 256] {
    let mut acc = [false; 256];
    for b in 0..=255u8 {
        if (1..=0x4e).contains(&b) {
            continue;
        }
        let one = crate::engine::guard(|| Script::from_bytes(&[b]).is_ok()).unwrap_or(false);
        let two = crate::engine::guard(|| Script::from_bytes(&[b, OP_ENDIF]).is_ok()).unwrap_or(false);
        acc[b as usize] = one || two;
    }
    acc
}

/// Opcode bytes the library treats as block openers (learned: `[b]` alone is rejected but `[b, ENDIF]` parses).
pub fn learn_openers() -> Vec<u8> {
    let mut v = vec![];
    for b in 0x4f..=255u8 {
        let one = crate::engine::guard(|| Script::from_bytes(&[b]).is_ok()).unwrap_or(false);
        let two = crate::engine::guard(|| Script::from_bytes(&[b, OP_ENDIF]).is_ok()).unwrap_or(false);
        if !one && two {
            v.push(b);
        }
    }
    v
}

#[allow(dead_code)]
pub fn opcode_from_u8(b: u8) -> Option<OpCodes> {
    num_traits::FromPrimitive::from_u8(b)
}

/// Build the library's nested element tree from a flat reference token list, independently of the library's own
/// nesting pass: an opener starts a block whose first branch runs to the matching OP_ELSE or OP_ENDIF and whose second
/// branch runs to the matching OP_ENDIF (a further OP_ELSE there, and OP_ELSE / OP_ENDIF outside any block, are plain
/// elements). None when a block is never closed or an opcode byte has no `OpCodes` value.
pub fn nest_tokens(toks: &[Tok], openers: &[u8]) -> Option<Vec<ScriptBit>> {
    fn leaf(t: &Tok) -> Option<ScriptBit> {
        Some(match t {
            Tok::Op(b) => ScriptBit::OpCode(opcode_from_u8(*b)?),
            Tok::Push(d) => ScriptBit::Push(d.clone()),
            Tok::PushData(c, d) => ScriptBit::PushData(opcode_from_u8(*c)?, d.clone()),
        })
    }
    // mode 0 = top level, 1 = first branch, 2 = second branch; returns (elements, terminator seen)
    fn rec(toks: &[Tok], i: &mut usize, openers: &[u8], mode: u8) -> Option<(Vec<ScriptBit>, u8)> {
        let mut out = vec![];
        while *i < toks.len() {
            let t = &toks[*i];
            *i += 1;
            match t {
                Tok::Op(b) if openers.contains(b) => {
                    let (pass, term) = rec(toks, i, openers, 1)?;
                    let fail = if term == OP_ELSE { Some(rec(toks, i, openers, 2)?.0) } else { None };
                    out.push(ScriptBit::If { code: opcode_from_u8(*b)?, pass, fail });
                }
                Tok::Op(b) if *b == OP_ELSE && mode == 1 => return Some((out, OP_ELSE)),
                Tok::Op(b) if *b == OP_ENDIF && mode != 0 => return Some((out, OP_ENDIF)),
                t => out.push(leaf(t)?),
            }
        }
        if mode == 0 {
            Some((out, 0))
        } else {
            None
        }
    }
    let mut i = 0;
    rec(toks, &mut i, openers, 0).map(|x| x.0)
}
