//! C11 — ECIES in the Electrum "BIE1" format: decrypt inverts encrypt (directly and after
//! to_bytes/from_bytes), the serialised ciphertext equals the independent construction
//!   "BIE1" || [33-byte compressed sender key] || AES-128-CBC(ke, iv, msg) || HMAC-SHA256(km, all before)
//!   iv || ke || km = SHA-512(compressed encoding of d_sender * Q_recipient) split 16/16/32
//! and every single-bit corruption, truncation or wrong key ends in Err, never in plaintext.
//!
//! Reference: refs::secp (ECDH point), refs::hashes (SHA-512, HMAC-SHA256), refs::aes (CBC).
//! All reference elliptic-curve work for the key alphabet is done once in `spaces()`; the only
//! per-case reference multiplications are for bit flips that turn the embedded key into another
//! valid point.
use super::{hx, pattern, replay_spaces, run_spaces, Case, Prop, Space};
use crate::engine::{coords, guard, panic_site, Acc, Ctx, Report, Tier};
use crate::refs::secp::{self, Point};
use crate::refs::{aes as ra, hashes as rh};
use bsv::{ECIESCiphertext, PrivateKey, PublicKey, ECIES};
use serde_json::{json, Value};
use std::sync::Arc;

pub const PROP: Prop = Prop {
    run,
    replay,
    spaces: Some(spaces),
    level_note: "trusted base: refs::secp (affine/Jacobian secp256k1 arithmetic, SEC1 encoding), refs::hashes (SHA-512, HMAC-SHA256), refs::aes (AES-128-CBC + PKCS#7), composed here into the Electrum BIE1 construction; key and message values outside the stated alphabets are not covered; the ephemeral sender key is fed through the verif-hooks from_random seam",
};

// ---------------------------------------------------------------- reference construction

#[derive(Clone, PartialEq, Eq, Debug)]
struct CK {
    iv: [u8; 16],
    ke: [u8; 16],
    km: [u8; 32],
}

fn kdf(shared: &Point) -> CK {
    let h = rh::sha512(&secp::encode_point(shared, true));
    let mut k = CK { iv: [0; 16], ke: [0; 16], km: [0; 32] };
    k.iv.copy_from_slice(&h[0..16]);
    k.ke.copy_from_slice(&h[16..32]);
    k.km.copy_from_slice(&h[32..64]);
    k
}

/// Reference serialised ciphertext.
fn bie1(k: &CK, r: Option<&[u8]>, msg: &[u8]) -> Vec<u8> {
    let mut out = b"BIE1".to_vec();
    if let Some(r) = r {
        assert_eq!(r.len(), 33);
        out.extend_from_slice(r);
    }
    out.extend_from_slice(&ra::cbc_encrypt(&k.ke, &k.iv, msg));
    let mac = rh::hmac_sha256(&k.km, &out);
    out.extend_from_slice(&mac);
    out
}

/// Reference decryption of a serialised ciphertext with already derived keys. Err(()) when the
/// buffer is too short, the magic is wrong, the MAC does not verify or the CBC padding is invalid.
fn ref_decrypt(k: &CK, buf: &[u8], has_pub: bool) -> Result<Vec<u8>, ()> {
    let head = if has_pub { 37 } else { 4 };
    if buf.len() < head + 32 || &buf[..4] != b"BIE1" {
        return Err(());
    }
    let (signed, mac) = buf.split_at(buf.len() - 32);
    if rh::hmac_sha256(&k.km, signed)[..] != mac[..] {
        return Err(());
    }
    ra::cbc_decrypt(&k.ke, &k.iv, &signed[head..])
}

// ---------------------------------------------------------------- key alphabet

const N_HEX: &str = "fffffffffffffffffffffffffffffffebaaedce6af48a03bbfd25e8cd0364141";
const KEY_NAMES: [&str; 8] = ["1", "2", "n-1", "01 02 .. 20", "smallest k >= 4 with mixed end-byte parities in x and y", "2^255", "3", "2^255-1"];

fn secret(i: usize) -> [u8; 32] {
    let n = secp::from_be(&hex::decode(N_HEX).unwrap());
    assert_eq!(n, secp::n());
    let small = |v: u8| {
        let mut b = [0u8; 32];
        b[31] = v;
        b
    };
    match i {
        0 => small(1),
        1 => small(2),
        2 => secp::be32(&(n - 1u32)),
        3 => {
            let mut b = [0u8; 32];
            b.copy_from_slice(&pattern(2, 32));
            b
        }
        4 => {
            // the smallest scalar >= 4 whose public point has different parities in the FIRST and LAST byte of y and of x:
            // a conversion that reads the sign (or anything else) from the wrong end of a coordinate is invisible on keys
            // where both ends agree - which, by accident, was the case for the four keys of the quick alphabet
            let mut k = 4u32;
            loop {
                if let Point::Affine { x, y } = secp::mul_g(&num_bigint::BigUint::from(k)) {
                    let (xb, yb) = (secp::be32(&x), secp::be32(&y));
                    if (yb[0] ^ yb[31]) & 1 == 1 && (xb[0] ^ xb[31]) & 1 == 1 {
                        break;
                    }
                }
                k += 1;
            }
            secp::be32(&num_bigint::BigUint::from(k))
        }
        5 => {
            let mut b = [0u8; 32];
            b[0] = 0x80;
            b
        }
        6 => small(3),
        _ => {
            let mut b = [0xffu8; 32];
            b[0] = 0x7f;
            b
        }
    }
}

struct Tab {
    secrets: Vec<[u8; 32]>,
    /// SEC1 compressed / uncompressed encodings of the public keys (reference)
    pub_c: Vec<Vec<u8>>,
    pub_u: Vec<Vec<u8>>,
    /// shared[i][j] = KDF(d_i * Q_j)
    shared: Vec<Vec<CK>>,
}

fn tab(nk: usize) -> Tab {
    let secrets: Vec<[u8; 32]> = (0..nk).map(secret).collect();
    let ds: Vec<_> = secrets.iter().map(|s| secp::from_be(s)).collect();
    let pubs: Vec<Point> = ds.iter().map(secp::mul_g).collect();
    let shared: Vec<Vec<CK>> = ds.iter().map(|d| pubs.iter().map(|q| kdf(&secp::mul(d, q))).collect()).collect();
    for i in 0..nk {
        for j in 0..nk {
            assert_eq!(shared[i][j], shared[j][i], "refs::secp: ECDH is not symmetric for keys {} and {}", i, j);
            if i != j {
                assert_ne!(shared[i][i], shared[i][j]);
            }
        }
    }
    Tab { pub_c: pubs.iter().map(|q| secp::encode_point(q, true)).collect(), pub_u: pubs.iter().map(|q| secp::encode_point(q, false)).collect(), secrets, shared }
}

impl Tab {
    fn lib_priv(&self, i: usize, compressed: bool) -> Result<PrivateKey, String> {
        guard(|| PrivateKey::from_bytes(&self.secrets[i]).map(|k| k.compress_public_key(compressed)).map_err(|e| e.to_string())).and_then(|r| r)
    }
    fn lib_pub(&self, i: usize, compressed: bool) -> Result<PublicKey, String> {
        let b = if compressed { &self.pub_c[i] } else { &self.pub_u[i] };
        guard(|| PublicKey::from_bytes(b).map_err(|e| e.to_string())).and_then(|r| r)
    }
}

fn msg(p: u64, len: usize) -> Vec<u8> {
    match p {
        0 => pattern(2, len),
        1 => pattern(0, len),
        _ => pattern(1, len),
    }
}
const PATTERN_NAMES: [&str; 3] = ["counter", "00", "ff"];

fn lens(tier: Tier) -> Vec<usize> {
    let mut v: Vec<usize> = (0..=48).collect();
    v.extend_from_slice(&[255, 256, 257, 4095, 4096, 20000]);
    if tier.is_thorough() {
        v.extend_from_slice(&[63, 64, 65, 40000]);
    }
    v
}

// ---------------------------------------------------------------- small helpers

type LibRes<T> = Result<Result<T, String>, String>;

fn call<T>(f: impl FnOnce() -> Result<T, bsv::BSVErrors>) -> LibRes<T> {
    guard(|| f().map_err(|e| e.to_string()))
}

/// Unwrap a library result that must be Ok; otherwise record the violation and return None.
fn must_ok<T>(acc: &mut Acc, case: &Case, input: &Value, entry: &str, r: LibRes<T>, ctx: &str) -> Option<T> {
    match r {
        Ok(Ok(v)) => Some(v),
        Ok(Err(e)) => {
            acc.outcome(format!("err:{}", entry).as_bytes());
            acc.violate(format!("C11/{}/kind=spurious-error{}", entry, ctx), case.idx, case.json(input.clone()), format!("library=Err({})", e));
            None
        }
        Err(p) => {
            acc.outcome(format!("panic:{}", entry).as_bytes());
            acc.violate(format!("C11/{}/kind=panic@{}{}", entry, panic_site(&p), ctx), case.idx, case.json(input.clone()), p);
            None
        }
    }
}

/// The library must return exactly `want`.
fn must_eq(acc: &mut Acc, case: &Case, input: &Value, entry: &str, ctx: &str, r: LibRes<Vec<u8>>, want: &[u8]) -> bool {
    acc.transitions += 1;
    acc.traces += 1;
    match must_ok(acc, case, input, entry, r, ctx) {
        Some(got) if got == want => true,
        Some(got) => {
            acc.violate(format!("C11/{}/kind=wrong-result{}", entry, ctx), case.idx, case.json(input.clone()), format!("library={} expected={}", hx(&got), hx(want)));
            false
        }
        None => false,
    }
}

/// Name of the BIE1 region containing byte offset `off` of a serialisation of length `total`.
fn region(off: usize, total: usize, has_pub: bool) -> &'static str {
    if off < 4 {
        "magic"
    } else if has_pub && off < 37 {
        "pubkey"
    } else if off >= total - 32 {
        "mac"
    } else {
        "body"
    }
}

fn diff_region(got: &[u8], want: &[u8], has_pub: bool) -> String {
    if got.len() != want.len() {
        return "length".into();
    }
    for i in 0..got.len() {
        if got[i] != want[i] {
            return region(i, want.len(), has_pub).into();
        }
    }
    "none".into()
}

fn check_keys(acc: &mut Acc, case: &Case, input: &Value, entry: &str, got: &bsv::CipherKeys, want: &CK) {
    for (field, g, w) in [("iv", got.get_iv(), want.iv.to_vec()), ("ke", got.get_ke(), want.ke.to_vec()), ("km", got.get_km(), want.km.to_vec())] {
        if g != w {
            acc.violate(format!("C11/{}/kind=wrong-result/field={}", entry, field), case.idx, case.json(input.clone()), format!("library {}={} reference {}={}", field, hx(&g), field, hx(&w)));
        }
    }
}

// ---------------------------------------------------------------- space 1: encrypt / decrypt / serialise

const ENTRIES: [&str; 4] = ["ECIES::encrypt", "ECIES::encrypt(exclude_pub_key)", "PublicKey::encrypt_message", "ECIES::encrypt_with_ephemeral_private_key"];

/// Everything that is checked on a freshly produced ciphertext object.
/// `s`/`r` index the key table; `s_c`/`r_c` are the compression forms handed to the library.
/// `direct` re-runs the equivalent plain `ECIES::encrypt` call; it is only used to attribute a
/// mismatch (convenience entry point vs. the shared implementation) and never runs on a passing case.
#[allow(clippy::too_many_arguments)]
fn check_ciphertext(
    acc: &mut Acc,
    case: &Case,
    input: &Value,
    t: &Tab,
    entry: &str,
    ct: &ECIESCiphertext,
    s: usize,
    r: usize,
    s_c: bool,
    r_c: bool,
    has_pub: bool,
    message: &[u8],
    direct: &dyn Fn() -> Option<Vec<u8>>,
) {
    let keys = &t.shared[s][r];
    let want = bie1(keys, if has_pub { Some(&t.pub_c[s]) } else { None }, message);
    let body_lo = if has_pub { 37 } else { 4 };
    let (sk_r, pk_s) = match (t.lib_priv(r, r_c), t.lib_pub(s, s_c)) {
        (Ok(a), Ok(b)) => (a, b),
        (a, b) => {
            acc.violate("C11/setup/kind=key-construction-failed", case.idx, case.json(input.clone()), format!("{:?} {:?}", a.err(), b.err()));
            return;
        }
    };

    // serialisation equals the independent construction
    acc.transitions += 1;
    acc.traces += 1;
    let bytes = match guard(|| ct.to_bytes()) {
        Ok(b) => b,
        Err(p) => {
            acc.violate(format!("C11/ECIESCiphertext::to_bytes/kind=panic@{}", panic_site(&p)), case.idx, case.json(input.clone()), p);
            return;
        }
    };
    acc.outcome(&bytes[bytes.len().saturating_sub(6)..]);
    if bytes != want {
        // root-cause attribution: every entry point funnels into ECIES::encrypt; name the convenience
        // entry point only when it does not reproduce what the plain call gives for the same arguments
        let generic = if has_pub { ENTRIES[0] } else { ENTRIES[1] };
        let (name, note) = if entry == generic {
            (entry, String::new())
        } else if direct().as_deref() == Some(&bytes[..]) {
            (generic, format!(" (observed through {}, which returns the same bytes as the plain call)", entry))
        } else {
            (entry, format!(" (the plain {} call gives different bytes for the same arguments)", generic))
        };
        acc.violate(
            format!("C11/{}/to_bytes/kind=wrong-bytes/region={}", name, diff_region(&bytes, &want, has_pub)),
            case.idx,
            case.json(input.clone()),
            format!("library={} reference={}{}", hx(&bytes), hx(&want), note),
        );
    }
    // accessors must agree with the serialisation of the same object (which was compared with the reference above)
    if bytes.len() >= body_lo + 32 {
        must_eq(acc, case, input, "ECIESCiphertext::get_ciphertext", "/vs=own-to_bytes", guard(|| Ok(ct.get_ciphertext())), &bytes[body_lo..bytes.len() - 32]);
        must_eq(acc, case, input, "ECIESCiphertext::get_hmac", "/vs=own-to_bytes", guard(|| Ok(ct.get_hmac())), &bytes[bytes.len() - 32..]);
    }
    // key derivation as the recipient sees it, against the reference
    acc.transitions += 1;
    acc.traces += 1;
    let derived = must_ok(acc, case, input, "ECIES::derive_cipher_keys", call(|| ECIES::derive_cipher_keys(&sk_r, &pk_s)), "");
    if let Some(k) = &derived {
        check_keys(acc, case, input, "ECIES::derive_cipher_keys", k, keys);
    }
    // the keys remembered by the ciphertext object are the derived ones
    acc.transitions += 1;
    match guard(|| ct.get_cipher_keys()) {
        Ok(Some(k)) => {
            acc.traces += 1;
            if let Some(d) = &derived {
                let same = k.get_iv() == d.get_iv() && k.get_ke() == d.get_ke() && k.get_km() == d.get_km();
                if !same {
                    acc.violate(
                        "C11/ECIESCiphertext::get_cipher_keys/kind=differs-from-derive_cipher_keys",
                        case.idx,
                        case.json(input.clone()),
                        format!("get_cipher_keys iv={} ke={} km={}; derive_cipher_keys iv={} ke={} km={}", hx(&k.get_iv()), hx(&k.get_ke()), hx(&k.get_km()), hx(&d.get_iv()), hx(&d.get_ke()), hx(&d.get_km())),
                    );
                }
            }
        }
        Ok(None) => acc.bump("get_cipher_keys_none_after_encrypt", 1),
        Err(p) => acc.violate(format!("C11/ECIESCiphertext::get_cipher_keys/kind=panic@{}", panic_site(&p)), case.idx, case.json(input.clone()), p),
    }
    if has_pub {
        must_eq(acc, case, input, "ECIESCiphertext::extract_public_key", "", call(|| ct.extract_public_key().and_then(|k| k.to_bytes())), &t.pub_c[s]);
    } else {
        // nothing is stated for a ciphertext without embedded key; record what happens
        acc.transitions += 1;
        match call(|| ct.extract_public_key()) {
            Ok(Ok(_)) => acc.bump("extract_public_key_ok_without_embedded_key", 1),
            Ok(Err(_)) => acc.bump("extract_public_key_err_without_embedded_key", 1),
            Err(_) => acc.bump("extract_public_key_panic_without_embedded_key", 1),
        }
    }
    // decrypt inverts encrypt. Later steps are skipped once an earlier one has failed, so that one
    // defect in decrypt is not reported under every variation of the call.
    let fresh_ok = must_eq(acc, case, input, "ECIES::decrypt", "/of=fresh-object", call(|| ECIES::decrypt(ct, &sk_r, &pk_s)), message);
    // ... also after serialising and parsing back
    acc.transitions += 1;
    acc.traces += 1;
    if let Some(ct2) = must_ok(acc, case, input, "ECIESCiphertext::from_bytes", call(|| ECIESCiphertext::from_bytes(&bytes, has_pub)), "/of=own-serialisation") {
        must_eq(acc, case, input, "ECIESCiphertext::to_bytes", "/of=reparsed-object", guard(|| Ok(ct2.to_bytes())), &bytes);
        let reparsed_ok = fresh_ok && must_eq(acc, case, input, "ECIES::decrypt", "/of=reparsed-object", call(|| ECIES::decrypt(&ct2, &sk_r, &pk_s)), message);
        if reparsed_ok {
            must_eq(acc, case, input, "PrivateKey::decrypt_message", "/of=reparsed-object", call(|| sk_r.decrypt_message(&ct2, &pk_s)), message);
        }
        if has_pub {
            let extracted_ok = must_eq(acc, case, input, "ECIESCiphertext::extract_public_key", "/of=reparsed-object", call(|| ct2.extract_public_key().and_then(|k| k.to_bytes())), &t.pub_c[s]);
            // the usual way to decrypt an anonymous message: with the key taken from the ciphertext
            if reparsed_ok && extracted_ok {
                must_eq(acc, case, input, "ECIES::decrypt", "/of=reparsed-object/with=extracted-key", call(|| ECIES::decrypt(&ct2, &sk_r, &ct2.extract_public_key()?)), message);
            }
        }
    }
    // the reference serialisation must decrypt as well (same bytes unless a violation was recorded above)
    if bytes != want && fresh_ok {
        acc.transitions += 1;
        acc.traces += 1;
        if let Some(ct3) = must_ok(acc, case, input, "ECIESCiphertext::from_bytes", call(|| ECIESCiphertext::from_bytes(&want, has_pub)), "/of=reference-serialisation") {
            must_eq(acc, case, input, "ECIES::decrypt", "/of=reference-serialisation", call(|| ECIES::decrypt(&ct3, &sk_r, &pk_s)), message);
        }
    }
}

fn eval_encrypt(case: &Case, acc: &mut Acc, t: &Tab, nk: u64, ls: &[usize], np: u64) {
    let c = coords(case.idx, &[4, nk, nk, 4, ls.len() as u64, np]);
    eval_encrypt_at(case, acc, t, c[0] as usize, c[1] as usize, c[2] as usize, c[3], ls[c[4] as usize], c[5]);
}

/// every message length 0..=N (interior lengths, not only block boundaries) and a few large ones, one key pair, two key forms
fn eval_length_sweep(case: &Case, acc: &mut Acc, t: &Tab, ls: &[usize]) {
    let c = coords(case.idx, &[4, 2, ls.len() as u64]);
    eval_encrypt_at(case, acc, t, c[0] as usize, 3, 1, if c[1] == 0 { 0 } else { 3 }, ls[c[2] as usize], 0);
}

#[allow(clippy::too_many_arguments)]
fn eval_encrypt_at(case: &Case, acc: &mut Acc, t: &Tab, e: usize, s: usize, r: usize, form: u64, len: usize, p: u64) {
    eval_encrypt_msg(case, acc, t, e, s, r, form, &msg(p, len), PATTERN_NAMES[p as usize]);
}

/// Messages whose AES-CBC body (under the keys of sender 3 / recipient 1, as in the length sweep) begins with a byte
/// 0x02/0x03 followed by the x-coordinate of a curve point, i.e. a ciphertext WITHOUT embedded key whose bytes 4..37 look
/// exactly like an embedded compressed public key. Found by counter search with the reference AES (about 1 in 256).
fn body_looks_like_key_messages(t: &Tab, want: usize) -> Vec<Vec<u8>> {
    let k = &t.shared[3][1];
    let mut out = vec![];
    let mut c: u64 = 0;
    while out.len() < want && c < 200_000 {
        for len in [48usize, 61, 100] {
            let mut m = vec![0x20u8; len];
            m[..8].copy_from_slice(&c.to_le_bytes());
            let body = ra::cbc_encrypt(&k.ke, &k.iv, &m);
            if (body[0] == 2 || body[0] == 3) && secp::decode_point(&body[..33]).is_some() {
                out.push(m);
                break;
            }
        }
        c += 1;
    }
    out
}

#[allow(clippy::too_many_arguments)]
fn eval_encrypt_msg(case: &Case, acc: &mut Acc, t: &Tab, e: usize, s: usize, r: usize, form: u64, message: &[u8], pname: &str) {
    let message = message.to_vec();
    let len = message.len();
    let s_c = form & 1 == 0;
    let r_c = form & 2 == 0;
    let has_pub = e != 1;
    let input = json!({"entry": ENTRIES[e], "sender_secret": hex::encode(t.secrets[s]), "recipient_secret": hex::encode(t.secrets[r]), "sender_key_compressed": s_c, "recipient_key_compressed": r_c, "msg_len": len, "msg_pattern": pname, "msg": hx(&message)});
    acc.evaluations += 1;
    acc.nontrivial_structural += 1;
    if case.idx % 1777 == 0 {
        acc.sample(case.idx, || json!({"space": "encrypt", "entry": ENTRIES[e], "sender": KEY_NAMES[s], "recipient": KEY_NAMES[r], "sender_key_compressed": s_c, "recipient_key_compressed": r_c, "msg_len": len, "msg_pattern": pname}));
    }
    let (sk_s, pk_r) = match (t.lib_priv(s, s_c), t.lib_pub(r, r_c)) {
        (Ok(a), Ok(b)) => (a, b),
        (a, b) => {
            acc.violate("C11/setup/kind=key-construction-failed", case.idx, case.json(input), format!("{:?} {:?}", a.err(), b.err()));
            return;
        }
    };
    acc.transitions += 1;
    let res = match e {
        0 => call(|| ECIES::encrypt(&message, &sk_s, &pk_r, false)),
        1 => call(|| ECIES::encrypt(&message, &sk_s, &pk_r, true)),
        2 => call(|| pk_r.encrypt_message(&message, &sk_s)),
        _ => {
            // deterministic seam: the "random" ephemeral key is alphabet key s
            bsv::verif_hooks::push_random_key(t.secrets[s].to_vec());
            call(|| ECIES::encrypt_with_ephemeral_private_key(&message, &pk_r))
        }
    };
    let ct = match must_ok(acc, case, &input, ENTRIES[e], res, "") {
        Some(ct) => ct,
        None => return,
    };
    let direct = || call(|| ECIES::encrypt(&message, &sk_s, &pk_r, !has_pub)).ok().and_then(|r| r.ok()).map(|c| c.to_bytes());
    check_ciphertext(acc, case, &input, t, ENTRIES[e], &ct, s, r, s_c, r_c, has_pub, &message, &direct);

    // wrong keys presented to the FRESH ciphertext object (not one parsed back from bytes): the reference decides, which
    // for distinct keys is always "error" - over the whole length sweep this makes several thousand wrong-key probes
    {
        let nk = t.secrets.len();
        let bytes = guard(|| ct.to_bytes()).unwrap_or_default();
        for (role, wr, ws) in [("wrong-recipient-key", (r + 1) % nk, s), ("wrong-sender-key", r, (s + 2) % nk)] {
            if (wr, ws) == (r, s) {
                continue;
            }
            if let (Ok(sk_w), Ok(pk_w)) = (t.lib_priv(wr, true), t.lib_pub(ws, true)) {
                let want = ref_decrypt(&t.shared[wr][ws], &bytes, has_pub);
                acc.transitions += 1;
                expect_decrypt(acc, case, &input, "ECIES::decrypt", &format!("{}/object=fresh-from-encrypt", role), call(|| ECIES::decrypt(&ct, &sk_w, &pk_w)), &want, &message);
            }
        }
    }

    // key derivation from the sender's end (the recipient's end is checked with the ciphertext)
    acc.transitions += 1;
    acc.traces += 1;
    if let Some(k) = must_ok(acc, case, &input, "ECIES::derive_cipher_keys", call(|| ECIES::derive_cipher_keys(&sk_s, &pk_r)), "") {
        check_keys(acc, case, &input, "ECIES::derive_cipher_keys", &k, &t.shared[s][r]);
    }
}

/// PrivateKey::encrypt_message encrypts to the key's own public key.
fn eval_self(case: &Case, acc: &mut Acc, t: &Tab, nk: u64, ls: &[usize], np: u64) {
    let c = coords(case.idx, &[nk, 2, ls.len() as u64, np]);
    let (k, comp, len, p) = (c[0] as usize, c[1] == 0, ls[c[2] as usize], c[3]);
    let message = msg(p, len);
    let input = json!({"entry": "PrivateKey::encrypt_message", "secret": hex::encode(t.secrets[k]), "key_compressed": comp, "msg_len": len, "msg_pattern": PATTERN_NAMES[p as usize], "msg": hx(&message)});
    acc.evaluations += 1;
    acc.nontrivial_structural += 1;
    if case.idx % 997 == 3 {
        acc.sample(case.idx, || json!({"space": "self-encrypt", "key": KEY_NAMES[k], "key_compressed": comp, "msg_len": len, "msg_pattern": PATTERN_NAMES[p as usize]}));
    }
    let sk = match t.lib_priv(k, comp) {
        Ok(a) => a,
        Err(e) => {
            acc.violate("C11/setup/kind=key-construction-failed", case.idx, case.json(input), e);
            return;
        }
    };
    acc.transitions += 1;
    let res = call(|| sk.encrypt_message(&message));
    if let Some(ct) = must_ok(acc, case, &input, "PrivateKey::encrypt_message", res, "") {
        let direct = || call(|| ECIES::encrypt(&message, &sk, &sk.to_public_key()?, false)).ok().and_then(|r| r.ok()).map(|c| c.to_bytes());
        check_ciphertext(acc, case, &input, t, "PrivateKey::encrypt_message", &ct, k, k, comp, comp, true, &message, &direct);
        // and with the public key object the library derives itself
        must_eq(acc, case, &input, "PrivateKey::decrypt_message", "/with=to_public_key", call(|| sk.decrypt_message(&ct, &sk.to_public_key()?)), &message);
    }
}

// ---------------------------------------------------------------- tamper legs

#[derive(Clone, Copy)]
struct Base {
    s: usize,
    r: usize,
    len: usize,
    has_pub: bool,
}

impl Base {
    fn message(&self) -> Vec<u8> {
        pattern(2, self.len)
    }
    fn bytes(&self, t: &Tab) -> Vec<u8> {
        bie1(&t.shared[self.s][self.r], if self.has_pub { Some(&t.pub_c[self.s]) } else { None }, &self.message())
    }
    fn total(&self) -> usize {
        4 + if self.has_pub { 33 } else { 0 } + 16 * (self.len / 16 + 1) + 32
    }
    fn json(&self, t: &Tab) -> Value {
        json!({"sender_secret": hex::encode(t.secrets[self.s]), "recipient_secret": hex::encode(t.secrets[self.r]), "msg": hx(&self.message()), "public_key_included": self.has_pub, "valid_ciphertext": hx(&self.bytes(t))})
    }
}

fn tamper_pairs(tier: Tier) -> Vec<(usize, usize)> {
    if tier.is_thorough() {
        let mut v = vec![];
        for s in 0..4 {
            for r in 0..4 {
                v.push((s, r));
            }
        }
        v
    } else {
        // 1 -> 2, n-1 -> counter, counter -> counter (sender = recipient)
        vec![(0, 1), (2, 3), (3, 3)]
    }
}

fn tamper_lens(tier: Tier) -> Vec<usize> {
    if tier.is_thorough() {
        vec![0, 1, 15, 16, 17, 31, 32, 40, 100]
    } else {
        vec![0, 1, 15, 16, 17, 40]
    }
}

fn bases(tier: Tier) -> Vec<Base> {
    let mut v = vec![];
    for (s, r) in tamper_pairs(tier) {
        for len in tamper_lens(tier) {
            for has_pub in [true, false] {
                v.push(Base { s, r, len, has_pub });
            }
        }
    }
    v
}

/// Compare a decryption attempt with the reference expectation.
#[allow(clippy::too_many_arguments)]
fn expect_decrypt(acc: &mut Acc, case: &Case, input: &Value, entry: &str, tamper: &str, res: LibRes<Vec<u8>>, want: &Result<Vec<u8>, ()>, original: &[u8]) {
    acc.transitions += 1;
    acc.traces += 1;
    match (res, want) {
        (Err(p), _) => {
            acc.outcome(b"dec-panic");
            acc.violate(format!("C11/{}/kind=panic@{}/tamper={}", entry, panic_site(&p), tamper), case.idx, case.json(input.clone()), p);
        }
        (Ok(Err(_)), Err(())) => acc.outcome(format!("rejected:{}", tamper).as_bytes()),
        (Ok(Ok(pt)), Err(())) => {
            acc.outcome(b"accepted-tampered");
            acc.violate(
                format!("C11/{}/kind=missing-error/tamper={}", entry, tamper),
                case.idx,
                case.json(input.clone()),
                format!("library returned Ok({}){}; the reference construction rejects (MAC mismatch or malformed)", hx(&pt), if pt == original { " = the original plaintext" } else { "" }),
            );
        }
        (Ok(Err(e)), Ok(w)) => {
            acc.outcome(b"dec-err");
            acc.violate(format!("C11/{}/kind=spurious-error/tamper={}", entry, tamper), case.idx, case.json(input.clone()), format!("library=Err({}) reference=Ok({})", e, hx(w)));
        }
        (Ok(Ok(pt)), Ok(w)) => {
            acc.outcome(&pt[..pt.len().min(6)]);
            if pt != *w {
                acc.violate(format!("C11/{}/kind=wrong-result/tamper={}", entry, tamper), case.idx, case.json(input.clone()), format!("library={} reference={}", hx(&pt), hx(w)));
            }
        }
    }
}

fn eval_bitflip(case: &Case, acc: &mut Acc, t: &Tab, table: &[(usize, usize)], bs: &[Base]) {
    let (bi, bit) = table[case.idx as usize];
    let b = bs[bi];
    let valid = b.bytes(t);
    assert_eq!(valid.len(), b.total());
    acc.evaluations += 1;
    flip_one(case, acc, t, b, &valid, bit, "");
    // Should the library's own serialisation ever differ from the reference one (reported by the
    // encrypt space), corrupt that one too: the statement is about ciphertexts the library produced.
    // On a conforming library both are the same bytes and nothing more is run.
    acc.transitions += 1;
    let own = match (t.lib_priv(b.s, true), t.lib_pub(b.r, true)) {
        (Ok(sk_s), Ok(pk_r)) => call(|| ECIES::encrypt(&b.message(), &sk_s, &pk_r, !b.has_pub)).ok().and_then(|r| r.ok()).and_then(|ct| guard(|| ct.to_bytes()).ok()),
        _ => None,
    };
    if let Some(own) = own {
        if own != valid && own.len() == valid.len() {
            acc.bump("bitflips_also_run_on_deviating_own_ciphertext", 1);
            flip_one(case, acc, t, b, &own, bit, "/of=own-ciphertext");
        }
    }
}

/// Flip one bit of `valid` and require rejection. `suffix` distinguishes the library's own (deviating) ciphertext.
fn flip_one(case: &Case, acc: &mut Acc, t: &Tab, b: Base, valid: &[u8], bit: usize, suffix: &str) {
    let off = bit / 8;
    let mut tampered = valid.to_vec();
    tampered[off] ^= 1 << (bit % 8);
    let reg = region(off, valid.len(), b.has_pub);
    let mut input = b.json(t);
    input["flipped_byte"] = json!(off);
    input["flipped_bit"] = json!(bit % 8);
    input["region"] = json!(reg);
    if !suffix.is_empty() {
        input["valid_ciphertext"] = json!(hx(valid));
        input["valid_ciphertext_from"] = json!("library ECIES::encrypt (differs from the reference construction)");
    }
    if case.idx % 2503 == 300 {
        acc.sample(case.idx, || json!({"space": "tamper-bitflip", "sender": KEY_NAMES[b.s], "recipient": KEY_NAMES[b.r], "msg_len": b.len, "public_key_included": b.has_pub, "flipped_byte": off, "flipped_bit": bit % 8, "region": reg}));
    }
    let (sk_r, pk_s) = match (t.lib_priv(b.r, true), t.lib_pub(b.s, true)) {
        (Ok(x), Ok(y)) => (x, y),
        (x, y) => {
            acc.violate("C11/setup/kind=key-construction-failed", case.idx, case.json(input), format!("{:?} {:?}", x.err(), y.err()));
            return;
        }
    };
    let keys = &t.shared[b.s][b.r];
    acc.transitions += 1;
    let parsed = call(|| ECIESCiphertext::from_bytes(&tampered, b.has_pub));

    if reg == "magic" {
        // information only: the statement lists body, embedded key and MAC
        acc.bump("magic_flips_run", 1);
        match parsed {
            Ok(Ok(ct)) => {
                acc.transitions += 1;
                match call(|| ECIES::decrypt(&ct, &sk_r, &pk_s)) {
                    Ok(Ok(_)) => {
                        acc.outcome(b"magic-flip-accepted");
                        acc.bump("magic_flips_decrypted_ok", 1)
                    }
                    Ok(Err(_)) => {
                        acc.outcome(b"magic-flip-rejected");
                        acc.bump("magic_flips_rejected", 1)
                    }
                    Err(_) => acc.bump("magic_flips_panicked", 1),
                }
            }
            Ok(Err(_)) => {
                acc.outcome(b"magic-flip-rejected");
                acc.bump("magic_flips_rejected", 1)
            }
            Err(_) => acc.bump("magic_flips_panicked", 1),
        }
        return;
    }

    let tamper = format!("bitflip-{}{}", reg, suffix);
    let want = ref_decrypt(keys, &tampered, b.has_pub);
    let ct = match parsed {
        Err(p) => {
            acc.outcome(b"parse-panic");
            acc.violate(format!("C11/ECIESCiphertext::from_bytes/kind=panic@{}/tamper={}", panic_site(&p), tamper), case.idx, case.json(input), p);
            return;
        }
        Ok(Err(_)) => {
            // rejected while parsing: an error, not plaintext. The reference must agree that this is not a valid ciphertext.
            acc.traces += 1;
            acc.outcome(format!("parse-rejected:{}", tamper).as_bytes());
            if let Ok(w) = want {
                acc.violate(format!("C11/ECIESCiphertext::from_bytes/kind=spurious-error/tamper={}", tamper), case.idx, case.json(input), format!("reference decrypts to {}", hx(&w)));
            }
            return;
        }
        Ok(Ok(ct)) => ct,
    };
    acc.nontrivial_structural += 1;
    // (a) with the true sender key supplied by the caller
    expect_decrypt(acc, case, &input, "ECIES::decrypt", &tamper, call(|| ECIES::decrypt(&ct, &sk_r, &pk_s)), &want, &b.message());
    // (b) embedded key corrupted: the recipient may take the sender key from the ciphertext
    if reg == "pubkey" {
        acc.transitions += 1;
        match call(|| ct.extract_public_key()) {
            Err(p) => acc.violate(format!("C11/ECIESCiphertext::extract_public_key/kind=panic@{}/tamper={}", panic_site(&p), tamper), case.idx, case.json(input), p),
            Ok(Err(_)) => acc.outcome(b"extract-rejected"),
            Ok(Ok(pk2)) => {
                // reference: is the corrupted encoding another valid point? then derive its keys
                let want2 = match secp::decode_point(&tampered[4..37]) {
                    Some(p2) => {
                        acc.bump("pubkey_flips_yielding_another_valid_point", 1);
                        let k2 = kdf(&secp::mul(&secp::from_be(&t.secrets[b.r]), &p2));
                        ref_decrypt(&k2, &tampered, true)
                    }
                    None => {
                        acc.bump("pubkey_flips_yielding_invalid_point", 1);
                        Err(())
                    }
                };
                expect_decrypt(acc, case, &input, "ECIES::decrypt", &format!("bitflip-pubkey{}/with=extracted-key", suffix), call(|| ECIES::decrypt(&ct, &sk_r, &pk2)), &want2, &b.message());
            }
        }
    }
}

/// Two coordinated changes: (a) two MAC bytes changed by the same XOR delta, (b) by +d / -d (a comparison that folds the
/// differences with XOR or with addition accepts these), (c) one body bit flipped together with one MAC byte set to any
/// other value. Every such ciphertext must be rejected.
fn eval_two_changes(case: &Case, acc: &mut Acc, t: &Tab, b: Base, kind: u64, i: usize, j: usize, d: u8) {
    let valid = b.bytes(t);
    let total = valid.len();
    let mac0 = total - 32;
    let body0 = 4 + if b.has_pub { 33 } else { 0 };
    let mut tampered = valid.clone();
    let what = match kind {
        0 => {
            tampered[mac0 + i] ^= d;
            tampered[mac0 + j] ^= d;
            "two-mac-bytes-same-xor"
        }
        1 => {
            tampered[mac0 + i] = tampered[mac0 + i].wrapping_add(d);
            tampered[mac0 + j] = tampered[mac0 + j].wrapping_sub(d);
            "two-mac-bytes-plus-minus"
        }
        _ => {
            // i = body bit, j = mac byte
            tampered[body0 + i / 8] ^= 1 << (i % 8);
            tampered[mac0 + j] ^= d;
            "body-bit-and-mac-byte"
        }
    };
    if tampered == valid {
        return;
    }
    acc.evaluations += 1;
    let mut input = b.json(t);
    input["tampered_ciphertext"] = json!(hx(&tampered));
    input["tamper"] = json!(what);
    let (sk_r, pk_s) = match (t.lib_priv(b.r, true), t.lib_pub(b.s, true)) {
        (Ok(x), Ok(y)) => (x, y),
        _ => return,
    };
    let want = ref_decrypt(&t.shared[b.s][b.r], &tampered, b.has_pub);
    acc.transitions += 1;
    match call(|| ECIESCiphertext::from_bytes(&tampered, b.has_pub)) {
        Ok(Ok(ct)) => {
            acc.nontrivial_structural += 1;
            expect_decrypt(acc, case, &input, "ECIES::decrypt", what, call(|| ECIES::decrypt(&ct, &sk_r, &pk_s)), &want, &b.message());
        }
        Ok(Err(_)) => acc.outcome(b"parse-rejected:two-changes"),
        Err(p) => acc.violate(format!("C11/ECIESCiphertext::from_bytes/kind=panic@{}/tamper={}", panic_site(&p), what), case.idx, case.json(input), p),
    }
}

fn eval_truncation(case: &Case, acc: &mut Acc, t: &Tab, table: &[(usize, usize)], bs: &[Base]) {
    let (bi, keep) = table[case.idx as usize];
    let b = bs[bi];
    let valid = b.bytes(t);
    let cut = &valid[..keep];
    let mut input = b.json(t);
    input["kept_bytes"] = json!(keep);
    acc.evaluations += 1;
    if case.idx % 499 == 7 {
        acc.sample(case.idx, || json!({"space": "tamper-truncate", "sender": KEY_NAMES[b.s], "recipient": KEY_NAMES[b.r], "msg_len": b.len, "public_key_included": b.has_pub, "kept_bytes": keep, "of": valid.len()}));
    }
    let (sk_r, pk_s) = match (t.lib_priv(b.r, true), t.lib_pub(b.s, true)) {
        (Ok(x), Ok(y)) => (x, y),
        (x, y) => {
            acc.violate("C11/setup/kind=key-construction-failed", case.idx, case.json(input), format!("{:?} {:?}", x.err(), y.err()));
            return;
        }
    };
    let want = ref_decrypt(&t.shared[b.s][b.r], cut, b.has_pub);
    acc.transitions += 1;
    acc.traces += 1;
    match call(|| ECIESCiphertext::from_bytes(cut, b.has_pub)) {
        Err(_) => {
            // unchecked slicing in from_bytes: no plaintext came back, so not a C11 violation; the panic is C09's
            acc.outcome(b"trunc-parse-panic");
            acc.bump("truncation_panics_left_to_C09", 1);
        }
        Ok(Err(_)) => {
            acc.outcome(b"trunc-parse-rejected");
            if let Ok(w) = want {
                acc.violate("C11/ECIESCiphertext::from_bytes/kind=spurious-error/tamper=truncation", case.idx, case.json(input), format!("reference decrypts to {}", hx(&w)));
            }
        }
        Ok(Ok(ct)) => {
            acc.nontrivial_structural += 1;
            match call(|| ECIES::decrypt(&ct, &sk_r, &pk_s)) {
                Err(_) => {
                    acc.transitions += 1;
                    acc.outcome(b"trunc-decrypt-panic");
                    acc.bump("truncation_decrypt_panics_left_to_C09", 1);
                }
                res => expect_decrypt(acc, case, &input, "ECIES::decrypt", "truncation", res, &want, &b.message()),
            }
        }
    }
}

fn eval_wrong_key(case: &Case, acc: &mut Acc, t: &Tab, nk: u64, bs: &[Base]) {
    let c = coords(case.idx, &[bs.len() as u64, 2, nk]);
    let b = bs[c[0] as usize];
    let role = c[1];
    let k = c[2] as usize;
    let valid = b.bytes(t);
    let mut input = b.json(t);
    let (ri, si, tamper) = if role == 0 {
        input["recipient_secret_used_for_decryption"] = json!(hex::encode(t.secrets[k]));
        (k, b.s, if k == b.r { "none(correct-keys)" } else { "wrong-recipient-key" })
    } else {
        input["sender_public_key_claimed_at_decryption"] = json!(hex::encode(&t.pub_c[k]));
        (b.r, k, if k == b.s { "none(correct-keys)" } else { "wrong-sender-key" })
    };
    acc.evaluations += 1;
    acc.nontrivial_structural += 1;
    if case.idx % 211 == 5 {
        acc.sample(case.idx, || json!({"space": "wrong-key", "sender": KEY_NAMES[b.s], "recipient": KEY_NAMES[b.r], "msg_len": b.len, "public_key_included": b.has_pub, "replaced": if role == 0 { "recipient private key" } else { "claimed sender public key" }, "by": KEY_NAMES[k]}));
    }
    let (sk, pk) = match (t.lib_priv(ri, true), t.lib_pub(si, true)) {
        (Ok(x), Ok(y)) => (x, y),
        (x, y) => {
            acc.violate("C11/setup/kind=key-construction-failed", case.idx, case.json(input), format!("{:?} {:?}", x.err(), y.err()));
            return;
        }
    };
    // the reference decides: keys derived from the pair actually used at decryption
    let want = ref_decrypt(&t.shared[ri][si], &valid, b.has_pub);
    assert_eq!(want.is_ok(), tamper.starts_with("none"), "reference: wrong-key expectation");
    acc.transitions += 1;
    let ct = match must_ok(acc, case, &input, "ECIESCiphertext::from_bytes", call(|| ECIESCiphertext::from_bytes(&valid, b.has_pub)), "/of=reference-serialisation") {
        Some(ct) => ct,
        None => return,
    };
    let r1 = call(|| ECIES::decrypt(&ct, &sk, &pk));
    let r2 = call(|| sk.decrypt_message(&ct, &pk));
    // PrivateKey::decrypt_message is judged on its own only when it behaves differently from ECIES::decrypt
    let same = match (&r1, &r2) {
        (Ok(Ok(a)), Ok(Ok(b))) => a == b,
        (Ok(Err(_)), Ok(Err(_))) => true,
        (Err(_), Err(_)) => true,
        _ => false,
    };
    expect_decrypt(acc, case, &input, "ECIES::decrypt", tamper, r1, &want, &b.message());
    if same {
        acc.transitions += 1;
        acc.traces += 1;
    } else {
        expect_decrypt(acc, case, &input, "PrivateKey::decrypt_message", tamper, r2, &want, &b.message());
    }
}

// ---------------------------------------------------------------- spaces

fn dims(tier: Tier) -> (u64, u64) {
    if tier.is_thorough() {
        (8, 3)
    } else {
        (5, 3)
    }
}

pub fn spaces(tier: Tier) -> Vec<Space> {
    let (nk, np) = dims(tier);
    let t = Arc::new(tab(nk as usize));
    let ls = lens(tier);
    let nl = ls.len() as u64;
    let mut v = vec![];
    {
        let (t, ls) = (t.clone(), ls.clone());
        v.push(Space::new("encrypt", 4 * nk * nk * 4 * nl * np, move |case, acc| eval_encrypt(case, acc, &t, nk, &ls, np)));
    }
    {
        let (t, ls) = (t.clone(), ls.clone());
        v.push(Space::new("self-encrypt", nk * 2 * nl * np, move |case, acc| eval_self(case, acc, &t, nk, &ls, np)));
    }
    {
        let t = t.clone();
        let mut sweep: Vec<usize> = (0..=if tier.is_thorough() { 2100 } else { 600 }).collect();
        sweep.extend_from_slice(&[4097, 16385, 65537, 70000, (1 << 20) + 4097]);
        v.push(Space::new("length-sweep", 4 * 2 * sweep.len() as u64, move |case, acc| eval_length_sweep(case, acc, &t, &sweep)));
    }
    {
        // ciphertexts without embedded key whose body imitates an embedded key (content that looks like the library's framing)
        let t = t.clone();
        let msgs = Arc::new(body_looks_like_key_messages(&t, if tier.is_thorough() { 24 } else { 6 }));
        let nm = msgs.len() as u64;
        v.push(Space::new("body-looks-like-embedded-key", 4 * 2 * nm, move |case, acc| {
            let c = coords(case.idx, &[4, 2, nm]);
            eval_encrypt_msg(case, acc, &t, c[0] as usize, 3, 1, if c[1] == 0 { 0 } else { 3 }, &msgs[c[2] as usize], "body-imitates-embedded-key");
        }));
    }
    let bs = Arc::new(bases(tier));
    let mut flips = vec![];
    let mut cuts = vec![];
    for (i, b) in bs.iter().enumerate() {
        for bit in 0..8 * b.total() {
            flips.push((i, bit));
        }
        for keep in 0..b.total() {
            cuts.push((i, keep));
        }
    }
    {
        let (t, bs) = (t.clone(), bs.clone());
        v.push(Space::new("tamper-bitflip", flips.len() as u64, move |case, acc| eval_bitflip(case, acc, &t, &flips, &bs)));
    }
    {
        let (t, bs) = (t.clone(), bs.clone());
        v.push(Space::new("tamper-truncate", cuts.len() as u64, move |case, acc| eval_truncation(case, acc, &t, &cuts, &bs)));
    }
    {
        let (t, bs) = (t.clone(), bs.clone());
        v.push(Space::new("wrong-key", bs.len() as u64 * 2 * nk, move |case, acc| eval_wrong_key(case, acc, &t, nk, &bs)));
    }
    // shared points whose x coordinate lies in [n, p): the recipient key is constructed as a^-1 * T for the first curve
    // points T with x >= n and the last below p; the ciphertext must equal the reference built from T
    {
        let t = t.clone();
        let (n, pp) = (secp::n(), secp::p());
        let mut ts: Vec<Point> = vec![];
        let mut x = n.clone();
        while ts.len() < 4 {
            if let Some(y) = secp::lift_x(&x, ts.len() % 2 == 0) {
                ts.push(Point::Affine { x: x.clone(), y });
            }
            x += 1u32;
        }
        let mut x = &pp - 1u32;
        while ts.len() < 8 {
            if let Some(y) = secp::lift_x(&x, ts.len() % 2 == 0) {
                ts.push(Point::Affine { x: x.clone(), y });
            }
            x -= 1u32;
        }
        v.push(Space::new("shared-point-x-above-n", 8 * 3 * 2 * 3, move |case, acc| {
            let c = coords(case.idx, &[8, 3, 2, 3]);
            let shared = &ts[c[0] as usize];
            let si = c[1] as usize + 1;
            let a = secp::from_be(&t.secrets[si]);
            let ainv = a.modpow(&(&n - 2u32), &n);
            let recipient = secp::mul(&ainv, shared);
            let exclude = c[2] == 1;
            let message = msg(0, [0usize, 17, 64][c[3] as usize]);
            let keys = kdf(shared);
            let want = bie1(&keys, if exclude { None } else { Some(&t.pub_c[si]) }, &message);
            let renc = secp::encode_point(&recipient, true);
            let sx = match shared {
                Point::Affine { x, .. } => hx(&secp::be32(x)),
                _ => String::new(),
            };
            let input = json!({"sender_secret": hex::encode(t.secrets[si]), "recipient_public_key": hx(&renc), "shared_point_x": sx, "msg": hx(&message), "exclude_pub_key": exclude});
            acc.evaluations += 1;
            acc.transitions += 2;
            acc.traces += 1;
            acc.nontrivial_structural += 1;
            let sk = match t.lib_priv(si, true) {
                Ok(k) => k,
                Err(_) => return,
            };
            let r = call(|| {
                let pk = PublicKey::from_bytes(&renc)?;
                Ok(ECIES::encrypt(&message, &sk, &pk, exclude)?.to_bytes())
            });
            must_eq(acc, case, &input, "ECIES::encrypt", "/shared-x>=n", r, &want);
        }));
    }
    // coordinated two-place tampering (MAC comparisons that fold differences accept these)
    {
        let t = t.clone();
        let deltas: Vec<u8> = if tier.is_thorough() { (1..=255u8).collect() } else { vec![1, 2, 4, 8, 16, 32, 64, 128, 0xff, 0x55, 0xaa, 3] };
        let nd = deltas.len() as u64;
        let d2 = deltas.clone();
        let t2 = t.clone();
        v.push(Space::new("tamper-two-mac-bytes", 2 * 2 * 32 * 32 * nd, move |case, acc| {
            let c = coords(case.idx, &[2, 2, 32, 32, nd]);
            if c[2] >= c[3] {
                return;
            }
            let b = Base { s: 0, r: 1, len: 17, has_pub: c[0] == 0 };
            eval_two_changes(case, acc, &t2, b, c[1], c[2] as usize, c[3] as usize, d2[c[4] as usize]);
        }));
        let macbytes: Vec<usize> = if tier.is_thorough() { (0..32).collect() } else { vec![0, 13, 31] };
        let nm = macbytes.len() as u64;
        v.push(Space::new("tamper-body-bit-and-mac-byte", 2 * 256 * nm * 255, move |case, acc| {
            let c = coords(case.idx, &[2, 256, nm, 255]);
            let b = Base { s: 2, r: 3, len: 17, has_pub: c[0] == 0 };
            eval_two_changes(case, acc, &t, b, 2, c[1] as usize, macbytes[c[2] as usize], (c[3] + 1) as u8);
        }));
    }
    v
}

/// "every length 0..=k, then the listed ones"
fn lens_json(tier: Tier) -> Value {
    let ls = lens(tier);
    let run = ls.iter().enumerate().take_while(|(i, l)| *i == **l).count();
    json!({"every_length_0_to": run - 1, "then": ls[run..].to_vec()})
}

fn run(ctx: &Ctx) -> Report {
    let mut r = Report::new(
        "full cartesian products. encrypt: 4 entry points (ECIES::encrypt with and without embedded key, PublicKey::encrypt_message, encrypt_with_ephemeral_private_key fed through the from_random seam) × sender key × recipient key (all ordered pairs) × 4 compression-form combinations × message lengths × patterns; each case compares to_bytes with the independent BIE1 construction, the accessors, extract_public_key, derive_cipher_keys from both ends, and decrypts the fresh object, the reparsed object (ECIES::decrypt and PrivateKey::decrypt_message) and with the extracted key. self-encrypt: PrivateKey::encrypt_message for every key. tamper-bitflip: every single-bit flip of every base ciphertext (pairs × lengths × both inclusion modes), decrypted with the true keys and, for flips in the embedded key, with the extracted key. tamper-truncate: every proper prefix. wrong-key: every key of the alphabet as recipient key and as claimed sender key (the correct key is the positive control). Expected Ok/Err and plaintext always come from the reference. Non-trivial = the library produced or parsed a ciphertext and the result was compared; cases are distinct by construction.",
    );
    let (nk, np) = dims(ctx.tier);
    r.bounds = json!({
        "keys": KEY_NAMES[..nk as usize].to_vec(),
        "msg_lens": lens_json(ctx.tier),
        "msg_patterns": PATTERN_NAMES[..np as usize].to_vec(),
        "compression_forms": "sender × recipient ∈ {compressed, uncompressed}²",
        "entries": ENTRIES,
        "tamper_pairs(sender,recipient)": tamper_pairs(ctx.tier).iter().map(|(s, r)| format!("{}->{}", KEY_NAMES[*s], KEY_NAMES[*r])).collect::<Vec<_>>(),
        "tamper_msg_lens": tamper_lens(ctx.tier),
        "deviation_bound": 1
    });
    r.assumptions.push("flips inside the 4 magic bytes are executed and only counted (info magic_flips_*): the statement lists body, embedded key and MAC".into());
    r.assumptions.push("truncated buffers on which ECIESCiphertext::from_bytes panics (unchecked slicing) returned no plaintext and are not C11 violations; they are counted in info truncation_panics_left_to_C09 and belong to C09".into());
    r.assumptions.push("extract_public_key on a ciphertext without embedded key and get_cipher_keys()==None are not constrained by the statement; observed behaviour is counted only".into());
    r.assumptions.push("which error variant is returned for a rejected ciphertext is not part of the statement".into());
    run_spaces(ctx, &mut r, spaces(ctx.tier));
    r
}

fn replay(case: &Value) -> Vec<(String, String)> {
    replay_spaces(spaces, case)
}
