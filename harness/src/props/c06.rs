//! C06 — signature encodings (DER, DER+sighash flag, 65-byte compact) round-trip,
//! public-key recovery finds exactly the signer, malformed DER is rejected.
//! Reference: refs::secp (ECDSA recover, strict DER) + a local lenient DER
//! structure classifier used only to decide which malformed inputs the
//! statement requires to be rejected.
use super::{hx, pattern, replay_spaces, run_spaces, Case, Prop, Space};
use crate::engine::{coords, guard, panic_site, Acc, Ctx, Report, Tier};
use crate::refs::{hashes, secp};
use bsv::{PrivateKey, RecoveryInfo, SigHash, SighashSignature, Signature, SigningHash, ECDSA};
use num_bigint::BigUint;
use num_traits::{One, Zero};
use serde_json::{json, Value};
use std::sync::Arc;

pub const PROP: Prop = Prop {
    run,
    replay,
    spaces: Some(spaces),
    level_note: "trusted base: refs::secp (ECDSA public-key recovery, strict BIP66 DER encoder/decoder, SEC1 point encoding), refs::hashes; which malformed DER inputs must be rejected is decided by a structural classifier written in this module from the categories named in the statement (wrong lengths, trailing bytes, zero or >= n scalars); r, s and key values outside the stated alphabets are not covered",
};

pub const FLAGS: [u8; 14] = [0x01, 0x02, 0x03, 0x40, 0x41, 0x42, 0x43, 0x80, 0x81, 0x82, 0x83, 0xc1, 0xc2, 0xc3];

fn is_flag(b: u8) -> bool {
    FLAGS.contains(&b)
}

pub const KEYS: [&str; 12] = [
    "0000000000000000000000000000000000000000000000000000000000000001",
    "fffffffffffffffffffffffffffffffebaaedce6af48a03bbfd25e8cd0364140",
    "7fffffffffffffffffffffffffffffff5d576e7357a4501ddfe92f46681b20a0",
    "c0ffee254729296a45a3885639ac7e10f9d54979a0f5b2d1e8b1c4a7d3f6e5b9",
    "0000000000000000000000000000000000000000000000000000000000000002",
    "0000000000000000000000000000000000000000000000000000000000abcdef",
    "18e14a7b6a307f426a94f8114701e7c8e774e7f9a47e2c2035db29a206321725",
    "8000000000000000000000000000000000000000000000000000000000000000",
    "fffffffffffffffffffffffffffffffebaaedce6af48a03bbfd25e8cd036413f",
    "0123456789abcdef0123456789abcdef0123456789abcdef0123456789abcdef",
    "7fffffffffffffffffffffffffffffff5d576e7357a4501ddfe92f46681b20a1",
    "00000000000000000000000000000000ffffffffffffffffffffffffffffffff",
];

/// Nonces for `ECDSA::sign_with_k` (ordinary, 1, n-1, ordinary).
pub const NONCES: [&str; 4] = [
    "1f1e1d1c1b1a191817161514131211100f0e0d0c0b0a09080706050403020100",
    "0000000000000000000000000000000000000000000000000000000000000001",
    "fffffffffffffffffffffffffffffffebaaedce6af48a03bbfd25e8cd0364140",
    "5a8279996ed9eba18f1bbcdcca62c1d6243f6a8885a308d313198a2e03707344",
];

fn nonce_hex(i: usize) -> String {
    NONCES[i].to_string()
}

// ------------------------------------------------------------------ library call plumbing

enum L<T> {
    Ok(T),
    Err(String),
    Panic(String),
}

impl<T> L<T> {
    fn tag(&self) -> u8 {
        match self {
            L::Ok(_) => 1,
            L::Err(_) => 0,
            L::Panic(_) => 2,
        }
    }
}

fn call<T>(acc: &mut Acc, f: impl FnOnce() -> Result<T, bsv::BSVErrors>) -> L<T> {
    acc.transitions += 1;
    match guard(|| f().map_err(|e| e.to_string())) {
        Ok(Ok(v)) => L::Ok(v),
        Ok(Err(e)) => L::Err(e),
        Err(p) => L::Panic(p),
    }
}

fn call_plain<T>(acc: &mut Acc, f: impl FnOnce() -> T) -> L<T> {
    acc.transitions += 1;
    match guard(f) {
        Ok(v) => L::Ok(v),
        Err(p) => L::Panic(p),
    }
}

struct V<'a, 'b> {
    acc: &'a mut Acc,
    case: &'a Case<'b>,
    input: &'a dyn Fn() -> Value,
}

impl<'a, 'b> V<'a, 'b> {
    fn bad(&mut self, key: &str, detail: String) {
        self.acc.violate(format!("C06/{}", key), self.case.idx, self.case.json((self.input)()), detail);
    }

    /// A parse that the statement requires to succeed with exactly (r, s).
    fn expect_sig(&mut self, key: &str, what: &str, res: L<Signature>, r: &[u8; 32], s: &[u8; 32]) -> Option<Signature> {
        self.acc.traces += 1;
        match res {
            L::Ok(sig) => {
                let (lr, ls) = (sig.r(), sig.s());
                if lr != r || ls != s {
                    self.bad(&format!("{}/kind=wrong-result", key), format!("{}: library r={} s={} expected r={} s={}", what, hx(&lr), hx(&ls), hx(r), hx(s)));
                }
                Some(sig)
            }
            L::Err(e) => {
                self.bad(&format!("{}/kind=spurious-error", key), format!("{}: library error \"{}\", expected r={} s={}", what, e, hx(r), hx(s)));
                None
            }
            L::Panic(p) => {
                self.bad(&format!("{}/kind=panic@{}", key, panic_site(&p)), format!("{}: {}", what, p));
                None
            }
        }
    }

    /// A serialisation that must produce exactly `want`.
    fn expect_bytes(&mut self, key: &str, what: &str, res: L<Vec<u8>>, want: &[u8]) -> bool {
        self.acc.traces += 1;
        match res {
            L::Ok(got) => {
                if got != want {
                    self.bad(&format!("{}/kind=wrong-result", key), format!("{}: library={} expected={}", what, hx(&got), hx(want)));
                    return false;
                }
                true
            }
            L::Err(e) => {
                self.bad(&format!("{}/kind=spurious-error", key), format!("{}: library error \"{}\", expected {}", what, e, hx(want)));
                false
            }
            L::Panic(p) => {
                self.bad(&format!("{}/kind=panic@{}", key, panic_site(&p)), format!("{}: {}", what, p));
                false
            }
        }
    }
}

/// The enum variant for a flag byte, named directly: going through the library's own `SigHash::try_from` would make the
/// harness skip exactly the flags a broken conversion refuses.
fn sighash_of(f: u8) -> Option<SigHash> {
    Some(match f {
        0x01 => SigHash::ALL,
        0x02 => SigHash::NONE,
        0x03 => SigHash::SINGLE,
        0x40 => SigHash::FORKID,
        0x80 => SigHash::ANYONECANPAY,
        0x41 => SigHash::InputsOutputs,
        0x42 => SigHash::Inputs,
        0x43 => SigHash::InputsOutput,
        0xc1 => SigHash::InputOutputs,
        0xc2 => SigHash::Input,
        0xc3 => SigHash::InputOutput,
        0x81 => SigHash::Legacy_InputOutputs,
        0x82 => SigHash::Legacy_Input,
        0x83 => SigHash::Legacy_InputOutput,
        _ => return None,
    })
}

// ------------------------------------------------------------------ DER / DER+flag legs (shared by library-made and synthetic signatures)

/// All DER-side round trips of one signature object whose scalars are (r, s).
fn der_legs(v: &mut V, sig: &Signature, r: &BigUint, s: &BigUint) {
    let (r32, s32) = (secp::be32(r), secp::be32(s));
    let want = secp::der_encode(r, s);
    let tail = tail_of(&want);
    v.acc.outcome(&[b'd', want.len() as u8, tail.len() as u8]);
    // serialise
    let der = call_plain(v.acc, || sig.to_der_bytes());
    v.expect_bytes("to_der_bytes", "DER serialisation", der, &want);
    let derhex = call_plain(v.acc, || sig.to_der_hex().into_bytes());
    v.expect_bytes("to_der_hex", "DER hex serialisation", derhex, hex::encode(&want).as_bytes());
    // parse pure DER: must succeed whatever the final byte is
    let p = call(v.acc, || Signature::from_der(&want));
    let p_tag = p.tag();
    let parsed = v.expect_sig(&format!("from_der/pure-der{}", tail), &format!("from_der({})", hx(&want)), p, &r32, &s32);
    let ph = call(v.acc, || Signature::from_hex_der(&hex::encode(&want)));
    let same = match (&parsed, &ph) {
        (Some(a), L::Ok(b)) => a.r() == b.r() && a.s() == b.s(),
        (None, L::Ok(_)) => false,
        (Some(_), _) => false,
        (None, other) => other.tag() == p_tag,
    };
    if !same {
        v.bad("from_hex_der/kind=differs-from-from_der", format!("from_hex_der({}) does not behave like from_der on the same bytes", hex::encode(&want)));
    }
    // DER || flag
    for f in FLAGS {
        let mut b = want.clone();
        b.push(f);
        let p = call(v.acc, || Signature::from_der(&b));
        v.acc.outcome(&[b'f', p.tag()]);
        v.expect_sig(&format!("from_der/der+flag{}", tail), &format!("from_der(DER||{:02x}) with DER={}", f, hx(&want)), p, &r32, &s32);
        let Some(sh) = sighash_of(f) else {
            v.acc.bump("flag_without_enum_variant", 1);
            continue;
        };
        // the byte <-> variant conversions must agree with the variant named above
        match guard(|| (SigHash::try_from(f).ok(), sh as u8)) {
            Ok((Some(t), back)) if t == sh && back == f => {}
            Ok(other) => v.bad(&format!("SigHash::try_from/kind=wrong-conversion/flag={:02x}", f), format!("try_from({:#04x}) = {:?}, the variant converts back to {:#04x}", f, other.0, other.1)),
            Err(p) => v.bad(&format!("SigHash::try_from/kind=panic@{}", panic_site(&p)), p),
        }
        let ss = match guard(|| SighashSignature::new(sig, sh, &[])) {
            Ok(x) => x,
            Err(p) => {
                v.bad(&format!("SighashSignature::new/kind=panic@{}", panic_site(&p)), p);
                continue;
            }
        };
        let ser = call(v.acc, || ss.to_bytes());
        v.expect_bytes("SighashSignature::to_bytes", &format!("flag {:02x}", f), ser, &b);
        // parse back and observe through re-serialisation (the type has no accessors)
        let back = call(v.acc, || SighashSignature::from_bytes(&b, &[]).and_then(|x| x.to_bytes()));
        v.acc.outcome(&[b's', back.tag()]);
        v.expect_bytes(&format!("SighashSignature::from_bytes/der+flag{}", tail), &format!("from_bytes(DER||{:02x}).to_bytes() with {}-byte DER={}", f, want.len(), hx(&want)), back, &b);
    }
}

fn header_of(recid: u8, comp: bool) -> u8 {
    27 + (recid & 3) + if comp { 4 } else { 0 }
}

/// One way of handing recovery data to `to_compact_bytes` / `to_compact_hex`.
#[derive(Clone, Copy)]
enum Supplied {
    Nothing,
    /// `RecoveryInfo::new(y_odd, x_reduced, compressed)`
    New(bool, bool, bool),
    /// `RecoveryInfo::from_byte(recid, compressed)`
    FromByte(u8, bool),
}

impl Supplied {
    /// None, the 8 (y_odd, x_reduced, compressed) combinations, the 8 (recid, compressed) combinations.
    fn all() -> Vec<Supplied> {
        let mut v = vec![Supplied::Nothing];
        for c in [false, true] {
            for x in [false, true] {
                for y in [false, true] {
                    v.push(Supplied::New(y, x, c));
                }
            }
        }
        for c in [false, true] {
            for id in 0..4u8 {
                v.push(Supplied::FromByte(id, c));
            }
        }
        v
    }

    fn info(&self) -> Option<RecoveryInfo> {
        match *self {
            Supplied::Nothing => None,
            Supplied::New(y, x, c) => Some(RecoveryInfo::new(y, x, c)),
            Supplied::FromByte(id, c) => Some(RecoveryInfo::from_byte(id, c)),
        }
    }

    /// The header byte the statement's arithmetic gives: 27 + (x_reduced << 1 | y_odd) + 4 * compressed.
    fn header(&self) -> Option<u8> {
        match *self {
            Supplied::Nothing => None,
            Supplied::New(y, x, c) => Some(header_of((x as u8) << 1 | y as u8, c)),
            Supplied::FromByte(id, c) => Some(header_of(id, c)),
        }
    }

    fn describe(&self) -> String {
        match *self {
            Supplied::Nothing => "None".into(),
            Supplied::New(y, x, c) => format!("Some(RecoveryInfo::new(y_odd={}, x_reduced={}, compressed={}))", y, x, c),
            Supplied::FromByte(id, c) => format!("Some(RecoveryInfo::from_byte({}, {}))", id, c),
        }
    }
}

/// The compact serialisation matrix of ONE signature object: `to_compact_bytes(x)` for x = None and every
/// explicit `RecoveryInfo`, whatever recovery data the object already carries (`stored` = the header byte
/// that describes it; None for DER-parsed objects).
///   * explicit info   -> header = 27 + recid + 4*compressed of the info that was passed,
///   * None, stored    -> header = stored,
///   * None, no stored -> the statement does not fix the header: it only has to parse back (counted),
/// r || s untouched, `to_compact_hex` the hex of the same bytes, and `from_compact_bytes` of the result hands back
/// the same r, s, recovery id and marker (observed through `to_compact_bytes(None)`).
/// `after(v, supplied, header, parsed-back object)` runs for every combination that got that far.
fn compact_matrix(v: &mut V, origin: &str, obj: &Signature, stored: Option<u8>, r32: &[u8; 32], s32: &[u8; 32], after: &mut dyn FnMut(&mut V, Supplied, u8, &Signature)) {
    let stored_txt = stored.map(|h| format!("header {}", h)).unwrap_or_else(|| "none".into());
    let sups = Supplied::all();
    let outs: Vec<L<Vec<u8>>> = sups.iter().map(|sup| call_plain(v.acc, || obj.to_compact_bytes(sup.info()))).collect();
    // root-cause discrimination: an object that answers EVERY explicit info with its own stored header ignores the argument;
    // anything else that is wrong is header arithmetic / field mix-up
    let ignores_argument = match stored {
        Some(st) => sups.iter().zip(&outs).filter(|(sup, _)| sup.header().is_some()).all(|(_, o)| matches!(o, L::Ok(b) if b.first() == Some(&st))),
        None => false,
    };
    // at most one report per key and object: the 17 ways of supplying the data are one defect, not 17
    let mut reported: Vec<&'static str> = vec![];
    for (sup, out) in sups.iter().zip(outs) {
        let what = format!("{} (recovery data it carries: {}).to_compact_bytes({})", origin, stored_txt, sup.describe());
        v.acc.traces += 1;
        let cb = match out {
            L::Ok(b) => b,
            L::Err(_) => unreachable!(),
            L::Panic(p) => {
                v.bad(&format!("to_compact_bytes/kind=panic@{}", panic_site(&p)), format!("{}: {}", what, p));
                continue;
            }
        };
        if cb.len() != 65 || cb[1..33] != r32[..] || cb[33..65] != s32[..] {
            if !reported.contains(&"rs") {
                reported.push("rs");
                v.bad("to_compact_bytes/kind=wrong-result", format!("{}: compact bytes {} do not carry r={} s={}", what, hx(&cb), hx(r32), hx(s32)));
            }
            continue;
        }
        match (sup.header(), stored) {
            (Some(w), _) if cb[0] != w => {
                let key = if ignores_argument { "to_compact_bytes/explicit-info/kind=ignored-in-favour-of-stored-recovery-data" } else { "to_compact_bytes/explicit-info/kind=wrong-result" };
                if !reported.contains(&key) {
                    reported.push(key);
                    v.bad(key, format!("{}: header byte {} expected {}", what, cb[0], w));
                }
                continue;
            }
            (None, Some(w)) if cb[0] != w => {
                v.bad("compact-roundtrip/recovery-data/kind=wrong-result", format!("{}: header byte {} expected the stored {}", what, cb[0], w));
                continue;
            }
            (None, None) => v.acc.bump(&format!("no_recovery_data_anywhere_header_{}", cb[0]), 1),
            _ => {}
        }
        v.acc.outcome(&[b'x', stored.is_some() as u8, cb[0]]);
        let twin = call_plain(v.acc, || obj.to_compact_hex(sup.info()).into_bytes());
        v.expect_bytes("to_compact_hex", &what, twin, hex::encode(&cb).as_bytes());
        let p = call(v.acc, || Signature::from_compact_bytes(&cb));
        if let Some(back) = v.expect_sig("from_compact_bytes", &format!("from_compact_bytes({}) = output of {}", hx(&cb), what), p, r32, s32) {
            let again = call_plain(v.acc, || back.to_compact_bytes(None));
            v.expect_bytes("compact-roundtrip/recovery-data", &format!("to_compact_bytes(None) of from_compact_bytes({}) = output of {}", hx(&cb), what), again, &cb);
            after(v, *sup, cb[0], &back);
        }
    }
}

/// Compact encoding with every recovery id and both compression markers: objects that carry each of the 8 headers
/// (parsed from compact bytes) and objects that carry none (parsed from DER and from DER || flag), each through the
/// whole `compact_matrix`.
fn compact_legs(v: &mut V, r: &BigUint, s: &BigUint) {
    let (r32, s32) = (secp::be32(r), secp::be32(s));
    let der = secp::der_encode(r, s);
    let mut flagged = der.clone();
    flagged.push(0x41);
    let mut nothing = |_: &mut V, _: Supplied, _: u8, _: &Signature| {};
    for h in 27u8..=34 {
        let mut cb = vec![h];
        cb.extend_from_slice(&r32);
        cb.extend_from_slice(&s32);
        let p = call(v.acc, || Signature::from_compact_bytes(&cb));
        if let Some(sig) = v.expect_sig("from_compact_bytes", &format!("from_compact_bytes({})", hx(&cb)), p, &r32, &s32) {
            compact_matrix(v, "compact-parsed object", &sig, Some(h), &r32, &s32, &mut nothing);
        }
    }
    // signature objects without recovery data (failures to parse are reported by der_legs)
    for (origin, bytes) in [("DER-parsed object", &der), ("DER||41-parsed object", &flagged)] {
        match call(v.acc, || Signature::from_der(bytes)) {
            L::Ok(bare) => compact_matrix(v, origin, &bare, None, &r32, &s32, &mut nothing),
            _ => v.acc.bump("explicit_recovery_info_leg_skipped_no_der_parse", 1),
        }
    }
}

// ------------------------------------------------------------------ space 1: signatures made by the library

struct KeyRow {
    hex: &'static str,
    q: secp::Point,
    enc: [Vec<u8>; 2],
}

fn key_rows(n: usize) -> Vec<KeyRow> {
    KEYS[..n]
        .iter()
        .map(|h| {
            let d = secp::from_be(&hex::decode(h).unwrap());
            let q = secp::mul_g(&d);
            let enc = [secp::encode_point(&q, false), secp::encode_point(&q, true)];
            KeyRow { hex: h, q, enc }
        })
        .collect()
}

fn messages(tier: Tier) -> Vec<Vec<u8>> {
    let lens: &[usize] = if tier.is_thorough() { &[1, 2, 3, 31, 32, 33, 55, 56, 63, 64, 65, 100, 127, 128, 200] } else { &[1, 2, 32, 33, 64, 100] };
    let mut v = vec![vec![]];
    for &l in lens {
        for p in [0u64, 1, 2, 4] {
            v.push(pattern(p, l));
        }
    }
    v
}

fn digest(hash: u64, m: &[u8]) -> [u8; 32] {
    if hash == 0 {
        hashes::sha256(m)
    } else {
        hashes::sha256d(m)
    }
}

fn lib_hash(hash: u64) -> SigningHash {
    if hash == 0 {
        SigningHash::Sha256
    } else {
        SigningHash::Sha256d
    }
}

fn signer_name(s: u64) -> String {
    match s {
        0 => "sign_with_deterministic_k(reverse_k=false)".into(),
        1 => "sign_with_deterministic_k(reverse_k=true)".into(),
        n => format!("sign_with_k(k={})", nonce_hex(n as usize - 2)),
    }
}

fn libsig_case(case: &Case, acc: &mut Acc, row: &KeyRow, comp: bool, msg: &[u8], hash: u64, signer: u64, all_stored_headers: bool) {
    acc.evaluations += 1;
    let input = || json!({"key": row.hex, "compressed": comp, "message": hx(msg), "message_len": msg.len(), "hash": if hash == 0 {"sha256"} else {"sha256d"}, "signer": signer_name(signer)});
    let sh = lib_hash(hash);
    let signed = call(acc, || {
        let pk = PrivateKey::from_hex(row.hex)?.compress_public_key(comp);
        match signer {
            0 => ECDSA::sign_with_deterministic_k(&pk, msg, sh, false),
            1 => ECDSA::sign_with_deterministic_k(&pk, msg, sh, true),
            n => {
                let k = PrivateKey::from_hex(&nonce_hex(n as usize - 2))?;
                ECDSA::sign_with_k(&pk, &k, msg, sh)
            }
        }
    });
    let sig = match signed {
        L::Ok(s) => s,
        L::Err(_) | L::Panic(_) => {
            // signing itself is the subject of C05; nothing to encode here
            acc.bump("signing_failed_case_skipped", 1);
            acc.outcome(b"nosig");
            return;
        }
    };
    acc.nontrivial_structural += 1;
    let mut v = V { acc, case, input: &input };
    let (r32, s32): ([u8; 32], [u8; 32]) = match (sig.r().try_into(), sig.s().try_into()) {
        (Ok(a), Ok(b)) => (a, b),
        _ => {
            v.bad("r-s-accessors/kind=wrong-length", "r() or s() is not 32 bytes".into());
            return;
        }
    };
    let (r, s) = (secp::from_be(&r32), secp::from_be(&s32));
    v.acc.bump("libsig_signatures", 1);
    if is_flag(s32[31]) {
        v.acc.bump("libsig_signatures_whose_der_ends_in_a_flag_value", 1);
    }
    der_legs(&mut v, &sig, &r, &s);

    // ---- compact form and recovery
    let z32 = digest(hash, msg);
    let z = secp::from_be(&z32);
    let cb = match call_plain(v.acc, || sig.to_compact_bytes(None)) {
        L::Ok(b) => b,
        L::Err(_) => unreachable!(),
        L::Panic(p) => {
            v.bad(&format!("to_compact_bytes/kind=panic@{}", panic_site(&p)), p);
            return;
        }
    };
    v.acc.traces += 1;
    if cb.len() != 65 || cb[1..33] != r32 || cb[33..65] != s32 {
        v.bad("to_compact_bytes/kind=wrong-result", format!("compact bytes {} do not carry r={} s={}", hx(&cb), hx(&r32), hx(&s32)));
        return;
    }
    let h = cb[0];
    if !(27..=34).contains(&h) {
        v.bad("to_compact_bytes/kind=header-out-of-range", format!("header byte {}", h));
        return;
    }
    let recid = (h - 27) & 3;
    let marker = h >= 31;
    v.acc.outcome(&[b'h', h]);
    if marker != comp {
        v.bad("to_compact_bytes/kind=compression-marker-wrong", format!("header {} says compressed={}, signing key compressed={}", h, marker, comp));
    }
    // the recorded recovery id must be the one that recovers the signer (reference)
    let ref_rec = secp::recover(&z, &r, &s, recid);
    v.acc.traces += 1;
    if ref_rec.as_ref() != Some(&row.q) {
        v.bad(
            "to_compact_bytes/kind=recovery-id-does-not-recover-signer",
            format!("header {} (recid {}): reference recovery gives {:?}, signer is {}", h, recid, ref_rec.map(|p| hex::encode(secp::encode_point(&p, true))), hex::encode(&row.enc[1])),
        );
    }
    let parsed = call(v.acc, || Signature::from_compact_bytes(&cb));
    let parsed = v.expect_sig("from_compact_bytes", &format!("from_compact_bytes({})", hx(&cb)), parsed, &r32, &s32);
    if let Some(p) = &parsed {
        let again = call_plain(v.acc, || p.to_compact_bytes(None));
        v.expect_bytes("compact-roundtrip/recovery-data", &format!("to_compact_bytes(None) of from_compact_bytes({})", hx(&cb)), again, &cb);
    }
    let want_key = &row.enc[marker as usize];
    let mut objs: Vec<(&str, &Signature)> = vec![("signed object", &sig)];
    if let Some(p) = &parsed {
        objs.push(("compact-parsed object", p));
    }
    for (label, sg) in &objs {
        let a = call(v.acc, || sg.recover_public_key(msg, sh).and_then(|k| k.to_bytes()));
        v.expect_bytes("recover_public_key", &format!("{}: signer's key in the recorded form", label), a, want_key);
        let a = call(v.acc, || sg.recover_public_key_from_digest(&z32).and_then(|k| k.to_bytes()));
        v.expect_bytes("recover_public_key_from_digest", &format!("{}: signer's key in the recorded form", label), a, want_key);
        let a = call(v.acc, || sg.get_public_key_from_digest(&z32).and_then(|k| k.to_bytes()));
        v.expect_bytes("get_public_key_from_digest", &format!("{}: signer's key in the recorded form", label), a, want_key);
    }
    // ---- the malleated twin (r, n - s) with the opposite y parity is a signature of the same signer over the same message:
    // recovery from its compact form must also return the signer's key (the reference recovery confirms it first)
    {
        let s_twin = secp::n() - &s;
        let twin_recid = recid ^ 1;
        if secp::recover(&z, &r, &s_twin, twin_recid).as_ref() == Some(&row.q) {
            let mut tb = vec![header_of(twin_recid, marker)];
            tb.extend_from_slice(&r32);
            tb.extend_from_slice(&secp::be32(&s_twin));
            v.acc.bump("high_s_twins_recovered", 1);
            if let L::Ok(tw) = call(v.acc, || Signature::from_compact_bytes(&tb)) {
                let a = call(v.acc, || tw.recover_public_key(msg, sh).and_then(|k| k.to_bytes()));
                v.expect_bytes("recover_public_key", &format!("high-S twin {}: signer's key in the recorded form", hx(&tb)), a, want_key);
                let a = call(v.acc, || tw.recover_public_key_from_digest(&z32).and_then(|k| k.to_bytes()));
                v.expect_bytes("recover_public_key_from_digest", &format!("high-S twin {}: signer's key in the recorded form", hx(&tb)), a, want_key);
            } else {
                v.acc.bump("high_s_twin_not_parsed_from_compact_bytes", 1);
            }
        }
    }
    // ---- recovery call histories: the answer for the signer's compact signature must not depend on what was recovered
    // just before. For every other header byte g in 27..=34 (same r, s, same message): parse the compact form under g,
    // recover (answer not judged: nothing fixes what a foreign header recovers), then parse the signer's own compact
    // bytes and recover - the second answer must be the signer's key in the recorded form. Likewise with the first
    // recovery made for an altered message under the signer's own header.
    for g in 27u8..=34 {
        if g == h {
            continue;
        }
        let mut other = cb.clone();
        other[0] = g;
        let a = call(v.acc, || {
            if let Ok(o) = Signature::from_compact_bytes(&other) {
                let _ = o.recover_public_key(msg, sh);
                let _ = o.recover_public_key_from_digest(&z32);
            }
            let own = Signature::from_compact_bytes(&cb)?;
            let k1 = own.recover_public_key(msg, sh)?.to_bytes()?;
            let k2 = own.recover_public_key_from_digest(&z32)?.to_bytes()?;
            Ok(if k1 == k2 { k1 } else { [k1, k2].concat() })
        });
        v.expect_bytes("recover_public_key/after-recovery-under-other-header", &format!("recovery under header {} first, then under the signer's header {}: signer's key in the recorded form", g, h), a, want_key);
    }
    {
        let mut altered = msg.to_vec();
        altered.push(0x21);
        let a = call(v.acc, || {
            let own = Signature::from_compact_bytes(&cb)?;
            let _ = own.recover_public_key(&altered, sh);
            own.recover_public_key(msg, sh)?.to_bytes()
        });
        v.expect_bytes("recover_public_key/after-recovery-for-other-message", "same object: altered message first, then the signed message: signer's key in the recorded form", a, want_key);
    }
    // ---- the whole compact matrix on every kind of object the library hands out for this signature; where the
    // re-issued compact bytes keep the signer's recovery id, recovery must return the signer's key in the form
    // the NEW marker records (signing-key compression x recorded marker)
    let der_obj = match call(v.acc, || Signature::from_der(&sig.to_der_bytes())) {
        L::Ok(d) => Some(d),
        _ => {
            v.acc.bump("der_parsed_object_unavailable_for_compact_matrix", 1);
            None
        }
    };
    let mut origins: Vec<(String, Signature, Option<u8>)> = vec![("signed object".into(), sig.clone(), Some(h))];
    if let Some(p) = &parsed {
        origins.push(("compact-parsed object".into(), p.clone(), Some(h)));
    }
    if let Some(d) = der_obj {
        origins.push(("DER-parsed object".into(), d, None));
    }
    if all_stored_headers {
        for h2 in (27u8..=34).filter(|x| *x != h) {
            let mut cb2 = cb.clone();
            cb2[0] = h2;
            let p = call(v.acc, || Signature::from_compact_bytes(&cb2));
            if let Some(o) = v.expect_sig("from_compact_bytes", &format!("from_compact_bytes({})", hx(&cb2)), p, &r32, &s32) {
                origins.push((format!("object parsed from the signature's compact bytes with header {}", h2), o, Some(h2)));
            }
        }
    }
    for (origin, obj, stored) in &origins {
        let mut after = |v: &mut V, sup: Supplied, h2: u8, back: &Signature| {
            if (h2 - 27) & 3 != recid || matches!(sup, Supplied::FromByte(..)) {
                return;
            }
            let a = call(v.acc, || back.recover_public_key_from_digest(&z32).and_then(|k| k.to_bytes()));
            v.expect_bytes(
                "recover_public_key_from_digest",
                &format!("{}.to_compact_bytes({}) parsed back (header {}): signer's key in the form that header records", origin, sup.describe(), h2),
                a,
                &row.enc[(h2 >= 31) as usize],
            );
        };
        compact_matrix(&mut v, origin, obj, *stored, &r32, &s32, &mut after);
    }
    // ---- a different message: error or a different key; the reference computes what it should be
    let sg = objs.last().unwrap().1;
    let mut longer = msg.to_vec();
    longer.push(0);
    let mut flipped = msg.to_vec();
    if flipped.is_empty() {
        flipped.push(1);
    } else {
        flipped[0] ^= 1;
    }
    let variants: [(&str, Vec<u8>, u64); 3] = [("message||00", longer, hash), ("first byte ^ 01", flipped, hash), ("same message, other hash", msg.to_vec(), 1 - hash)];
    for (i, (what, m2, h2)) in variants.iter().enumerate() {
        let z2_32 = digest(*h2, m2);
        let z2 = secp::from_be(&z2_32);
        let expect = secp::recover(&z2, &r, &s, recid);
        let signer_again = expect.as_ref() == Some(&row.q);
        let mut results = vec![("recover_public_key", call(v.acc, || sg.recover_public_key(m2, lib_hash(*h2)).and_then(|k| k.to_bytes())))];
        if i == 0 {
            results.push(("recover_public_key_from_digest", call(v.acc, || sg.recover_public_key_from_digest(&z2_32).and_then(|k| k.to_bytes()))));
        }
        for (entry, res) in results {
            v.acc.traces += 1;
            match res {
                L::Ok(k) => {
                    v.acc.outcome(b"other-key");
                    if &k == want_key && !signer_again {
                        v.bad(&format!("{}/other-message/kind=missing-error", entry), format!("{}: library returned the signer's key {} for a message that was not signed", what, hx(&k)));
                    }
                    match &expect {
                        Some(p) if secp::encode_point(p, marker) == k => v.acc.bump("other_message_recovery_agrees_with_reference", 1),
                        _ => v.acc.bump("other_message_recovery_differs_from_reference", 1),
                    }
                }
                L::Err(_) => {
                    v.acc.outcome(b"other-err");
                    v.acc.bump(if expect.is_none() { "other_message_recovery_agrees_with_reference" } else { "other_message_recovery_error_where_reference_recovers" }, 1);
                }
                L::Panic(p) => v.bad(&format!("{}/other-message/kind=panic@{}", entry, panic_site(&p)), format!("{}: {}", what, p)),
            }
        }
    }
}

// ------------------------------------------------------------------ space 2: synthetic (r, s)

fn filler(top: u8, last: u8) -> BigUint {
    let mut b = [0u8; 32];
    for (i, x) in b.iter_mut().enumerate() {
        *x = 0x35u8.wrapping_add((i as u8).wrapping_mul(0x3b)) | 0x04;
    }
    b[0] = top;
    b[31] = last;
    secp::from_be(&b)
}

fn base_scalars() -> Vec<(String, BigUint)> {
    let n = secp::n();
    let one = BigUint::one();
    let lz = |zeros: usize, top: u8| {
        let mut b = secp::be32(&filler(0x55, 0x99));
        for x in b.iter_mut().take(zeros) {
            *x = 0;
        }
        b[zeros] = top;
        secp::from_be(&b)
    };
    vec![
        ("1".into(), one.clone()),
        ("0x7f".into(), BigUint::from(0x7fu32)),
        ("0x80".into(), BigUint::from(0x80u32)),
        ("0xff".into(), BigUint::from(0xffu32)),
        ("2^127".into(), &one << 127u32),
        ("2^255".into(), &one << 255u32),
        ("1 leading zero byte, next byte 0x80".into(), lz(1, 0x80)),
        ("2 leading zero bytes, next byte 0x7f".into(), lz(2, 0x7f)),
        ("3 leading zero bytes, next byte 0xc3".into(), lz(3, 0xc3)),
        ("(n-1)/2".into(), (&n - &one) >> 1u32),
        ("(n+1)/2".into(), (&n + &one) >> 1u32),
        ("n-1".into(), &n - &one),
    ]
}

fn r_alphabet(tier: Tier) -> Vec<(String, BigUint)> {
    let mut v = base_scalars();
    v.push(("top bit set, ordinary".into(), filler(0xd1, 0x99)));
    v.push(("top bit clear, ordinary".into(), filler(0x2e, 0x99)));
    if tier.is_thorough() {
        for f in FLAGS {
            v.push((format!("top bit set, last byte {:02x}", f), filler(0xd1, f)));
        }
    }
    v
}

fn s_alphabet(_tier: Tier) -> Vec<(String, BigUint)> {
    let mut v = base_scalars();
    for f in FLAGS {
        v.push((format!("top bit set, last byte {:02x}", f), filler(0xd1, f)));
    }
    for f in FLAGS {
        v.push((format!("top bit clear, last byte {:02x}", f), filler(0x2e, f)));
    }
    v
}

// ------------------------------------------------------------------ space 4: malformed DER

enum Cls {
    Accept(BigUint, BigUint),
    /// structurally sound but not strict (BIP66): the statement does not decide
    Open(&'static str),
    /// a category the statement requires to be rejected
    Reject(&'static str),
}

/// Classify a byte string as a *pure* DER signature (no sighash byte).
fn classify_pure(b: &[u8]) -> Cls {
    if b.len() < 2 {
        return Cls::Reject("truncated");
    }
    if b[1] >= 0x80 {
        return Cls::Open("long-form-length");
    }
    let l = b[1] as usize;
    if 2 + l > b.len() {
        return Cls::Reject("declared-length-exceeds-input");
    }
    if 2 + l < b.len() {
        return Cls::Reject("trailing-bytes");
    }
    let body = &b[2..];
    if body.len() < 2 {
        return Cls::Reject("inner-length");
    }
    if body[1] >= 0x80 {
        return Cls::Open("long-form-length");
    }
    let rl = body[1] as usize;
    if 2 + rl > body.len() {
        return Cls::Reject("inner-length");
    }
    let rb = &body[2..2 + rl];
    let rest = &body[2 + rl..];
    if rest.len() < 2 {
        return Cls::Reject("inner-length");
    }
    if rest[1] >= 0x80 {
        return Cls::Open("long-form-length");
    }
    let sl = rest[1] as usize;
    if 2 + sl > rest.len() {
        return Cls::Reject("inner-length");
    }
    if 2 + sl < rest.len() {
        return Cls::Reject("trailing-bytes-inside-sequence");
    }
    let sb = &rest[2..];
    if rl == 0 || sl == 0 {
        return Cls::Reject("zero-length-integer");
    }
    if b[0] != 0x30 || body[0] != 0x02 || rest[0] != 0x02 {
        return Cls::Open("wrong-tag");
    }
    if rb[0] & 0x80 != 0 || sb[0] & 0x80 != 0 {
        return Cls::Open("negative");
    }
    let (r, s) = (secp::from_be(rb), secp::from_be(sb));
    let n = secp::n();
    if r.is_zero() || s.is_zero() {
        return Cls::Reject("scalar-zero");
    }
    if r >= n || s >= n {
        return Cls::Reject("scalar-ge-n");
    }
    for x in [rb, sb] {
        if x.len() > 1 && x[0] == 0 && x[1] & 0x80 == 0 {
            return Cls::Open("superfluous-pad");
        }
    }
    match secp::der_decode(b) {
        Some((r2, s2)) if r2 == r && s2 == s => Cls::Accept(r, s),
        _ => Cls::Open("classifier-and-refs-secp-disagree"),
    }
}

/// What `Signature::from_der` owes for input `b`: the input is either pure DER
/// or DER followed by exactly one sighash flag byte. The bool says that the
/// accepted reading is the one with the final flag byte removed.
fn classify_from_der(b: &[u8]) -> (Cls, bool) {
    let whole = classify_pure(b);
    if let Cls::Accept(..) = whole {
        return (whole, false);
    }
    let stripped = match b.last() {
        Some(l) if is_flag(*l) => Some(classify_pure(&b[..b.len() - 1])),
        _ => None,
    };
    match (whole, stripped) {
        (_, Some(Cls::Accept(r, s))) => (Cls::Accept(r, s), true),
        (Cls::Open(w), _) => (Cls::Open(w), false),
        (_, Some(Cls::Open(w))) => (Cls::Open(w), true),
        (Cls::Reject(w), _) => (Cls::Reject(w), false),
        (Cls::Accept(..), _) => unreachable!(),
    }
}

fn tail_of(der: &[u8]) -> &'static str {
    match der.last() {
        Some(l) if is_flag(*l) => "-ending-in-flag-value",
        _ => "",
    }
}

struct Mutant {
    kind: &'static str,
    note: String,
    bytes: Vec<u8>,
}

fn der_with(rb: &[u8], sb: &[u8], tags: [u8; 3]) -> Vec<u8> {
    let mut out = vec![tags[0], (4 + rb.len() + sb.len()) as u8, tags[1], rb.len() as u8];
    out.extend_from_slice(rb);
    out.push(tags[2]);
    out.push(sb.len() as u8);
    out.extend_from_slice(sb);
    out
}

fn der_int(v: &BigUint) -> Vec<u8> {
    let mut b = v.to_bytes_be();
    if b[0] & 0x80 != 0 {
        b.insert(0, 0);
    }
    b
}

fn malformed_seeds(tier: Tier) -> Vec<(String, BigUint, BigUint)> {
    let one = BigUint::one();
    let mut v = vec![
        ("r=1 s=1 (8 bytes, ends in 01)".to_string(), one.clone(), one.clone()),
        ("r=0x7f s=0x80".to_string(), BigUint::from(0x7fu32), BigUint::from(0x80u32)),
        ("r=2^127 s=0xff".to_string(), &one << 127u32, BigUint::from(0xffu32)),
        ("70 bytes".to_string(), filler(0x2e, 0x99), filler(0x2e, 0x77)),
        ("70 bytes, ends in 41".to_string(), filler(0x2e, 0x99), filler(0x2e, 0x41)),
        ("71 bytes (r padded)".to_string(), filler(0xd1, 0x99), filler(0x2e, 0x77)),
        ("71 bytes (s padded), ends in c3".to_string(), filler(0x2e, 0x99), filler(0xd1, 0xc3)),
        ("72 bytes".to_string(), filler(0xd1, 0x99), filler(0xd1, 0x77)),
        ("72 bytes, ends in 83".to_string(), filler(0xd1, 0x99), filler(0xd1, 0x83)),
        ("short r (3 leading zero bytes), 72-29".to_string(), base_scalars()[8].1.clone(), filler(0xd1, 0x05)),
    ];
    if tier.is_thorough() {
        v.push(("r=n-1 s=(n-1)/2".to_string(), secp::n() - &one, (secp::n() - &one) >> 1u32));
        v.push(("r=2^255 s=2^255".to_string(), &one << 255u32, &one << 255u32));
        v.push(("69 bytes (s has a leading zero byte)".to_string(), filler(0x2e, 0x99), base_scalars()[6].1.clone()));
        v.push(("r=0xff s=1".to_string(), BigUint::from(0xffu32), one.clone()));
    }
    v
}

fn trailing_alphabet(tier: Tier) -> Vec<u8> {
    let mut t = FLAGS.to_vec();
    t.extend_from_slice(&[0x00, 0x04, 0x30, 0x44, 0x7f, 0xff]);
    if tier.is_thorough() {
        t.extend_from_slice(&[0x05, 0x10, 0x20, 0x3f, 0x84, 0xc0, 0xc4, 0xfe]);
    }
    t
}

fn mutants(tier: Tier) -> Vec<Mutant> {
    let mut out = vec![];
    let n = secp::n();
    let one = BigUint::one();
    let tr = trailing_alphabet(tier);
    for (name, r, s) in malformed_seeds(tier) {
        let d = secp::der_encode(&r, &s);
        let rl = d[3] as usize;
        let lens = [1usize, 3, 5 + rl];
        // each length octet +-1
        for (which, &p) in lens.iter().enumerate() {
            for delta in [1i16, -1] {
                let mut m = d.clone();
                m[p] = (m[p] as i16 + delta) as u8;
                out.push(Mutant { kind: "length-octet", note: format!("{}: length octet {} {:+}", name, ["sequence", "r", "s"][which], delta), bytes: m });
            }
        }
        if tier.is_thorough() {
            // two length octets at once, optionally followed by one byte that makes the outer length fit
            for a in 0..3 {
                for b in a + 1..3 {
                    for da in [1i16, -1] {
                        for db in [1i16, -1] {
                            for extra in [None, Some(0x00u8), Some(0x41)] {
                                let mut m = d.clone();
                                m[lens[a]] = (m[lens[a]] as i16 + da) as u8;
                                m[lens[b]] = (m[lens[b]] as i16 + db) as u8;
                                if let Some(e) = extra {
                                    m.push(e);
                                }
                                out.push(Mutant { kind: "two-length-octets", note: format!("{}: length octets {}{:+} {}{:+} extra {:?}", name, a, da, b, db, extra), bytes: m });
                            }
                        }
                    }
                }
            }
        }
        // truncation at every byte
        for k in 0..d.len() {
            out.push(Mutant { kind: "truncation", note: format!("{}: first {} of {} bytes", name, k, d.len()), bytes: d[..k].to_vec() });
        }
        // one trailing byte, all 256 values
        for t in 0..=255u8 {
            let mut m = d.clone();
            m.push(t);
            out.push(Mutant { kind: if is_flag(t) { "one-trailing-flag-byte" } else { "one-trailing-nonflag-byte" }, note: format!("{}: || {:02x}", name, t), bytes: m });
        }
        // two trailing bytes
        for &a in &tr {
            for &b in &tr {
                let mut m = d.clone();
                m.push(a);
                m.push(b);
                out.push(Mutant { kind: "two-trailing-bytes", note: format!("{}: || {:02x} {:02x}", name, a, b), bytes: m });
            }
        }
        // scalars out of range (structurally perfect DER)
        let bads: [(&'static str, &'static str, BigUint); 4] = [
            ("scalar-zero", "0", BigUint::zero()),
            ("scalar-ge-n", "n", n.clone()),
            ("scalar-ge-n", "n+1", &n + &one),
            ("scalar-ge-n", "2^256-1", (&one << 256u32) - &one),
        ];
        for (kind, bn, bad) in &bads {
            for which in 0..2 {
                let m = if which == 0 { secp::der_encode(bad, &s) } else { secp::der_encode(&r, bad) };
                for flag in [None, Some(0x41u8), Some(0x01)] {
                    let mut mm = m.clone();
                    if let Some(f) = flag {
                        mm.push(f);
                    }
                    out.push(Mutant { kind: *kind, note: format!("{}: {} := {} flag {:?}", name, ["r", "s"][which], bn, flag), bytes: mm });
                }
            }
        }
        // padding and tags (BIP66 strictness the statement does not name: recorded only)
        let (rb, sb) = (der_int(&r), der_int(&s));
        if rb[0] == 0 && rb.len() > 1 {
            out.push(Mutant { kind: "missing-pad", note: format!("{}: r without 00 pad", name), bytes: der_with(&rb[1..], &sb, [0x30, 2, 2]) });
        }
        if sb[0] == 0 && sb.len() > 1 {
            out.push(Mutant { kind: "missing-pad", note: format!("{}: s without 00 pad", name), bytes: der_with(&rb, &sb[1..], [0x30, 2, 2]) });
        }
        let pad = |x: &[u8]| {
            let mut y = vec![0u8];
            y.extend_from_slice(x);
            y
        };
        out.push(Mutant { kind: "superfluous-pad", note: format!("{}: r with extra 00", name), bytes: der_with(&pad(&rb), &sb, [0x30, 2, 2]) });
        out.push(Mutant { kind: "superfluous-pad", note: format!("{}: s with extra 00", name), bytes: der_with(&rb, &pad(&sb), [0x30, 2, 2]) });
        for (pos, alts) in [(0usize, [0x31u8, 0x10, 0x00]), (1, [0x03, 0x82, 0x00]), (2, [0x03, 0x82, 0x00])] {
            for a in alts {
                let mut tags = [0x30u8, 2, 2];
                tags[pos] = a;
                out.push(Mutant { kind: "wrong-tag", note: format!("{}: tag {} := {:02x}", name, pos, a), bytes: der_with(&rb, &sb, tags) });
            }
        }
    }
    out
}

fn malformed_case(case: &Case, acc: &mut Acc, m: &Mutant) {
    acc.evaluations += 1;
    let input = || json!({"mutation": m.kind, "note": m.note, "bytes": hex::encode(&m.bytes)});
    let mut v = V { acc, case, input: &input };
    // ---- Signature::from_der
    let (cls, stripped) = classify_from_der(&m.bytes);
    let res = call(v.acc, || Signature::from_der(&m.bytes));
    let resh = call(v.acc, || Signature::from_hex_der(&hex::encode(&m.bytes)));
    v.acc.outcome(&[b'm', res.tag(), match &cls { Cls::Accept(..) => 0, Cls::Open(_) => 1, Cls::Reject(_) => 2 }]);
    if (res.tag() == 1) != (resh.tag() == 1) {
        v.bad("from_hex_der/kind=differs-from-from_der", format!("from_der ok={} from_hex_der ok={}", res.tag() == 1, resh.tag() == 1));
    }
    match cls {
        Cls::Accept(r, s) => {
            v.acc.nontrivial_structural += 1;
            // same keys as the round-trip legs: the input is a valid encoding
            let key = if stripped { format!("from_der/der+flag{}", tail_of(&m.bytes[..m.bytes.len() - 1])) } else { format!("from_der/pure-der{}", tail_of(&m.bytes)) };
            v.expect_sig(&key, &format!("from_der({})", hx(&m.bytes)), res, &secp::be32(&r), &secp::be32(&s));
        }
        Cls::Open(why) => {
            v.acc.traces += 1;
            v.acc.bump(&format!("from_der_unspecified_{}_{}", why, if res.tag() == 1 { "accepted" } else { "rejected" }), 1);
        }
        Cls::Reject(why) => {
            v.acc.traces += 1;
            v.acc.nontrivial_structural += 1;
            match res {
                L::Ok(sig) => v.bad(
                    &format!("from_der/malformed={}/kind=missing-error", why),
                    format!("{} ({}): accepted as r={} s={}", hx(&m.bytes), why, hx(&sig.r()), hx(&sig.s())),
                ),
                L::Err(_) => {}
                L::Panic(_) => v.acc.bump("panics_left_to_C09", 1),
            }
        }
    }
    // ---- SighashSignature::from_bytes(bytes || 41): the DER part must be pure DER
    let mut b = m.bytes.clone();
    b.push(0x41);
    let cls = classify_pure(&m.bytes);
    let back = call(v.acc, || SighashSignature::from_bytes(&b, &[]).and_then(|x| x.to_bytes()));
    v.acc.outcome(&[b'n', back.tag()]);
    match cls {
        Cls::Accept(..) => {
            // valid DER || flag (only arises when a mutation happens to be valid); round trip must be exact
            v.expect_bytes(&format!("SighashSignature::from_bytes/der+flag{}", tail_of(&m.bytes)), &format!("from_bytes({}).to_bytes()", hx(&b)), back, &b);
        }
        Cls::Open(why) => {
            v.acc.traces += 1;
            v.acc.bump(&format!("SighashSignature_from_bytes_unspecified_{}_{}", why, if back.tag() == 1 { "accepted" } else { "rejected" }), 1);
        }
        Cls::Reject(why) => {
            v.acc.traces += 1;
            match back {
                L::Ok(again) => v.bad(
                    &format!("SighashSignature::from_bytes/malformed={}/kind=missing-error", why),
                    format!("from_bytes({}) accepted although the part before the flag byte is not DER ({}); re-serialises as {}", hx(&b), why, hx(&again)),
                ),
                L::Err(_) => {}
                L::Panic(_) => v.acc.bump("panics_left_to_C09", 1),
            }
        }
    }
}

// ------------------------------------------------------------------ space 3: compact header bytes 0..=255

fn header_pairs() -> Vec<(String, BigUint, BigUint, bool)> {
    let n = secp::n();
    let one = BigUint::one();
    let ok = filler(0x2e, 0x99);
    let mut v = vec![
        ("r=1 s=1".to_string(), one.clone(), one.clone(), true),
        ("ordinary low".to_string(), filler(0x2e, 0x99), filler(0x2e, 0x77), true),
        ("ordinary high".to_string(), filler(0xd1, 0x99), filler(0xd1, 0x41), true),
        ("r=n-1 s=(n-1)/2".to_string(), &n - &one, (&n - &one) >> 1u32, true),
        ("r=2^255 s=0x80".to_string(), &one << 255u32, BigUint::from(0x80u32), true),
        ("r=(n+1)/2 s=n-1".to_string(), (&n + &one) >> 1u32, &n - &one, true),
    ];
    for (bn, bad) in [("0", BigUint::zero()), ("n", n.clone()), ("n+1", &n + &one), ("2^256-1", (&one << 256u32) - &one)] {
        v.push((format!("r={} (out of range)", bn), bad.clone(), ok.clone(), false));
        v.push((format!("s={} (out of range)", bn), ok.clone(), bad, false));
    }
    v
}

fn header_case(case: &Case, acc: &mut Acc, h: u8, name: &str, r: &BigUint, s: &BigUint, in_range: bool) {
    acc.evaluations += 1;
    let (r32, s32) = (secp::be32(r), secp::be32(s));
    let mut cb = vec![h];
    cb.extend_from_slice(&r32);
    cb.extend_from_slice(&s32);
    let input = || json!({"header": h, "pair": name, "compact": hex::encode(&cb)});
    let mut v = V { acc, case, input: &input };
    let res = call(v.acc, || Signature::from_compact_bytes(&cb));
    v.acc.outcome(&[b'c', res.tag(), (27..=34).contains(&h) as u8, in_range as u8]);
    if (27..=34).contains(&h) && in_range {
        v.acc.nontrivial_structural += 1;
        if let Some(sig) = v.expect_sig("from_compact_bytes", &format!("from_compact_bytes({})", hx(&cb)), res, &r32, &s32) {
            let again = call_plain(v.acc, || sig.to_compact_bytes(None));
            v.expect_bytes("compact-roundtrip/recovery-data", &format!("to_compact_bytes(None) of from_compact_bytes({})", hx(&cb)), again, &cb);
        }
        return;
    }
    // header outside 27..=34 or scalar out of range: the statement does not require rejection; record,
    // and make sure an accepted input is at least not decoded to other scalars
    v.acc.traces += 1;
    match res {
        L::Ok(sig) => {
            if !(27..=34).contains(&h) {
                v.acc.bump("compact_header_outside_27_34_accepted", 1);
            }
            if !in_range {
                v.acc.bump("compact_out_of_range_scalar_accepted", 1);
            }
            if sig.r() != r32 || sig.s() != s32 {
                v.bad("from_compact_bytes/invalid-header/kind=wrong-result", format!("accepted {} as r={} s={}", hx(&cb), hx(&sig.r()), hx(&sig.s())));
            }
        }
        L::Err(_) => v.acc.bump("compact_invalid_input_rejected", 1),
        L::Panic(_) => v.acc.bump("panics_left_to_C09", 1),
    }
}

// ------------------------------------------------------------------ spaces

/// (number of keys, number of signing entry points / nonces)
fn dims_libsig(tier: Tier) -> (u64, u64) {
    if tier.is_thorough() {
        (12, 6)
    } else {
        (6, 3)
    }
}

pub fn spaces(tier: Tier) -> Vec<Space> {
    let mut v = vec![];
    // 1. library-made signatures: keys x compression x messages x hash x signer
    let (nk, nsign) = dims_libsig(tier);
    let rows = Arc::new(key_rows(nk as usize));
    let msgs = Arc::new(messages(tier));
    let nm = msgs.len() as u64;
    let all_stored = tier.is_thorough();
    v.push(Space::new("libsig", nk * 2 * nm * 2 * nsign, move |case, acc| {
        let c = coords(case.idx, &[nk, 2, nm, 2, nsign]);
        let row = &rows[c[0] as usize];
        let msg = &msgs[c[2] as usize];
        if case.idx % 997 == 0 {
            acc.sample(case.idx / 997, || json!({"space": "libsig", "idx": case.idx, "key": row.hex, "compressed": c[1] == 1, "message": hx(msg), "hash": if c[3] == 0 {"sha256"} else {"sha256d"}, "signer": signer_name(c[4])}));
        }
        libsig_case(case, acc, row, c[1] == 1, msg, c[3], c[4], all_stored);
    }));
    // 2. synthetic (r, s) injected through from_compact_bytes
    let ra = Arc::new(r_alphabet(tier));
    let sa = Arc::new(s_alphabet(tier));
    let (nr, ns) = (ra.len() as u64, sa.len() as u64);
    v.push(Space::new("synthetic", nr * ns, move |case, acc| {
        let c = coords(case.idx, &[nr, ns]);
        let (rn, r) = &ra[c[0] as usize];
        let (sn, s) = &sa[c[1] as usize];
        acc.evaluations += 1;
        let input = || json!({"r": hex::encode(secp::be32(r)), "s": hex::encode(secp::be32(s)), "r_is": rn, "s_is": sn, "der": hex::encode(secp::der_encode(r, s))});
        if case.idx % 211 == 17 {
            acc.sample(case.idx / 211, || json!({"space": "synthetic", "idx": case.idx, "r_is": rn, "s_is": sn, "der": hex::encode(secp::der_encode(r, s))}));
        }
        let mut cb = vec![31u8];
        cb.extend_from_slice(&secp::be32(r));
        cb.extend_from_slice(&secp::be32(s));
        let mut vv = V { acc, case, input: &input };
        let inj = call(vv.acc, || Signature::from_compact_bytes(&cb));
        let Some(sig) = vv.expect_sig("from_compact_bytes", &format!("from_compact_bytes({})", hx(&cb)), inj, &secp::be32(r), &secp::be32(s)) else {
            return;
        };
        vv.acc.nontrivial_structural += 1;
        der_legs(&mut vv, &sig, r, s);
        compact_legs(&mut vv, r, s);
    }));
    // 3. header bytes 0..=255 x (r, s) pairs
    let pairs = Arc::new(header_pairs());
    let np = pairs.len() as u64;
    v.push(Space::new("compact-headers", 256 * np, move |case, acc| {
        let c = coords(case.idx, &[np, 256]);
        let (name, r, s, ok) = &pairs[c[0] as usize];
        header_case(case, acc, c[1] as u8, name, r, s, *ok);
    }));
    // 4. malformed DER derived from valid encodings
    let ms = Arc::new(mutants(tier));
    let nmut = ms.len() as u64;
    v.push(Space::new("malformed-der", nmut, move |case, acc| {
        let m = &ms[case.idx as usize];
        if case.idx % 3001 == 5 {
            acc.sample(case.idx / 3001, || json!({"space": "malformed-der", "idx": case.idx, "mutation": m.kind, "note": m.note, "bytes": hex::encode(&m.bytes)}));
        }
        malformed_case(case, acc, m);
    }));
    v
}

fn run(ctx: &Ctx) -> Report {
    let mut r = Report::new(
        "full products: (libsig) keys x {compressed, uncompressed} x messages x {sha256, sha256d} x signing entry points (deterministic k, deterministic k reversed, explicit nonces): DER, DER||each of 14 flag bytes, SighashSignature to_bytes/from_bytes, compact form, recovery of the signer from message and from digest (on the signed and on the compact-parsed object), the compact matrix (below) on the signed, the compact-parsed and the DER-parsed object (thorough: also on objects parsed from the signature's compact bytes under each of the 7 other headers) with recovery from every re-issued compact form that keeps the signer's recovery id (signing-key compression x recorded marker), recovery for three altered messages compared with the reference recovery; (synthetic) r-alphabet x s-alphabet injected through from_compact_bytes: the same DER legs plus the compact matrix on objects parsed from compact bytes under each of the 8 headers and on objects parsed from DER and DER||41; compact matrix of one object = to_compact_bytes/to_compact_hex with None, the 8 RecoveryInfo::new(y_odd, x_reduced, compressed) and the 8 RecoveryInfo::from_byte(recid, compressed), i.e. (recovery data the object carries: 8 headers or none) x (recovery data supplied: none or 8 headers, two constructors), each output parsed back with from_compact_bytes and re-serialised; (compact-headers) header byte 0..=255 x in-range and out-of-range (r, s); (malformed-der) every listed single deviation of every seed encoding through Signature::from_der, from_hex_der and SighashSignature::from_bytes. Non-trivial = a signature object was obtained and compared field by field, or a must-reject input was presented; distinct by construction.",
    );
    let tier = ctx.tier;
    let (nk, nsign) = dims_libsig(tier);
    r.bounds = json!({
        "keys": KEYS[..nk as usize],
        "messages": messages(tier).len(),
        "signers": (0..nsign).map(signer_name).collect::<Vec<_>>(),
        "flag_bytes": FLAGS.iter().map(|f| format!("0x{:02x}", f)).collect::<Vec<_>>(),
        "r_alphabet": r_alphabet(tier).iter().map(|x| x.0.clone()).collect::<Vec<_>>(),
        "s_alphabet": s_alphabet(tier).iter().map(|x| x.0.clone()).collect::<Vec<_>>(),
        "malformed_seeds": malformed_seeds(tier).iter().map(|x| x.0.clone()).collect::<Vec<_>>(),
        "trailing_byte_alphabet_for_pairs": trailing_alphabet(tier).iter().map(|f| format!("0x{:02x}", f)).collect::<Vec<_>>(),
        "header_pairs": header_pairs().iter().map(|x| x.0.clone()).collect::<Vec<_>>(),
        "deviation_bound": if tier.is_thorough() { 2 } else { 1 },
        "compact_matrix_supplied": Supplied::all().iter().map(|x| x.describe()).collect::<Vec<_>>(),
        "compact_matrix_objects_synthetic": ["compact-parsed under header 27..=34 (8)", "DER-parsed", "DER||41-parsed"],
        "compact_matrix_objects_libsig": if tier.is_thorough() { vec!["signed", "compact-parsed (own header)", "DER-parsed", "compact-parsed under each of the 7 other headers"] } else { vec!["signed", "compact-parsed (own header)", "DER-parsed"] },
    });
    r.assumptions.push("Signature::from_der accepts two forms, pure DER and DER followed by exactly one of the 14 sighash flag bytes; an input is required to be rejected only if, under both readings, it has wrong lengths, trailing bytes, or a zero or >= n scalar. Negative integers (missing 00 pad), superfluous 00 pads, wrong tags and long-form lengths are recorded in counters, not judged".into());
    r.assumptions.push("SighashSignature has no accessors: its parse is observed through re-serialisation (from_bytes(x).to_bytes() == x)".into());
    r.assumptions.push("compact header bytes outside 27..=34 and compact scalars outside [1, n-1] are not required to be rejected by the statement: acceptance is counted (compact_header_outside_27_34_accepted), panics on header bytes < 27 are counted as panics_left_to_C09; inputs shorter than 65 bytes are never presented (C09)".into());
    r.assumptions.push("to_compact_bytes(Some(info)) must serialise the info that was passed (header = 27 + (x_reduced << 1 | y_odd) + 4 * compressed) whether or not the object carries recovery data of its own, and to_compact_bytes(None) the data the object carries; for to_compact_bytes(None) on an object without recovery data (DER-parsed) the statement fixes no header: the output only has to carry r, s and parse back, the header is counted (no_recovery_data_anywhere_header_N). RecoveryInfo::from_byte is only given recovery ids 0..=3. Recovery from re-issued compact bytes is judged only when they keep the signer's recovery id".into());
    r.assumptions.push("for an altered message the statement allows an error or any key other than the signer's; agreement of the returned key with the reference recovery is counted, not judged".into());
    r.assumptions.push("failures of the signing call itself are C05's subject: such cases are skipped and counted".into());
    run_spaces(ctx, &mut r, spaces(tier));
    r
}

fn replay(case: &Value) -> Vec<(String, String)> {
    replay_spaces(spaces, case)
}
