//! C14 — interpreter semantics of the non-signature opcodes, against the
//! reference BSV script machine (refs::interp). Model and implementation are
//! compared after every executed step.
use super::icommon::{compare, lib_run, opname, pushes_for, show_stack, tokname};
use super::{replay_spaces_for, run_spaces_for, Case, Prop, Space};
use crate::engine::{Acc, Ctx, Report, Tier};
use crate::refs::interp::{self as ri, End, Stack};
use crate::refs::script::{self as rs, Tok};
use serde_json::{json, Value};
use std::collections::BTreeSet;
use std::sync::Arc;

pub const PROP: Prop = Prop {
    run,
    replay,
    spaces: Some(spaces),
    level_note: "trusted base: refs::interp (post-Genesis BSV semantics as written out in DESIGN.md §6 C14, with its own self-tests), refs::hashes, refs::script; opcodes/operands whose Genesis-era prescription is ambiguous (2MUL/2DIV, CLTV/CSV, VER*, RESERVED*, repeated ELSE, index operands longer than 4 bytes) are excluded from conformance and remain in C16; success/failure of the final stack top is not compared (the library leaves it to its caller)",
};

fn h(s: &str) -> Vec<u8> {
    hex::decode(s).unwrap()
}

/// Value alphabet V (ordered simplest-first); V8 and V3 are prefixes.
pub fn values() -> Vec<Vec<u8>> {
    vec![
        vec![],
        h("01"),
        h("81"),
        h("00"),
        h("80"),
        h("02"),
        h("7f"),
        h("ff"),
        h("8000"),
        h("8080"),
        h("ff00"),
        h("0001"),
        h("0081"),
        h("0100"),
        h("0000"),
        h("ffff7f"),
        h("ffffff7f"),
        h("ffffffff"),
        h("0000008000"),
        h("0100000000"),
        (1..=20u8).collect(),
        (0..33u8).map(|i| i.wrapping_mul(7).wrapping_add(2)).collect(),
    ]
}

/// Index-type operands (count/position/size), in addition to V.
/// +-(2^k - 1), +-2^k, +-(2^k + 1) for k at every byte boundary up to 72 bits and at 31, 32, 63, 64, 127, 128; plus 0, +-1, +-2, +-3, 10.
pub fn extreme_numbers(thorough: bool) -> Vec<num_bigint::BigInt> {
    use num_bigint::BigInt;
    let one = BigInt::from(1);
    let mut v: Vec<BigInt> = vec![];
    for x in [0i64, 1, -1, 2, -2, 3, -3, 10] {
        v.push(BigInt::from(x));
    }
    let mut ks: Vec<u32> = vec![7, 8, 15, 16, 23, 24, 31, 32, 39, 40, 55, 56, 63, 64, 127, 128];
    if thorough {
        ks.extend([47, 48, 62, 65, 71, 72, 255, 256]);
    }
    ks.sort();
    for k in ks {
        for d in [-1i32, 0, 1] {
            let x = (one.clone() << k) + d;
            for y in [x.clone(), -x] {
                if !v.contains(&y) {
                    v.push(y);
                }
            }
        }
    }
    v
}

pub fn index_values() -> Vec<Vec<u8>> {
    // small counts, then 2/3/4-byte operands with a single high bit in each byte position (decoders that mask the wrong byte),
    // non-minimal small counts, the largest 4-byte value, a negative count (second mutation sweep: and the last four)
    vec![
        h("03"), h("04"), h("05"), h("08"), h("09"), h("10"), h("14"), h("15"), h("21"), h("22"), h("ffffff7f"), h("83"),
        h("8000"), h("0180"), h("010080"), h("01008000"), h("00008000"), h("08008000"), h("01800000"), h("01000080"), h("02000000"), h("0900"),
        // 4-byte operands whose top byte carries magnitude bits (2^24, 2^24 + 1, 2^30): a decoder that masks the top byte
        // wrongly turns them into 0 / 1, which a shift count shows; and a 5-byte zero (index operands of more than four bytes are
        // an ambiguous prescription in the reference - pre- and post-Genesis rules differ - so this one only exercises totality)
        h("00000001"), h("01000001"), h("00000040"), h("0000000000"),
    ]
}

#[derive(Clone, Copy)]
struct OpSpec {
    op: u8,
    arity: usize,
    /// top operand is an index/count: gets the extra index alphabet
    index_top: bool,
}

/// The implemented non-signature opcodes with the number of operands they inspect.
fn opspecs() -> Vec<OpSpec> {
    let mut v = vec![];
    let mut add = |op: u8, arity: usize, index_top: bool| v.push(OpSpec { op, arity, index_top });
    add(0x00, 0, false);
    add(0x4f, 0, false);
    for o in 0x51..=0x60 {
        add(o, 0, false);
    }
    for o in [0x61u8, 0xb0, 0xb3, 0xb4, 0xb5, 0xb6, 0xb7, 0xb8, 0xb9, 0xab, 0x74, 0x6a] {
        add(o, 0, false);
    }
    for o in [0x69u8, 0x6b, 0x73, 0x75, 0x76, 0x81, 0x82, 0x83, 0x8b, 0x8c, 0x8f, 0x90, 0x91, 0x92, 0xa6, 0xa7, 0xa8, 0xa9, 0xaa] {
        add(o, 1, false);
    }
    add(0x6c, 0, false); // FROMALTSTACK on an empty alt stack (non-empty alt in the alt space)
    for o in [0x6du8, 0x6e, 0x77, 0x78, 0x7c, 0x7d, 0x7e, 0x84, 0x85, 0x86, 0x87, 0x88, 0x93, 0x94, 0x95, 0x96, 0x97, 0x9a, 0x9b, 0x9c, 0x9d, 0x9e, 0x9f, 0xa0, 0xa1, 0xa2, 0xa3, 0xa4] {
        add(o, 2, false);
    }
    for o in [0x7fu8, 0x80, 0x98, 0x99] {
        add(o, 2, true);
    }
    for o in [0x79u8, 0x7a] {
        add(o, 3, true); // index + two items it can select
    }
    for o in [0x6fu8, 0x7b, 0xa5] {
        add(o, 3, false);
    }
    for o in [0x70u8, 0x72] {
        add(o, 4, false);
    }
    add(0x71, 6, false);
    v
}

fn alphabet_size_for(arity: usize) -> usize {
    match arity {
        0..=2 => 22,
        3 => 12,
        4 => 8,
        _ => 3,
    }
}

/// All stacks of depth 0..=arity+1 over the alphabet for this arity; for index ops the top item also ranges over the index alphabet.
fn count_stacks(spec: &OpSpec, thorough: bool) -> u64 {
    let a = if thorough && spec.arity == 3 { 22 } else { alphabet_size_for(spec.arity) } as u64;
    let extra = if spec.index_top { index_values().len() as u64 } else { 0 };
    let mut n = 0u64;
    for d in 0..=(spec.arity + 1) {
        if d == 0 {
            n += 1;
        } else {
            n += a.pow((d - 1) as u32) * (a + extra);
        }
    }
    n
}

fn nth_stack(spec: &OpSpec, mut idx: u64, vals: &[Vec<u8>], ivals: &[Vec<u8>], thorough: bool) -> Stack {
    let a = if thorough && spec.arity == 3 { 22 } else { alphabet_size_for(spec.arity) } as u64;
    let extra = if spec.index_top { ivals.len() as u64 } else { 0 };
    for d in 0..=(spec.arity + 1) {
        let cnt = if d == 0 { 1 } else { a.pow((d - 1) as u32) * (a + extra) };
        if idx < cnt {
            if d == 0 {
                return vec![];
            }
            let top_i = idx % (a + extra);
            let mut rest = idx / (a + extra);
            let mut st = vec![];
            for _ in 0..d - 1 {
                st.push(vals[(rest % a) as usize].clone());
                rest /= a;
            }
            st.reverse();
            st.push(if top_i < a { vals[top_i as usize].clone() } else { ivals[(top_i - a) as usize].clone() });
            return st;
        }
        idx -= cnt;
    }
    unreachable!()
}

/// NUM2BIN size / shift count above 2^24: an implementation may allocate that much.
fn huge_operand(op: u8, st: &Stack) -> bool {
    if !matches!(op, 0x80 | 0x98 | 0x99) {
        return false;
    }
    // either of the two operands (an implementation may read them in either order). The classification must not depend on
    // how the REFERENCE decodes the operand: a library that mis-decodes `01000080` (minus one) as 2^31 - 1 allocates 2 GiB
    // per worker thread and the explorer is OOM-killed instead of reporting it (second mutation sweep). Every operand of
    // three or more bytes - anything some decoder could read as more than 65535 - is evaluated in child processes.
    st.iter().rev().take(2).any(|t| t.len() >= 3)
}

/// Operand alphabet of the isolated space: V and the index alphabet.
pub fn operand_alphabet() -> Vec<Vec<u8>> {
    let mut w = values();
    for x in index_values() {
        if !w.contains(&x) {
            w.push(x);
        }
    }
    w
}

/// Run one program on both sides and report the first divergence.
fn check_program(tokens: &[Tok], acc: &mut Acc, case: &Case, desc: &dyn Fn() -> Value) -> Option<super::icommon::Divergence> {
    let bytes = rs::serialize(tokens);
    acc.evaluations += 1;
    let reference = ri::run(tokens);
    let lib = lib_run(&bytes);
    acc.transitions += lib.states.len() as u64 + 1;
    acc.traces += 1;
    if !matches!(reference.end, End::Ambiguous { .. }) {
        acc.nontrivial_structural += 1;
    } else {
        acc.bump("programs_ending_in_ambiguous_prescription", 1);
    }
    acc.states_structural += reference.states.len() as u64;
    let out: &[u8] = match &reference.end {
        End::Completed => b"ok",
        End::Failed { .. } => b"fail",
        End::Unbalanced => b"unbalanced",
        End::Ambiguous { .. } => b"ambiguous",
    };
    acc.outcome(out);
    let d = compare(tokens, &reference, &lib)?;
    let _ = desc;
    Some(d)
}

fn report(acc: &mut Acc, case: &Case, tokens: &[Tok], d: &super::icommon::Divergence, desc: &dyn Fn() -> Value) {
    let blamed = tokens.get(d.tok).map(tokname).unwrap_or_else(|| "?".into());
    let mut input = desc();
    if let Some(o) = input.as_object_mut() {
        o.insert("script_hex".into(), json!(hex::encode(rs::serialize(tokens))));
    }
    acc.violate(format!("C14/op={}/kind={}", blamed, d.kind), case.idx, case.json(input), d.detail.clone());
}

pub fn spaces(tier: Tier) -> Vec<Space> {
    let thorough = tier.is_thorough();
    let vals = Arc::new(values());
    let ivals = Arc::new(index_values());
    let specs = Arc::new(opspecs());
    let mut v = vec![];

    // (a) every opcode applied to every stack of depth <= arity+1 over the value alphabet
    {
        let mut offsets = vec![0u64];
        for s in specs.iter() {
            offsets.push(offsets.last().unwrap() + count_stacks(s, thorough));
        }
        let total = *offsets.last().unwrap();
        let (vals, ivals, specs) = (vals.clone(), ivals.clone(), specs.clone());
        v.push(Space::new("op-on-stacks", total, move |case, acc| {
            let k = offsets.iter().rposition(|o| *o <= case.idx).unwrap();
            let spec = &specs[k];
            let st = nth_stack(spec, case.idx - offsets[k], &vals, &ivals, thorough);
            if huge_operand(spec.op, &st) {
                // the library may allocate according to this operand: evaluated in the isolated space
                acc.bump("left_to_isolated_space", 1);
                return;
            }
            let mut toks = pushes_for(&st, &vec![]);
            toks.push(Tok::Op(spec.op));
            let desc = || json!({"op": opname(spec.op), "initial_stack": show_stack(&st)});
            if (case.idx - offsets[k]) == 5 {
                acc.sample(case.idx, || json!({"space": "op-on-stacks", "op": opname(spec.op), "initial_stack": show_stack(&st)}));
            }
            if let Some(d) = check_program(&toks, acc, case, &desc) {
                report(acc, case, &toks, &d, &desc);
            }
        }));
    }
    // (a') size/count operands large enough to make an implementation allocate: child processes with an allocation budget
    {
        // every ordered pair over W = V + index alphabet in which at least one operand has three or more bytes (exactly the
        // stacks the in-process spaces leave out), under NUM2BIN, LSHIFT and RSHIFT
        let w = Arc::new(operand_alphabet());
        let nw = w.len() as u64;
        v.push(Space::isolated("huge-operands", 3 * nw * nw, move |case, acc| {
            let c = crate::engine::coords(case.idx, &[3, nw, nw]);
            let op = [0x80u8, 0x98, 0x99][c[0] as usize];
            let st: Stack = vec![w[c[1] as usize].clone(), w[c[2] as usize].clone()];
            if !huge_operand(op, &st) {
                acc.bump("evaluated_in_process_by_op_on_stacks", 1);
                return;
            }
            if op == 0x80 && st.last().map(|t| t.len() <= 8 && ri::num(t) > num_bigint::BigInt::from(1 << 20)).unwrap_or(false) {
                // NUM2BIN to a size above 1 MiB legitimately produces an item of that size (2 GiB for 2^31-1): a memory and time question, not conformance/totality; sizes up to 1 MiB are decided in index-operand-widths
                acc.bump("num2bin_to_more_than_1MiB_not_evaluated", 1);
                return;
            }
            let mut toks = pushes_for(&st, &vec![]);
            toks.push(Tok::Op(op));
            let desc = || json!({"op": opname(op), "initial_stack": show_stack(&st)});
            crate::iso::arm(256 << 20);
            let d = check_program(&toks, acc, case, &desc);
            crate::iso::disarm();
            if let Some(d) = d {
                report(acc, case, &toks, &d, &desc);
            }
        }));
    }
    // (a'') large items: results whose size crosses every script-number encoding threshold (OP_SIZE, CAT, SPLIT, NUM2BIN on big blobs)
    {
        let sizes: Vec<usize> = vec![127, 128, 255, 256, 32767, 32768, 65535, 65536, 524287, 524288, 600000, 8388607, 8388608, 0x812345];
        let ns = sizes.len() as u64;
        v.push(Space::new("large-items", ns * 4, move |case, acc| {
            let c = crate::engine::coords(case.idx, &[ns, 4]);
            let n = sizes[c[0] as usize];
            let blob: Vec<u8> = (0..n).map(|i| (i % 251) as u8 | 1).collect();
            let toks: Vec<Tok> = match c[1] {
                0 => vec![rs::minimal_push(&blob), Tok::Op(0x82)],
                1 => vec![rs::minimal_push(&blob), Tok::Op(0x82), Tok::Op(0x82)],
                2 => vec![rs::minimal_push(&blob), Tok::Op(0x76), Tok::Op(0x7e), Tok::Op(0x82), Tok::Op(0x77)],
                _ => vec![rs::minimal_push(&blob), Tok::Op(0x51), Tok::Op(0x7f), Tok::Op(0x82), Tok::Op(0x77), Tok::Op(0x77)],
            };
            let pname = ["SIZE", "SIZE SIZE", "DUP CAT SIZE NIP", "1 SPLIT SIZE NIP NIP"][c[1] as usize];
            let desc = || json!({"item_size": n, "program": pname});
            if let Some(d) = check_program(&toks, acc, case, &desc) {
                report(acc, case, &toks, &d, &desc);
            }
        }));
    }
    // (a4x) OP_2MUL / OP_2DIV: whether these two are executable is ambiguous (disabled before and after Genesis, re-enabled
    // by later upgrades), so the reference does not prescribe one behaviour. It does prescribe that there are only two:
    // the script fails at the opcode, or the top item x becomes 2x / x/2 (truncated toward zero), minimally encoded.
    {
        let mut xs: Vec<num_bigint::BigInt> = (-300i64..=300).map(num_bigint::BigInt::from).collect();
        xs.extend(extreme_numbers(thorough));
        let nx = xs.len() as u64;
        v.push(Space::new("2mul-2div-either-prescription", 2 * nx, move |case, acc| {
            let c = crate::engine::coords(case.idx, &[2, nx]);
            let op = if c[0] == 0 { 0x8du8 } else { 0x8e };
            let x = &xs[c[1] as usize];
            let bytes = rs::serialize(&[super::icommon::push_tok(&ri::enc(x)), Tok::Op(op)]);
            acc.evaluations += 1;
            acc.transitions += 2;
            acc.traces += 1;
            acc.nontrivial_structural += 1;
            let two = num_bigint::BigInt::from(2);
            let want = if op == 0x8d { x * &two } else { x / &two }; // BigInt division truncates toward zero
            let lib = super::icommon::lib_run(&bytes);
            let input = json!({"op": opname(op), "x": x.to_string(), "script_hex": hex::encode(&bytes)});
            match &lib.end {
                super::icommon::LibEnd::Panic(p) => acc.violate(format!("C14/op={}/kind=panic", opname(op)), case.idx, case.json(input), p.clone()),
                super::icommon::LibEnd::Err(_) => acc.outcome(b"2x-refused"),
                _ => {
                    let top = lib.final_stacks.0.last().cloned();
                    acc.outcome(&[b'2', (top == Some(ri::enc(&want))) as u8]);
                    if lib.final_stacks.0.len() != 1 || top != Some(ri::enc(&want)) {
                        acc.violate(format!("C14/op={}/kind=wrong-result", opname(op)), case.idx, case.json(input), format!("library leaves {}; the only admissible outcomes are an error or the single item {}", show_stack(&lib.final_stacks.0), hex::encode(ri::enc(&want))));
                    }
                }
            }
        }));
    }
    // (a4w) index operands of every encoding width, used where their value matters: OP_SPLIT of a 70 000-byte item (thorough:
    // also a 9 000 000-byte item) at positions on both sides of every byte boundary of the position's encoding and with a
    // single bit set in each byte, and OP_NUM2BIN of the number 1 to sizes with the same patterns up to 1 MiB. A 3-byte
    // operand is only distinguishable from a mis-decoded one when the item is at least 65 536 bytes long.
    {
        let mut pos: Vec<u64> = vec![0, 1, 2, 127, 128, 129, 255, 256, 257, 32767, 32768, 32769, 65535, 65536, 65537, 69999, 70000, 70001];
        for k in 0..24u32 {
            pos.push(1 << k);
            pos.push((1 << k) + 1);
            if k >= 16 {
                pos.push((1 << 16) + (1 << (k - 8)));
            }
        }
        pos.sort();
        pos.dedup();
        let pos_small: Vec<u64> = pos.iter().copied().filter(|p| *p <= 1 << 20).collect();
        let big_item: u64 = 9_000_000;
        let mut pos_big: Vec<u64> = vec![8388607, 8388608, 8388609, 8999999, 9000000, 9000001];
        for k in 16..24u32 {
            pos_big.push(1 << k);
            pos_big.push((1 << 23) + (1 << (k - 16)));
        }
        let (n1, n2, n3) = (pos_small.len() as u64, pos_small.len() as u64, if thorough { pos_big.len() as u64 } else { 0 });
        v.push(Space::new("index-operand-widths", n1 + n2 + n3, move |case, acc| {
            let (what, item_len, n) = if case.idx < n1 {
                ("SPLIT", 70_000u64, pos_small[case.idx as usize])
            } else if case.idx < n1 + n2 {
                ("NUM2BIN", 1, pos_small[(case.idx - n1) as usize])
            } else {
                ("SPLIT", big_item, pos_big[(case.idx - n1 - n2) as usize])
            };
            let operand = ri::enc(&num_bigint::BigInt::from(n));
            let toks: Vec<Tok> = if what == "SPLIT" {
                let blob: Vec<u8> = (0..item_len as usize).map(|i| (i % 253) as u8 | 1).collect();
                // x n SPLIT SIZE NIP SWAP SIZE NIP : leaves the two lengths (the stacks are compared after every step anyway)
                vec![rs::minimal_push(&blob), super::icommon::push_tok(&operand), Tok::Op(0x7f), Tok::Op(0x82), Tok::Op(0x77), Tok::Op(0x7c), Tok::Op(0x82), Tok::Op(0x77)]
            } else {
                vec![Tok::Op(0x51), super::icommon::push_tok(&operand), Tok::Op(0x80), Tok::Op(0x82), Tok::Op(0x77)]
            };
            let desc = || json!({"program": if what == "SPLIT" { "x n SPLIT SIZE NIP SWAP SIZE NIP" } else { "1 n NUM2BIN SIZE NIP" }, "item_len": item_len, "n": n, "n_encoded": hex::encode(&operand)});
            if let Some(d) = check_program(&toks, acc, case, &desc) {
                report(acc, case, &toks, &d, &desc);
            }
        }));
    }
    // (a3) content sweeps: every arity-1 opcode on EVERY item of length 1 and 2 (65792 items); every arity-2 opcode on every
    // ordered pair of 1-byte items (65536 pairs) - decides content-dependent behaviour (sign bytes, 0x80/0x00 tails,
    // negative zero, byte values that look like opcodes) instead of sampling it through the 22-value alphabet
    {
        let unary: Vec<u8> = specs.iter().filter(|s| s.arity == 1).map(|s| s.op).collect();
        let nu = unary.len() as u64;
        v.push(Space::new("unary-every-1-2-byte-item", nu * 65792, move |case, acc| {
            let c = crate::engine::coords(case.idx, &[nu, 65792]);
            let op = unary[c[0] as usize];
            let item: Vec<u8> = if c[1] < 256 { vec![c[1] as u8] } else { vec![((c[1] - 256) >> 8) as u8, ((c[1] - 256) & 0xff) as u8] };
            let st: Stack = vec![item];
            let mut toks = pushes_for(&st, &vec![]);
            toks.push(Tok::Op(op));
            let desc = || json!({"op": opname(op), "initial_stack": show_stack(&st)});
            if let Some(d) = check_program(&toks, acc, case, &desc) {
                report(acc, case, &toks, &d, &desc);
            }
        }));
        let binary: Vec<u8> = specs.iter().filter(|s| s.arity == 2).map(|s| s.op).collect();
        let nb = binary.len() as u64;
        v.push(Space::new("binary-every-1-byte-pair", nb * 65536, move |case, acc| {
            let c = crate::engine::coords(case.idx, &[nb, 256, 256]);
            let op = binary[c[0] as usize];
            let st: Stack = vec![vec![c[1] as u8], vec![c[2] as u8]];
            let mut toks = pushes_for(&st, &vec![]);
            toks.push(Tok::Op(op));
            let desc = || json!({"op": opname(op), "initial_stack": show_stack(&st)});
            if let Some(d) = check_program(&toks, acc, case, &desc) {
                report(acc, case, &toks, &d, &desc);
            }
        }));
    }
    // (a3') thorough: every arity-2 opcode on every (2-byte item, 1-byte item) pair in both orders
    if thorough {
        let binary: Vec<u8> = specs.iter().filter(|s| s.arity == 2).map(|s| s.op).collect();
        let nb = binary.len() as u64;
        v.push(Space::new("binary-every-2-byte-x-1-byte-pair", nb * 65536 * 256 * 2, move |case, acc| {
            let c = crate::engine::coords(case.idx, &[nb, 65536, 256, 2]);
            let op = binary[c[0] as usize];
            let (two, one) = (vec![(c[1] >> 8) as u8, (c[1] & 0xff) as u8], vec![c[2] as u8]);
            let st: Stack = if c[3] == 0 { vec![two, one] } else { vec![one, two] };
            let mut toks = pushes_for(&st, &vec![]);
            toks.push(Tok::Op(op));
            let desc = || json!({"op": opname(op), "initial_stack": show_stack(&st)});
            if let Some(d) = check_program(&toks, acc, case, &desc) {
                report(acc, case, &toks, &d, &desc);
            }
        }));
    }
    // (a4) numeric sweep: every arithmetic/comparison opcode of arity 2 on a x b and b x a for every a in -N..=N and b over
    // 24 values (small, byte-boundary, multiples of 1000, 2/3-byte limits); WITHIN on every triple over -4..=4;
    // unary arithmetic on every a in -N..=N and around every power of two up to 2^31
    {
        let nmax: i64 = if thorough { 70000 } else { 5000 };
        let bs: Vec<i64> = vec![-1000, -256, -255, -129, -128, -127, -2, -1, 0, 1, 2, 3, 7, 10, 127, 128, 129, 255, 256, 1000, 32767, 32768, 65536, 8388607];
        let ops: Vec<u8> = vec![0x93, 0x94, 0x95, 0x96, 0x97, 0x9a, 0x9b, 0x9c, 0x9d, 0x9e, 0x9f, 0xa0, 0xa1, 0xa2, 0xa3, 0xa4];
        let (na, nbv, no) = ((2 * nmax + 1) as u64, bs.len() as u64, ops.len() as u64);
        v.push(Space::new("numeric-sweep-binary", no * na * nbv * 2, move |case, acc| {
            let c = crate::engine::coords(case.idx, &[no, na, nbv, 2]);
            let op = ops[c[0] as usize];
            let a = ri::enc(&num_bigint::BigInt::from(c[1] as i64 - nmax));
            let b = ri::enc(&num_bigint::BigInt::from(bs[c[2] as usize]));
            let st: Stack = if c[3] == 0 { vec![a, b] } else { vec![b, a] };
            let mut toks = pushes_for(&st, &vec![]);
            toks.push(Tok::Op(op));
            let desc = || json!({"op": opname(op), "initial_stack": show_stack(&st)});
            if let Some(d) = check_program(&toks, acc, case, &desc) {
                report(acc, case, &toks, &d, &desc);
            }
        }));
        v.push(Space::new("within-triples", 9 * 9 * 9, move |case, acc| {
            let c = crate::engine::coords(case.idx, &[9, 9, 9]);
            let st: Stack = c.iter().map(|x| ri::enc(&num_bigint::BigInt::from(*x as i64 - 4))).collect();
            let mut toks = pushes_for(&st, &vec![]);
            toks.push(Tok::Op(0xa5));
            let desc = || json!({"op": "OP_WITHIN", "initial_stack": show_stack(&st)});
            if let Some(d) = check_program(&toks, acc, case, &desc) {
                report(acc, case, &toks, &d, &desc);
            }
        }));
        let uops: Vec<u8> = vec![0x8b, 0x8c, 0x8f, 0x90, 0x91, 0x92, 0x81, 0x82, 0x69, 0x73];
        let mut avals: Vec<i64> = (-nmax..=nmax).collect();
        for k in 11..=31u32 {
            for d in [-1i64, 0, 1] {
                let x = (1i64 << k) + d;
                if x <= 0x7fffffff {
                    avals.push(x);
                    avals.push(-x);
                }
            }
        }
        let (nu, nav) = (uops.len() as u64, avals.len() as u64);
        v.push(Space::new("numeric-sweep-unary", nu * nav, move |case, acc| {
            let c = crate::engine::coords(case.idx, &[nu, nav]);
            let op = uops[c[0] as usize];
            let st: Stack = vec![ri::enc(&num_bigint::BigInt::from(avals[c[1] as usize]))];
            let mut toks = pushes_for(&st, &vec![]);
            toks.push(Tok::Op(op));
            let desc = || json!({"op": opname(op), "initial_stack": show_stack(&st)});
            if let Some(d) = check_program(&toks, acc, case, &desc) {
                report(acc, case, &toks, &d, &desc);
            }
        }));
    }
    // (a4') extreme script numbers: +-(2^k - 1), +-2^k, +-(2^k + 1) around every byte boundary and around the native integer
    // widths (31, 32, 63, 64, 127 bits) — every ordered pair under every binary arithmetic/comparison opcode, each value
    // under every unary one, and every triple over a 12-value sub-alphabet under WITHIN. Post-Genesis script numbers have no
    // 4-byte limit; the reference computes on big integers.
    {
        let ext = std::sync::Arc::new(extreme_numbers(thorough));
        let ne = ext.len() as u64;
        let ops: Vec<u8> = vec![0x93, 0x94, 0x95, 0x96, 0x97, 0x9a, 0x9b, 0x9c, 0x9d, 0x9e, 0x9f, 0xa0, 0xa1, 0xa2, 0xa3, 0xa4];
        let no = ops.len() as u64;
        let e1 = ext.clone();
        v.push(Space::new("extreme-numbers-binary", no * ne * ne, move |case, acc| {
            let c = crate::engine::coords(case.idx, &[no, ne, ne]);
            let op = ops[c[0] as usize];
            let st: Stack = vec![ri::enc(&e1[c[1] as usize]), ri::enc(&e1[c[2] as usize])];
            let mut toks = pushes_for(&st, &vec![]);
            toks.push(Tok::Op(op));
            let desc = || json!({"op": opname(op), "initial_stack": show_stack(&st)});
            if let Some(d) = check_program(&toks, acc, case, &desc) {
                report(acc, case, &toks, &d, &desc);
            }
        }));
        let uops: Vec<u8> = vec![0x8b, 0x8c, 0x8f, 0x90, 0x91, 0x92, 0x81, 0x82, 0x69, 0x73, 0x63, 0x64];
        let nu = uops.len() as u64;
        let e2 = ext.clone();
        v.push(Space::new("extreme-numbers-unary", nu * ne, move |case, acc| {
            let c = crate::engine::coords(case.idx, &[nu, ne]);
            let op = uops[c[0] as usize];
            let st: Stack = vec![ri::enc(&e2[c[1] as usize])];
            let mut toks = pushes_for(&st, &vec![]);
            toks.push(Tok::Op(op));
            if op == 0x63 || op == 0x64 {
                toks.extend([Tok::Op(0x51), Tok::Op(0x67), Tok::Op(0x52), Tok::Op(0x68)]);
            }
            let desc = || json!({"op": opname(op), "initial_stack": show_stack(&st)});
            if let Some(d) = check_program(&toks, acc, case, &desc) {
                report(acc, case, &toks, &d, &desc);
            }
        }));
        let w: Vec<num_bigint::BigInt> = {
            let one = num_bigint::BigInt::from(1);
            let mut w = vec![];
            for k in [31u32, 63] {
                for d in [-1i32, 0, 1] {
                    let x = (one.clone() << k) + d;
                    w.push(x.clone());
                    w.push(-x);
                }
            }
            w
        };
        let nw = w.len() as u64;
        v.push(Space::new("extreme-numbers-within", nw * nw * nw, move |case, acc| {
            let c = crate::engine::coords(case.idx, &[nw, nw, nw]);
            let st: Stack = c.iter().map(|x| ri::enc(&w[*x as usize])).collect();
            let mut toks = pushes_for(&st, &vec![]);
            toks.push(Tok::Op(0xa5));
            let desc = || json!({"op": "OP_WITHIN", "initial_stack": show_stack(&st)});
            if let Some(d) = check_program(&toks, acc, case, &desc) {
                report(acc, case, &toks, &d, &desc);
            }
        }));
    }
    // (a5) stack-depth sweep: programs that build a main (and alt) stack of every depth 1..=N, then look at it
    {
        let nmax: u64 = if thorough { 2500 } else { 1100 };
        v.push(Space::new("stack-depth-sweep", nmax * 4, move |case, acc| {
            let c = crate::engine::coords(case.idx, &[nmax, 4]);
            let n = c[0] as usize + 1;
            let mut toks: Vec<Tok> = vec![];
            let pname = match c[1] {
                0 => {
                    toks.extend(std::iter::repeat(Tok::Op(0x51)).take(n));
                    toks.push(Tok::Op(0x74));
                    "n x OP_1, DEPTH"
                }
                1 => {
                    toks.push(Tok::Op(0x55));
                    toks.extend(std::iter::repeat(Tok::Op(0x51)).take(n - 1));
                    toks.extend(pushes_for(&vec![ri::enc(&num_bigint::BigInt::from(n as i64 - 1))], &vec![]));
                    toks.push(Tok::Op(0x79));
                    "OP_5, (n-1) x OP_1, <n-1> PICK"
                }
                2 => {
                    for _ in 0..n / 2 {
                        toks.push(Tok::Op(0x52));
                        toks.push(Tok::Op(0x6b));
                    }
                    toks.extend(std::iter::repeat(Tok::Op(0x51)).take(n - n / 2));
                    toks.push(Tok::Op(0x74));
                    toks.push(Tok::Op(0x6c));
                    "n/2 x (OP_2 TOALTSTACK), n/2 x OP_1, DEPTH, FROMALTSTACK"
                }
                _ => {
                    toks.push(Tok::Op(0x55));
                    toks.extend(std::iter::repeat(Tok::Op(0x51)).take(n - 1));
                    toks.extend(pushes_for(&vec![ri::enc(&num_bigint::BigInt::from(n as i64 - 1))], &vec![]));
                    toks.push(Tok::Op(0x7a));
                    "OP_5, (n-1) x OP_1, <n-1> ROLL"
                }
            };
            let desc = || json!({"stack_depth": n, "program": pname});
            if let Some(d) = check_program(&toks, acc, case, &desc) {
                report(acc, case, &toks, &d, &desc);
            }
        }));
    }
    // (a6) conditional grammar: every token string of up to N symbols over {IF, NOTIF, ELSE, ENDIF, OP_0, OP_1, OP_2, VERIFY, DUP}
    // (balanced or not, any nesting, stray and repeated structure opcodes) - the reference decides what is prescribed
    {
        let syms: Vec<u8> = vec![0x63, 0x64, 0x67, 0x68, 0x00, 0x51, 0x52, 0x69, 0x76];
        let ns = syms.len() as u64;
        let maxk: u32 = if thorough { 8 } else { 6 };
        let mut offsets = vec![0u64];
        for k in 0..=maxk {
            offsets.push(offsets[k as usize] + ns.pow(k));
        }
        let total = *offsets.last().unwrap();
        v.push(Space::new("cond-grammar", total, move |case, acc| {
            let k = offsets.iter().rposition(|o| *o <= case.idx).unwrap();
            let mut rem = case.idx - offsets[k];
            let mut toks = vec![Tok::Op(0x61); k];
            for i in (0..k).rev() {
                toks[i] = Tok::Op(syms[(rem % ns) as usize]);
                rem /= ns;
            }
            let desc = || json!({"program": toks.iter().map(tokname).collect::<Vec<_>>().join(" ")});
            if let Some(d) = check_program(&toks, acc, case, &desc) {
                report(acc, case, &toks, &d, &desc);
            }
        }));
    }
    // (a7) nesting sweep: d nested conditionals for every d in 1..=N, each level IF or NOTIF with or without ELSE, the
    // condition values chosen so that the flow turns away at level k (every k) or never
    {
        let dmax: u64 = if thorough { 64 } else { 24 };
        v.push(Space::new("nesting-sweep", dmax * (dmax + 1) * 4, move |case, acc| {
            let c = crate::engine::coords(case.idx, &[dmax, dmax + 1, 4]);
            let d = c[0] as usize + 1;
            let turn = c[1] as usize; // level at which the branch is not taken (d = never)
            if turn > d {
                return;
            }
            let (notif, with_else) = (c[2] & 1 == 1, c[2] & 2 == 2);
            let mut toks: Vec<Tok> = vec![];
            for lvl in 0..d {
                let taken = lvl != turn;
                // IF takes a true condition, NOTIF a false one
                toks.push(Tok::Op(if taken != notif { 0x51 } else { 0x00 }));
                toks.push(Tok::Op(if notif { 0x64 } else { 0x63 }));
                toks.push(Tok::Op(0x52 + (lvl % 8) as u8));
            }
            for lvl in (0..d).rev() {
                if with_else {
                    toks.push(Tok::Op(0x67));
                    toks.push(Tok::Op(0x5a + (lvl % 6) as u8));
                }
                toks.push(Tok::Op(0x68));
            }
            toks.push(Tok::Op(0x74));
            let desc = || json!({"nesting_depth": d, "not_taken_at_level": turn, "opener": if notif { "NOTIF" } else { "IF" }, "with_else": with_else});
            if let Some(dv) = check_program(&toks, acc, case, &desc) {
                report(acc, case, &toks, &dv, &desc);
            }
        }));
    }
    // (a8) every opcode inside a conditional: in the first or the ELSE branch of IF / NOTIF, taken or not taken, with exactly
    // the operands it needs below the condition; then run to the end. In a branch that is not taken nothing may happen.
    {
        let (vals, specs) = (vals.clone(), specs.clone());
        let ns = specs.len() as u64;
        v.push(Space::new("opcode-in-branch", ns * 2 * 2 * 2 * 3, move |case, acc| {
            let c = crate::engine::coords(case.idx, &[ns, 2, 2, 2, 3]);
            let spec = &specs[c[0] as usize];
            let (notif, in_else, cond_true) = (c[1] == 1, c[2] == 1, c[3] == 1);
            let main: Stack = (0..spec.arity).map(|i| vals[(1 + i * 2 + c[4] as usize * 5) % vals.len()].clone()).collect();
            if huge_operand(spec.op, &main) {
                return;
            }
            let mut toks = pushes_for(&main, &vec![]);
            toks.push(Tok::Op(if cond_true { 0x51 } else { 0x00 }));
            toks.push(Tok::Op(if notif { 0x64 } else { 0x63 }));
            if in_else {
                toks.push(Tok::Op(0x67));
            }
            toks.push(Tok::Op(spec.op));
            if !in_else {
                toks.push(Tok::Op(0x67));
            }
            toks.push(Tok::Op(0x68));
            toks.push(Tok::Op(0x74));
            let desc = || json!({"op": opname(spec.op), "opener": if notif { "NOTIF" } else { "IF" }, "branch": if in_else { "else" } else { "first" }, "condition": cond_true, "initial_stack": show_stack(&main)});
            if let Some(d) = check_program(&toks, acc, case, &desc) {
                report(acc, case, &toks, &d, &desc);
            }
        }));
    }
    // (a9) mixed driving: k single steps, then run() to completion (and run() once more) must end in the reference's final
    // stacks - for every conditional program of (d) and every k
    {
        let progs = Arc::new(conditional_programs(thorough));
        let np = progs.len() as u64;
        v.push(Space::new("step-then-run", np * 3 * 12, move |case, acc| {
            let c = crate::engine::coords(case.idx, &[np, 3, 12]);
            let (name, body) = &progs[c[0] as usize];
            let cond = [Tok::Op(0x51), Tok::Op(0x00), Tok::Push(vec![0x80])][c[1] as usize].clone();
            let mut toks = vec![cond];
            toks.extend(body.iter().cloned());
            let k = c[2] as usize;
            let reference = ri::run(&toks);
            if matches!(reference.end, End::Failed { .. }) {
                // a script that fails has failed whatever the driver does next: k steps, run(), run() again - neither run
                // may report completion
                acc.evaluations += 1;
                acc.transitions += k as u64 + 2;
                acc.traces += 1;
                acc.nontrivial_structural += 1;
                let bytes = rs::serialize(&toks);
                let res = crate::engine::guard(|| -> Result<(bool, bool), String> {
                    let s = bsv::Script::from_bytes(&bytes).map_err(|e| e.to_string())?;
                    let mut it = bsv::Interpreter::from_script(&s);
                    for _ in 0..k {
                        match it.next() {
                            Some(Ok(_)) => {}
                            _ => break,
                        }
                    }
                    Ok((it.run().is_ok(), it.run().is_ok()))
                });
                let input = json!({"program": name, "script_hex": hex::encode(&bytes), "single_steps_before_run": k, "reference": "fails"});
                match res {
                    Ok(Ok((r1, r2))) => {
                        acc.outcome(&[b'f', r1 as u8, r2 as u8]);
                        if r1 {
                            acc.violate("C14/run/kind=failing-script-reported-complete-after-single-steps", case.idx, case.json(input), format!("after {} steps run() returned Ok for a script the reference fails", k));
                        } else if r2 {
                            acc.violate("C14/run/kind=failing-script-reported-complete-by-second-run", case.idx, case.json(input), "run() returned an error, a second run() on the same interpreter returned Ok");
                        }
                    }
                    Ok(Err(_)) => {}
                    Err(p) => acc.violate(format!("C14/run/kind=panic@{}", crate::engine::panic_site(&p)), case.idx, case.json(input), p),
                }
                return;
            }
            if !matches!(reference.end, End::Completed) {
                return;
            }
            let Some(want) = reference.states.last().map(|(_, m, a)| (m.clone(), a.clone())) else { return };
            acc.evaluations += 1;
            acc.transitions += k as u64 + 2;
            acc.traces += 1;
            acc.nontrivial_structural += 1;
            let bytes = rs::serialize(&toks);
            let res = crate::engine::guard(|| -> Result<(bool, Stack, Stack, bool, Stack), String> {
                let s = bsv::Script::from_bytes(&bytes).map_err(|e| e.to_string())?;
                let mut it = bsv::Interpreter::from_script(&s);
                for _ in 0..k {
                    match it.next() {
                        Some(Ok(_)) => {}
                        _ => break,
                    }
                }
                let r1 = it.run().is_ok();
                let st = it.state();
                let (m1, a1) = (st.stack.clone(), st.alt_stack.clone());
                let r2 = it.run().is_ok();
                let m2 = it.state().stack.clone();
                Ok((r1, m1, a1, r2, m2))
            });
            let input = json!({"program": name, "script_hex": hex::encode(&bytes), "single_steps_before_run": k});
            match res {
                Ok(Ok((r1, m1, a1, r2, m2))) => {
                    acc.outcome(&[b'm', r1 as u8, (m1 == want.0) as u8]);
                    if !r1 || m1 != want.0 || a1 != want.1 {
                        acc.violate("C14/run/kind=differs-after-single-steps", case.idx, case.json(input.clone()), format!("after {} steps run() -> ok={} main={}; reference final main={}", k, r1, show_stack(&m1), show_stack(&want.0)));
                    }
                    if r2 && m2 != want.0 {
                        acc.violate("C14/run/kind=second-run-changes-the-stack", case.idx, case.json(input), format!("second run() left main={}; reference final main={}", show_stack(&m2), show_stack(&want.0)));
                    }
                }
                Ok(Err(_)) => {}
                Err(p) => acc.violate(format!("C14/run/kind=panic@{}", crate::engine::panic_site(&p)), case.idx, case.json(input), p),
            }
        }));
    }
    // (b) alt stack: every opcode with a non-empty alt stack (must stay untouched) and FROMALTSTACK/TOALTSTACK round trips
    {
        let (vals, specs) = (vals.clone(), specs.clone());
        let na = 8u64;
        let ns = specs.len() as u64;
        v.push(Space::new("alt-stack", ns * na * na * 3, move |case, acc| {
            let c = crate::engine::coords(case.idx, &[ns, na, na, 3]);
            let spec = &specs[c[0] as usize];
            let alt: Stack = match c[3] {
                0 => vec![vals[c[1] as usize].clone()],
                1 => vec![vals[c[1] as usize].clone(), vals[c[2] as usize].clone()],
                _ => vec![],
            };
            // main stack: exactly `arity` items so that the opcode can run
            let main: Stack = (0..spec.arity).map(|i| vals[((c[2] as usize) + i * 3 + c[1] as usize) % 8].clone()).collect();
            let mut toks = pushes_for(&main, &alt);
            toks.push(Tok::Op(spec.op));
            toks.push(Tok::Op(0x6c));
            let desc = || json!({"op": opname(spec.op), "initial_stack": show_stack(&main), "initial_alt": show_stack(&alt)});
            if let Some(d) = check_program(&toks, acc, case, &desc) {
                report(acc, case, &toks, &d, &desc);
            }
        }));
    }
    // (c) chaining: every pair of opcodes from every small initial stack; op2 is judged on the model's successor state
    {
        let (vals, specs) = (vals.clone(), specs.clone());
        // initial stacks: depth <= 2 over V8 (73) and depth 3..4 over V3
        let mut inits: Vec<Stack> = vec![vec![]];
        for a in 0..8 {
            inits.push(vec![vals[a].clone()]);
        }
        for a in 0..8 {
            for b in 0..8 {
                inits.push(vec![vals[a].clone(), vals[b].clone()]);
            }
        }
        let v3 = if thorough { 4 } else { 3 };
        for a in 0..v3 {
            for b in 0..v3 {
                for c in 0..v3 {
                    inits.push(vec![vals[a].clone(), vals[b].clone(), vals[c].clone()]);
                    for d in 0..v3 {
                        inits.push(vec![vals[a].clone(), vals[b].clone(), vals[c].clone(), vals[d].clone()]);
                    }
                }
            }
        }
        let inits = Arc::new(inits);
        let ni = inits.len() as u64;
        let ns = specs.len() as u64;
        v.push(Space::new("chain2", ni * ns * ns, move |case, acc| {
            let c = crate::engine::coords(case.idx, &[ni, ns, ns]);
            let s0 = &inits[c[0] as usize];
            let (op1, op2) = (specs[c[1] as usize].op, specs[c[2] as usize].op);
            let mut toks = pushes_for(s0, &vec![]);
            let n_push = toks.len();
            toks.push(Tok::Op(op1));
            toks.push(Tok::Op(op2));
            let desc = || json!({"initial_stack": show_stack(s0), "op1": opname(op1), "op2": opname(op2)});
            if let Some(d) = check_program(&toks, acc, case, &desc) {
                if d.tok >= n_push + 1 {
                    report(acc, case, &toks, &d, &desc);
                } else if d.tok == n_push {
                    // divergence inside op1 (reported by the op-on-stacks space): judge op2 on the model's successor state instead
                    acc.bump("chain2_parent_recreated_by_pushes", 1);
                    let mut m = ri::Machine::default();
                    m.stack = s0.clone();
                    if let Ok(ri::Step::Executed) = m.step(&Tok::Op(op1)) {
                        if m.returned || m.stack.iter().any(|x| x.len() > 40) || m.stack.len() > 6 {
                            return;
                        }
                        let mut t2 = pushes_for(&m.stack, &m.alt);
                        let np = t2.len();
                        t2.push(Tok::Op(op2));
                        let desc2 = || json!({"model_state_after_op1": show_stack(&m.stack), "op1": opname(op1), "op2": opname(op2), "recreated_by_pushes": true});
                        if let Some(d2) = check_program(&t2, acc, case, &desc2) {
                            if d2.tok >= np {
                                report(acc, case, &t2, &d2, &desc2);
                            }
                        }
                    }
                }
            }
        }));
    }
    // (c') thorough: depth-3 chaining from every stack of depth <= 2 over V3; only divergences at the third opcode are new information
    if thorough {
        let (vals, specs) = (vals.clone(), specs.clone());
        let mut inits: Vec<Stack> = vec![vec![]];
        for a in 0..3 {
            inits.push(vec![vals[a].clone()]);
            for b in 0..3 {
                inits.push(vec![vals[a].clone(), vals[b].clone()]);
            }
        }
        let inits = Arc::new(inits);
        let ni = inits.len() as u64;
        let ns = specs.len() as u64;
        v.push(Space::new("chain3", ni * ns * ns * ns, move |case, acc| {
            let c = crate::engine::coords(case.idx, &[ni, ns, ns, ns]);
            let s0 = &inits[c[0] as usize];
            let ops = [specs[c[1] as usize].op, specs[c[2] as usize].op, specs[c[3] as usize].op];
            let mut toks = pushes_for(s0, &vec![]);
            let n_push = toks.len();
            for o in ops {
                toks.push(Tok::Op(o));
            }
            let desc = || json!({"initial_stack": show_stack(s0), "ops": [opname(ops[0]), opname(ops[1]), opname(ops[2])]});
            if let Some(d) = check_program(&toks, acc, case, &desc) {
                if d.tok >= n_push + 2 {
                    report(acc, case, &toks, &d, &desc);
                } else {
                    acc.bump("chain3_divergence_before_third_opcode_left_to_other_spaces", 1);
                }
            }
        }));
    }
    // (d) conditionals
    {
        let vals = vals.clone();
        let progs = Arc::new(conditional_programs(thorough));
        let np = progs.len() as u64;
        let nv = vals.len() as u64;
        v.push(Space::new("conditionals", np * nv, move |case, acc| {
            let c = crate::engine::coords(case.idx, &[np, nv]);
            let (desc_s, body) = &progs[c[0] as usize];
            let cond = &vals[c[1] as usize];
            let mut toks = pushes_for(&vec![cond.clone()], &vec![]);
            toks.extend(body.iter().cloned());
            let desc = || json!({"condition": hex::encode(cond), "program": desc_s});
            if c[1] == 1 {
                acc.sample(case.idx + (1 << 40), || json!({"space": "conditionals", "program": desc_s, "condition": hex::encode(cond)}));
            }
            if let Some(d) = check_program(&toks, acc, case, &desc) {
                report(acc, case, &toks, &d, &desc);
            }
        }));
    }
    v
}

/// Conditional skeletons (the condition value is pushed in front by the caller).
fn conditional_programs(thorough: bool) -> Vec<(String, Vec<Tok>)> {
    let op = |b: u8| Tok::Op(b);
    // branch bodies
    let bodies: Vec<(&str, Vec<Tok>)> = vec![
        ("", vec![]),
        ("2", vec![op(0x52)]),
        ("3 4", vec![op(0x53), op(0x54)]),
        ("0 VERIFY", vec![op(0x00), op(0x69)]),
        ("1 IF 5 ENDIF", vec![op(0x51), op(0x63), op(0x55), op(0x68)]),
        ("0 IF 5 ELSE 6 ENDIF", vec![op(0x00), op(0x63), op(0x55), op(0x67), op(0x56), op(0x68)]),
        ("0 NOTIF 1 IF 7 ENDIF ENDIF", vec![op(0x00), op(0x64), op(0x51), op(0x63), op(0x57), op(0x68), op(0x68)]),
        ("RETURN 8", vec![op(0x6a), op(0x58)]),
        ("DEPTH", vec![op(0x74)]),
    ];
    let nb = if thorough { bodies.len() } else { bodies.len() };
    let mut v = vec![];
    for (kw, kb) in [("IF", 0x63u8), ("NOTIF", 0x64)] {
        for (pn, pass) in bodies.iter().take(nb) {
            // without ELSE
            for (before, after) in [(None, None), (Some(0x59u8), None), (None, Some(0x5a_u8)), (Some(0x59), Some(0x5a))] {
                let mut t = vec![];
                // `before` is pushed under the condition by the caller-visible order: emit it first, then swap
                if let Some(b) = before {
                    t.push(op(b));
                    t.push(op(0x7c));
                }
                t.push(op(kb));
                t.extend(pass.iter().cloned());
                t.push(op(0x68));
                if let Some(a) = after {
                    t.push(op(a));
                }
                v.push((format!("{}{} {} ENDIF{}", if before.is_some() { "9 SWAP " } else { "" }, kw, pn, if after.is_some() { " 10" } else { "" }), t));
            }
            for (fname, fail) in bodies.iter().take(nb) {
                let mut t = vec![op(kb)];
                t.extend(pass.iter().cloned());
                t.push(op(0x67));
                t.extend(fail.iter().cloned());
                t.push(op(0x68));
                t.push(op(0x5a));
                v.push((format!("{} {} ELSE {} ENDIF 10", kw, pn, fname), t));
            }
        }
    }
    // stray structural opcodes and missing condition
    v.push(("DROP ELSE".into(), vec![op(0x75), op(0x67)]));
    v.push(("DROP ENDIF".into(), vec![op(0x75), op(0x68)]));
    v.push(("DROP 1 ELSE 2".into(), vec![op(0x75), op(0x51), op(0x67), op(0x52)]));
    v.push(("DROP 1 ENDIF 2".into(), vec![op(0x75), op(0x51), op(0x68), op(0x52)]));
    v.push(("IF 1 ENDIF ENDIF".into(), vec![op(0x63), op(0x51), op(0x68), op(0x68)]));
    v.push(("DROP IF 1 ENDIF (no condition)".into(), vec![op(0x75), op(0x63), op(0x51), op(0x68)]));
    v.push(("DROP NOTIF 1 ENDIF (no condition)".into(), vec![op(0x75), op(0x64), op(0x51), op(0x68)]));
    v
}

fn run(ctx: &Ctx) -> Report {
    let mut r = Report::new(
        "(a) every implemented non-signature opcode applied to every stack of depth 0..arity+1 over the value alphabet V (22 values; V12/V8/V3 prefixes for arity 3/4/6; index-type operands additionally over 12 index values), initial stacks created in the real interpreter by push prefixes; (b) every opcode with 8x8x3 non-empty alt stacks followed by FROMALTSTACK; (c) depth-2 chaining: every ordered pair of opcodes from every initial stack (depth<=2 over V8, depth 3-4 over V3), op2 judged on the model's successor state (parent re-created by pushes when op1 itself diverges); (d) conditionals: {IF,NOTIF} x {no ELSE, ELSE} x branch bodies (empty, constants, failing VERIFY, nested conditionals to depth 3, RETURN) x every condition value in V, preceded/followed by one opcode, stray ELSE/ENDIF. Model and implementation are compared after every executed step (stacks, alt stacks, Ok/Err). Non-trivial = the reference prescribes an unambiguous outcome; distinct by construction.",
    );
    let specs = opspecs();
    let ops: BTreeSet<String> = specs.iter().map(|s| opname(s.op)).collect();
    r.bounds = json!({"value_alphabet": values().iter().map(hex::encode).collect::<Vec<_>>(), "index_alphabet": index_values().iter().map(hex::encode).collect::<Vec<_>>(), "opcodes": ops, "chain_depth": if ctx.tier.is_thorough() {3} else {2}, "conditional_nesting": 3});
    r.assumptions.push("excluded from conformance (ambiguous under Genesis rules): OP_2MUL, OP_2DIV, CLTV, CSV, OP_VER, OP_VERIF, OP_VERNOTIF, OP_RESERVED*, repeated OP_ELSE, index operands longer than 4 bytes, NUM2BIN sizes above 1 MiB".into());
    run_spaces_for("C14", ctx, &mut r, spaces(ctx.tier));
    r
}

fn replay(case: &Value) -> Vec<(String, String)> {
    replay_spaces_for("C14", spaces, case)
}
