//! C02 — script bytes survive parsing unchanged; pushes decoded/encoded exactly.
use super::libx::{flatten, learn_opcode_set, learn_openers};
use super::{hx, replay_spaces_for, run_spaces_for, Case, Prop, Space};
use crate::engine::{guard, panic_site, Acc, Ctx, Report, Tier};
use crate::refs::script::{self as rs, Malformed, Tok};
use bsv::Script;
use serde_json::{json, Value};
use std::sync::Arc;

pub const PROP: Prop = Prop {
    run,
    replay,
    spaces: Some(spaces),
    level_note: "trusted base: refs::script tokenizer (60 lines, explicit bounds checks); the set of accepted single opcode bytes and block openers is learned from the implementation because the property does not fix it; scripts longer than the stated bounds are covered only by the boundary cases listed in evidence.bounds",
};

pub struct Env {
    pub ops: [bool; 256],
    /// openers for the must-accept premise: library's own plus the standard four
    pub openers_strict: Vec<u8>,
    /// exactly the bytes the library itself treats as block openers at the top level of a script
    pub openers_learned: Vec<u8>,
}

pub fn env() -> Env {
    let ops = learn_opcode_set();
    let learned = learn_openers();
    let mut o = learned.clone();
    for b in [rs::OP_IF, rs::OP_NOTIF, rs::OP_VERIF, rs::OP_VERNOTIF] {
        if !o.contains(&b) {
            o.push(b);
        }
    }
    Env { ops, openers_strict: o, openers_learned: learned }
}

fn form_name(f: u8) -> &'static str {
    match f {
        0 => "direct",
        0x4c => "pushdata1",
        0x4d => "pushdata2",
        _ => "pushdata4",
    }
}

/// The core oracle for one candidate script byte string.
/// In-process evaluation must not be handed a string whose push declares a
/// huge payload that is not there: the library may allocate the declared
/// length. Those cases live in the isolated spaces.
pub const INPROC_DECLARED_MAX: u64 = 4 << 20;

pub fn eval_bytes(b: &[u8], env: &Env, acc: &mut Acc, case: &Case) {
    if crate::iso::in_child() {
        crate::iso::arm((64 << 20) + 64 * b.len() as u64);
    } else if rs::declared_overrun(b).map(|n| n > INPROC_DECLARED_MAX).unwrap_or(false) {
        acc.bump("left_to_isolated_space", 1);
        return;
    }
    eval_bytes_inner(b, env, acc, case);
    if crate::iso::in_child() {
        let peak = crate::iso::disarm();
        acc.bump("isolated_peak_bytes_max", 0);
        let e = acc.info.entry("isolated_peak_bytes_max".into()).or_insert(0);
        *e = (*e).max(peak);
    }
}

fn eval_bytes_inner(b: &[u8], env: &Env, acc: &mut Acc, case: &Case) {
    acc.evaluations += 1;
    acc.transitions += 1;
    let input = || json!({"script_hex": hx(b), "len": b.len()});
    let lib = guard(|| Script::from_bytes(b));
    let refr = rs::tokenize(b);
    match lib {
        Err(p) => {
            acc.outcome(b"panic");
            acc.violate(format!("C02/from_bytes/kind=panic@{}", panic_site(&p)), case.idx, case.json(input()), p);
        }
        Ok(Err(_)) => {
            acc.outcome(b"reject");
            if let Ok(toks) = &refr {
                let all_ops_ok = toks.iter().all(|t| match t {
                    Tok::Op(o) => env.ops[*o as usize],
                    _ => true,
                });
                if all_ops_ok && rs::open_depth(toks, &env.openers_strict) == 0 {
                    acc.violate(
                        "C02/from_bytes/kind=valid-script-rejected",
                        case.idx,
                        case.json(input()),
                        "string consists only of accepted opcodes, complete pushes and closed conditionals but was rejected",
                    );
                }
            }
        }
        Ok(Ok(script)) => {
            match refr {
                Err(Malformed::TruncatedPush { at, form }) => {
                    acc.outcome(b"accept-truncated");
                    let back = guard(|| script.to_bytes()).unwrap_or_default();
                    let after_ret = rs::tokenize(&b[..at]).map(|t| t.contains(&Tok::Op(0x6a))).unwrap_or(false);
                    acc.violate(
                        format!("C02/from_bytes/kind=truncated-push-accepted/form={}{}", form_name(form), if after_ret { "/after-OP_RETURN" } else { "" }),
                        case.idx,
                        case.json(input()),
                        format!("push at offset {} declares more data than remains; accepted and re-serialised as {}", at, hx(&back)),
                    );
                }
                Ok(toks) => {
                    acc.transitions += 2;
                    acc.traces += 1;
                    acc.nontrivial_structural += 1;
                    acc.states_structural += 1;
                    acc.outcome(&[b'a', (toks.len() as u8)]);
                    if rs::open_depth(&toks, &[rs::OP_IF, rs::OP_NOTIF]) > 0 {
                        acc.violate("C02/from_bytes/kind=unclosed-conditional-accepted", case.idx, case.json(input()), "IF/NOTIF block never closed but the script was accepted");
                    } else if rs::open_depth(&toks, &env.openers_learned) > 0 {
                        // the library's own grammar: a byte that opens a block when it stands first in a script opens one
                        // wherever it stands, so a block it opened and nothing closed is an unclosed conditional
                        acc.violate("C02/from_bytes/kind=unclosed-conditional-accepted/opener=library-specific", case.idx, case.json(input()), "a block opened by an opcode the library itself treats as a conditional opener is never closed but the script was accepted");
                    }
                    match guard(|| script.to_bytes()) {
                        Ok(back) => {
                            if back != b {
                                acc.violate("C02/to_bytes/kind=bytes-not-preserved", case.idx, case.json(input()), format!("re-serialised as {}", hx(&back)));
                            }
                        }
                        Err(p) => acc.violate(format!("C02/to_bytes/kind=panic@{}", panic_site(&p)), case.idx, case.json(input()), p),
                    }
                    // API twins of the same script: hex entry points, length, rebuilt from its own elements, from two chunks
                    acc.transitions += 4;
                    match guard(|| (Script::from_hex(&hex::encode(b)).map(|x| x.to_bytes()), script.to_hex(), script.get_script_length(), Script::from_script_bits(script.to_script_bits()).to_bytes(), Script::from_chunks(vec![b[..b.len() / 2].to_vec(), b[b.len() / 2..].to_vec()]).map(|x| x.to_bytes()))) {
                        Ok((fh, th, gl, rebuilt, chunks)) => {
                            if fh.as_ref().ok().map(|x| x.as_slice()) != Some(b) {
                                acc.violate("C02/from_hex/kind=differs-from-from_bytes", case.idx, case.json(input()), format!("{:?}", fh.map(|x| hx(&x)).map_err(|e| e.to_string())));
                            }
                            if th != hex::encode(b) {
                                acc.violate("C02/to_hex/kind=differs-from-to_bytes", case.idx, case.json(input()), th);
                            }
                            if gl != b.len() {
                                acc.violate("C02/get_script_length/kind=wrong-length", case.idx, case.json(input()), format!("{} for a script of {} bytes", gl, b.len()));
                            }
                            if rebuilt != b {
                                acc.violate("C02/from_script_bits/kind=bytes-not-preserved", case.idx, case.json(input()), format!("rebuilt from its own elements: {}", hx(&rebuilt)));
                            }
                            if chunks.as_ref().ok().map(|x| x.as_slice()) != Some(b) {
                                acc.violate("C02/from_chunks/kind=differs-from-from_bytes", case.idx, case.json(input()), format!("{:?}", chunks.map(|x| hx(&x)).map_err(|e| e.to_string())));
                            }
                        }
                        Err(p) => acc.violate(format!("C02/api-twins/kind=panic@{}", panic_site(&p)), case.idx, case.json(input()), p),
                    }
                    match guard(|| flatten(&script)) {
                        Ok(Some(lt)) => {
                            if lt != toks {
                                acc.violate("C02/to_script_bits/kind=tokens-differ", case.idx, case.json(input()), format!("library elements {:?} reference tokens {:?}", trunc(&lt), trunc(&toks)));
                            }
                        }
                        Ok(None) => acc.violate("C02/to_script_bits/kind=tokens-differ", case.idx, case.json(input()), "parsed script contains a Coinbase element"),
                        Err(p) => acc.violate(format!("C02/to_script_bits/kind=panic@{}", panic_site(&p)), case.idx, case.json(input()), p),
                    }
                }
            }
        }
    }
}

fn trunc(t: &[Tok]) -> Vec<String> {
    t.iter()
        .take(8)
        .map(|x| match x {
            Tok::Op(o) => format!("op{:02x}", o),
            Tok::Push(d) => format!("push{}:{}", d.len(), hx(&d[..d.len().min(8)])),
            Tok::PushData(c, d) => format!("pd{:02x}/{}:{}", c, d.len(), hx(&d[..d.len().min(8)])),
        })
        .collect()
}

fn idx_to_bytes(mut idx: u64, n: usize, alphabet: &[u8]) -> Vec<u8> {
    let base = alphabet.len() as u64;
    let mut v = vec![0u8; n];
    for i in (0..n).rev() {
        v[i] = alphabet[(idx % base) as usize];
        idx /= base;
    }
    v
}

const CLASS20: [u8; 20] = [0x00, 0x01, 0x02, 0x4b, 0x4c, 0x4d, 0x4e, 0x4f, 0x51, 0x61, 0x63, 0x64, 0x65, 0x67, 0x68, 0xab, 0xba, 0xbb, 0xfb, 0xff];

/// push-length boundary cases: (description, bytes)
fn push_boundary_cases(tier: Tier) -> Vec<(String, Vec<u8>)> {
    let mut v = vec![];
    let fill = |n: usize| -> Vec<u8> { (0..n).map(|i| (i % 251) as u8 + 1).collect() };
    let mut add = |desc: String, prefix: Vec<u8>, declared: usize| {
        // complete, short by one, half, absent; then one trailing opcode after a complete payload
        let mut provided = vec![declared, declared.saturating_sub(1), declared / 2, 0];
        provided.dedup();
        for p in provided {
            if p > declared {
                continue;
            }
            let mut b = prefix.clone();
            b.extend_from_slice(&fill(p));
            v.push((format!("{} declared={} provided={}", desc, declared, p), b));
        }
        let mut b = prefix.clone();
        b.extend_from_slice(&fill(declared));
        b.push(0x61);
        v.push((format!("{} declared={} complete+NOP", desc, declared), b));
    };
    for n in [1usize, 2, 74, 75] {
        add("direct".into(), vec![n as u8], n);
    }
    for n in [0usize, 1, 75, 76, 255] {
        add("pushdata1".into(), vec![0x4c, n as u8], n);
    }
    for n in [0usize, 1, 255, 256, 65535] {
        let mut p = vec![0x4d];
        p.extend_from_slice(&(n as u16).to_le_bytes());
        add("pushdata2".into(), p, n);
    }
    let mut pd4 = vec![0usize, 1, 65535, 65536, 65537, 1 << 20];
    if tier.is_thorough() {
        pd4.push(1 << 24);
    }
    for n in pd4 {
        let mut p = vec![0x4e];
        p.extend_from_slice(&(n as u32).to_le_bytes());
        add("pushdata4".into(), p, n);
    }
    // the length field itself cut at every byte
    v.push(("pushdata1 length field missing".into(), vec![0x4c]));
    v.push(("pushdata2 length field missing".into(), vec![0x4d]));
    v.push(("pushdata2 length field cut".into(), vec![0x4d, 0x01]));
    for k in 0..4 {
        let mut b = vec![0x4e];
        b.extend_from_slice(&vec![0x01; k]);
        v.push((format!("pushdata4 length field has {} of 4 bytes", k), b));
    }
    // several pushes in a row, the last one short
    v.push(("two pushes, second short".into(), vec![0x02, 0xaa, 0xbb, 0x03, 0xcc]));
    v.push(("push then pushdata1 short".into(), vec![0x01, 0xaa, 0x4c, 0x02, 0xcc]));
    v
}

/// Standard locking/unlocking script shapes (P2PKH, P2PK, multisig, data carrier, hash puzzle, conditional)
fn standard_templates() -> Vec<Vec<u8>> {
    let mut v = vec![];
    let mut p2pkh = vec![0x76, 0xa9, 0x14];
    p2pkh.extend((1..=20u8).collect::<Vec<_>>());
    p2pkh.extend_from_slice(&[0x88, 0xac]);
    v.push(p2pkh);
    let mut p2pk = vec![0x21, 0x02];
    p2pk.extend(vec![0x11; 32]);
    p2pk.push(0xac);
    v.push(p2pk);
    let mut p2pk_u = vec![0x41, 0x04];
    p2pk_u.extend(vec![0x22; 64]);
    p2pk_u.push(0xac);
    v.push(p2pk_u);
    let mut p2sh = vec![0xa9, 0x14];
    p2sh.extend(vec![0x33; 20]);
    p2sh.push(0x87);
    v.push(p2sh);
    let mut ms = vec![0x51, 0x21, 0x03];
    ms.extend(vec![0x44; 32]);
    ms.extend_from_slice(&[0x21, 0x02]);
    ms.extend(vec![0x55; 32]);
    ms.extend_from_slice(&[0x52, 0xae]);
    v.push(ms);
    v.push(vec![0x00, 0x6a, 0x04, 1, 2, 3, 4]);
    let mut unlock = vec![0x47, 0x30, 0x44, 0x02, 0x20];
    unlock.extend(vec![0x12; 32]);
    unlock.extend_from_slice(&[0x02, 0x20]);
    unlock.extend(vec![0x34; 32]);
    unlock.push(0x41);
    unlock.extend_from_slice(&[0x21, 0x02]);
    unlock.extend(vec![0x66; 32]);
    v.push(unlock);
    v.push(vec![0x63, 0x51, 0x67, 0x52, 0x68, 0xac]);
    v
}

fn deep_cases() -> Vec<(String, Vec<u8>)> {
    let mut v = vec![];
    for depth in [10usize, 100, 1000] {
        let mut a = vec![0x63u8; depth];
        a.extend(vec![0x68u8; depth]);
        v.push((format!("IF^{d} ENDIF^{d}", d = depth), a));
        let mut b = vec![];
        for _ in 0..depth {
            b.extend_from_slice(&[0x64, 0x51, 0x67]);
        }
        b.extend(vec![0x68u8; depth]);
        v.push((format!("(NOTIF 1 ELSE)^{d} ENDIF^{d}", d = depth), b));
        let mut c = vec![0x63u8; depth];
        c.extend(vec![0x68u8; depth - 1]);
        v.push((format!("IF^{} ENDIF^{} (one unclosed)", depth, depth - 1), c));
    }
    // long flat scripts
    v.push(("300000 x OP_NOP".into(), vec![0x61; 300_000]));
    let mut many = vec![];
    for i in 0..50_000u32 {
        many.extend_from_slice(&[0x02, i as u8, (i >> 8) as u8]);
    }
    v.push(("50000 two-byte pushes".into(), many));
    v
}

/// Bitcoin SV opcode names by byte value (script.h). Bytes 0xb1 / 0xb2 have two customary names (OP_NOP2 /
/// OP_CHECKLOCKTIMEVERIFY, OP_NOP3 / OP_CHECKSEQUENCEVERIFY) and are left out, as are the push opcodes and undefined bytes.
pub fn standard_opcode_name(b: u8) -> Option<&'static str> {
    const T: [&str; 106] = [
        "OP_1NEGATE", "OP_RESERVED", "OP_1", "OP_2", "OP_3", "OP_4", "OP_5", "OP_6", "OP_7", "OP_8", "OP_9", "OP_10", "OP_11", "OP_12", "OP_13", "OP_14", "OP_15", "OP_16",
        "OP_NOP", "OP_VER", "OP_IF", "OP_NOTIF", "OP_VERIF", "OP_VERNOTIF", "OP_ELSE", "OP_ENDIF", "OP_VERIFY", "OP_RETURN",
        "OP_TOALTSTACK", "OP_FROMALTSTACK", "OP_2DROP", "OP_2DUP", "OP_3DUP", "OP_2OVER", "OP_2ROT", "OP_2SWAP", "OP_IFDUP", "OP_DEPTH", "OP_DROP", "OP_DUP", "OP_NIP", "OP_OVER", "OP_PICK", "OP_ROLL", "OP_ROT", "OP_SWAP", "OP_TUCK",
        "OP_CAT", "OP_SPLIT", "OP_NUM2BIN", "OP_BIN2NUM", "OP_SIZE",
        "OP_INVERT", "OP_AND", "OP_OR", "OP_XOR", "OP_EQUAL", "OP_EQUALVERIFY", "OP_RESERVED1", "OP_RESERVED2",
        "OP_1ADD", "OP_1SUB", "OP_2MUL", "OP_2DIV", "OP_NEGATE", "OP_ABS", "OP_NOT", "OP_0NOTEQUAL", "OP_ADD", "OP_SUB", "OP_MUL", "OP_DIV", "OP_MOD", "OP_LSHIFT", "OP_RSHIFT",
        "OP_BOOLAND", "OP_BOOLOR", "OP_NUMEQUAL", "OP_NUMEQUALVERIFY", "OP_NUMNOTEQUAL", "OP_LESSTHAN", "OP_GREATERTHAN", "OP_LESSTHANOREQUAL", "OP_GREATERTHANOREQUAL", "OP_MIN", "OP_MAX", "OP_WITHIN",
        "OP_RIPEMD160", "OP_SHA1", "OP_SHA256", "OP_HASH160", "OP_HASH256", "OP_CODESEPARATOR", "OP_CHECKSIG", "OP_CHECKSIGVERIFY", "OP_CHECKMULTISIG", "OP_CHECKMULTISIGVERIFY",
        "OP_NOP1", "", "", "OP_NOP4", "OP_NOP5", "OP_NOP6", "OP_NOP7", "OP_NOP8", "OP_NOP9",
    ];
    match b {
        0x00 => Some("OP_0"),
        0x4f..=0xb8 => Some(T[(b - 0x4f) as usize]).filter(|n| !n.is_empty()),
        0xb9 => Some("OP_NOP10"),
        _ => None,
    }
}

const HELPER_N: [u64; 24] = [
    1, 2, 74, 75, 76, 77, 254, 255, 256, 257, 65534, 65535, 65536, 65537, 1 << 20, 1 << 24, (1 << 24) + 1, (1u64 << 31) - 1, 1 << 31, (1u64 << 31) + 1, 0xfffffffe, 0xffffffff, 0x10000, 0x7fff,
];
const ENCODE_LEN: [usize; 16] = [1, 2, 74, 75, 76, 77, 254, 255, 256, 257, 65534, 65535, 65536, 65537, 100_000, 1 << 20];

pub fn spaces(tier: Tier) -> Vec<Space> {
    let env = Arc::new(env());
    let mut v = vec![];
    let all: Arc<Vec<u8>> = Arc::new((0..=255u8).collect());
    let maxn = if tier.is_thorough() { 4 } else { 3 };
    for n in 0..=maxn {
        let e = env.clone();
        let a = all.clone();
        v.push(Space::new(&format!("bytes{}", n), 256u64.pow(n as u32), move |case, acc| {
            let b = idx_to_bytes(case.idx, n, &a);
            if n <= 1 {
                acc.sample(case.idx, || json!({"space": format!("bytes{}", n), "script_hex": hex::encode(&b)}));
            }
            eval_bytes(&b, &e, acc, case);
        }));
    }
    let cmax = if tier.is_thorough() { 6 } else { 5 };
    for n in 5..=cmax {
        let e = env.clone();
        v.push(Space::new(&format!("class{}", n), 20u64.pow(n as u32), move |case, acc| {
            let b = idx_to_bytes(case.idx, n, &CLASS20);
            eval_bytes(&b, &e, acc, case);
        }));
    }
    // conditional skeletons: all strings of length <= 8 over 6 symbols
    {
        let e = env.clone();
        let syms: Vec<Vec<u8>> = vec![vec![0x63], vec![0x64], vec![0x67], vec![0x68], vec![0x61], vec![0x01, 0xaa]];
        let maxk = if tier.is_thorough() { 9 } else { 8 };
        let mut offsets = vec![0u64];
        for k in 0..=maxk {
            offsets.push(offsets[k] + 6u64.pow(k as u32));
        }
        let total = *offsets.last().unwrap();
        v.push(Space::new("cond", total, move |case, acc| {
            let k = offsets.iter().rposition(|o| *o <= case.idx).unwrap();
            let mut rem = case.idx - offsets[k];
            let mut digits = vec![0usize; k];
            for i in (0..k).rev() {
                digits[i] = (rem % 6) as usize;
                rem /= 6;
            }
            let b: Vec<u8> = digits.iter().flat_map(|d| syms[*d].clone()).collect();
            if k == 3 {
                acc.sample(case.idx, || json!({"space": "cond", "script_hex": hex::encode(&b)}));
            }
            eval_bytes(&b, &e, acc, case);
        }));
    }
    {
        let e = env.clone();
        let cases = Arc::new(push_boundary_cases(tier));
        v.push(Space::new("pushbounds", cases.len() as u64, move |case, acc| {
            let (desc, b) = &cases[case.idx as usize];
            acc.sample(case.idx + (1 << 40), || json!({"space": "pushbounds", "desc": desc, "len": b.len()}));
            eval_bytes(b, &e, acc, case);
        }));
    }
    {
        let e = env.clone();
        let cases = Arc::new(deep_cases());
        v.push(Space::new("deep", cases.len() as u64, move |case, acc| {
            let (_desc, b) = &cases[case.idx as usize];
            eval_bytes(b, &e, acc, case);
        }));
    }
    // standard templates extended/prefixed/spliced with every string of length <= 2 (fast paths that recognise a template
    // by a few bytes must not swallow what surrounds it)
    {
        let e = env.clone();
        let templates: Vec<Vec<u8>> = standard_templates();
        let nt = templates.len() as u64;
        let all: Arc<Vec<u8>> = Arc::new((0..=255u8).collect());
        let a = all.clone();
        v.push(Space::new("template-splice", nt * 4 * 65793, move |case, acc| {
            let c = crate::engine::coords(case.idx, &[nt, 4, 65793]);
            let t = &templates[c[0] as usize];
            let (n, k) = if c[2] == 0 { (0usize, 0u64) } else if c[2] <= 256 { (1, c[2] - 1) } else { (2, c[2] - 257) };
            let x = idx_to_bytes(k, n, &a);
            let b: Vec<u8> = match c[1] {
                0 => [t.as_slice(), x.as_slice()].concat(),
                1 => [x.as_slice(), t.as_slice()].concat(),
                2 => {
                    // splice after the first token
                    let cut = rs::tokenize(t).ok().and_then(|tk| tk.first().map(|f| rs::serialize(&[f.clone()]).len())).unwrap_or(1).min(t.len());
                    [&t[..cut], x.as_slice(), &t[cut..]].concat()
                }
                _ => [t.as_slice(), x.as_slice(), t.as_slice()].concat(),
            };
            eval_bytes(&b, &e, acc, case);
        }));
    }
    // content sweep: one (or two adjacent) payload byte(s) through all 256 values at every position of a 24-byte direct push,
    // of a PUSHDATA1 push of 80 bytes (first 24 positions) and of the 20-byte hash inside a P2PKH template
    {
        let e = env.clone();
        v.push(Space::new("content-sweep", 3 * 24 * 256 * 2, move |case, acc| {
            let c = crate::engine::coords(case.idx, &[3, 24, 256, 2]);
            let (pos, b) = (c[1] as usize, c[2] as u8);
            let mut script: Vec<u8> = match c[0] {
                0 => std::iter::once(24u8).chain((0..24).map(|i| 0x90 + i as u8)).chain([0xac]).collect(),
                1 => [0x4cu8, 80].into_iter().chain((0..80).map(|i| 0x30 + i as u8)).chain([0x87]).collect(),
                _ => [0x76u8, 0xa9, 0x14].into_iter().chain((0..20).map(|i| 0xc0 + i as u8)).chain([0x88, 0xac]).collect(),
            };
            let start = match c[0] {
                0 => 1,
                1 => 2,
                _ => 3,
            };
            let plen = if c[0] == 2 { 20 } else { 24 };
            if pos >= plen {
                return;
            }
            script[start + pos] = b;
            if c[3] == 1 {
                script[start + (pos + 1) % plen] = b;
            }
            eval_bytes(&script, &e, acc, case);
        }));
    }
    // every opcode byte (with a complete payload when it is a push) at every position of every conditional skeleton of up
    // to 4 (5) symbols over {IF, NOTIF, ELSE, ENDIF}: which opcodes open or close a block must not depend on the branch
    {
        let e = env.clone();
        let holes = super::skeleton_holes(if tier.is_thorough() { 5 } else { 4 });
        let nh = holes.len() as u64;
        v.push(Space::new("opcode-in-skeleton", nh * 256, move |case, acc| {
            let c = crate::engine::coords(case.idx, &[nh, 256]);
            let (pre, post) = &holes[c[0] as usize];
            let b: Vec<u8> = [pre.as_slice(), super::hole_fill(c[1] as u8).as_slice(), post.as_slice()].concat();
            eval_bytes(&b, &e, acc, case);
        }));
    }
    // every push payload length 1..=N in its minimal form, followed by one opcode (interior lengths)
    {
        let e = env.clone();
        let maxlen: u64 = if tier.is_thorough() { 70000 } else { 2100 };
        v.push(Space::new("push-length-sweep", maxlen, move |case, acc| {
            let n = case.idx as usize + 1;
            let data: Vec<u8> = (0..n).map(|i| (i * 7 + 1) as u8).collect();
            let mut b = rs::minimal_push_prefix(n as u64);
            b.extend_from_slice(&data);
            b.push(0xac);
            eval_bytes(&b, &e, acc, case);
            // and the encoding helper for the same length
            acc.transitions += 1;
            let mut want = rs::minimal_push_prefix(n as u64);
            want.extend_from_slice(&data);
            match guard(|| Script::encode_pushdata(&data)) {
                Ok(Ok(enc)) if enc == want => {}
                Ok(other) => acc.violate(format!("C02/encode_pushdata/kind=wrong-encoding/len-class={}", if n <= 75 { "direct" } else if n <= 255 { "pushdata1" } else if n <= 65535 { "pushdata2" } else { "pushdata4" }), case.idx, case.json(json!({"fn": "Script::encode_pushdata", "data_len": n})), format!("{:?}", other.map(|x| hx(&x)).map_err(|x| x.to_string()))),
                Err(p) => acc.violate(format!("C02/encode_pushdata/kind=panic@{}", panic_site(&p)), case.idx, case.json(json!({"data_len": n})), p),
            }
        }));
    }
    // E3: strings whose PUSHDATA4 declares a payload far beyond what remains (allocation bombs today)
    {
        let e = env.clone();
        v.push(Space::isolated("class5-pushdata4", 20u64.pow(4), move |case, acc| {
            let mut b = vec![0x4e];
            b.extend(idx_to_bytes(case.idx, 4, &CLASS20));
            eval_bytes(&b, &e, acc, case);
        }));
        let e = env.clone();
        let mut huge: Vec<Vec<u8>> = vec![];
        for declared in [(1u64 << 24) + 1, (1 << 31) - 1, 1 << 31, 0xffff_ffff] {
            for provided in [0usize, 1, 100] {
                let mut b = vec![0x4e];
                b.extend_from_slice(&(declared as u32).to_le_bytes());
                b.extend(vec![0xabu8; provided]);
                huge.push(b.clone());
                let mut c = vec![0x51];
                c.extend(b);
                huge.push(c);
            }
        }
        v.push(Space::isolated("huge-declared", huge.len() as u64, move |case, acc| {
            eval_bytes(&huge[case.idx as usize], &e, acc, case);
        }));
    }
    // which opcode a byte IS: the element the parser returns for byte b must be the enum variant that an independent opcode
    // table (Bitcoin SV script.h; bytes with two customary names and bytes the library does not know are left out) names for
    // that byte, and must convert back to b. A byte round trip alone cannot see two transposed discriminants.
    v.push(Space::new("opcode-identity", 256, |case, acc| {
        let b = case.idx as u8;
        let Some(want) = standard_opcode_name(b) else { return };
        acc.evaluations += 1;
        acc.transitions += 1;
        let input = json!({"script_hex": format!("{:02x}", b), "standard_name": want});
        let got = guard(|| {
            let parsed = Script::from_bytes(&[b]).or_else(|_| Script::from_bytes(&[b, rs::OP_ENDIF])).ok()?;
            match parsed.to_script_bits().first()? {
                bsv::ScriptBit::OpCode(v) => Some((format!("{:?}", v), *v as u8)),
                bsv::ScriptBit::If { code, .. } => Some((format!("{:?}", code), *code as u8)),
                _ => None,
            }
        });
        match got {
            Ok(Some((name, back))) => {
                acc.traces += 1;
                acc.nontrivial_structural += 1;
                acc.outcome(&[0x1d, (name == want) as u8]);
                if name != want {
                    acc.violate("C02/to_script_bits/kind=wrong-opcode-for-byte", case.idx, case.json(input), format!("byte {:02x} is {} in the standard table; the parser returns the element {}", b, want, name));
                } else if back != b {
                    acc.violate("C02/to_script_bits/kind=opcode-converts-to-another-byte", case.idx, case.json(input), format!("element {} converts back to byte {:02x}", name, back));
                }
            }
            Ok(None) => acc.bump("opcode_byte_not_accepted_alone", 1),
            Err(p) => acc.violate(format!("C02/from_bytes/kind=panic@{}", panic_site(&p)), case.idx, case.json(input), p),
        }
    }));
    // scripts embedded in transactions: every byte string of length <= 2 (and every conditional/truncation shape of the
    // `cond` alphabet up to 4 symbols) as the unlocking script of an input and as the script of an output; the input's
    // outpoint is ordinary, or has an all-zero txid with an ordinary index, or an ordinary txid with index 0xffffffff (neither
    // is a coinbase outpoint). The transaction decoder must accept exactly when the script parser accepts, and hold the
    // same elements.
    {
        let mut strings: Vec<Vec<u8>> = (0..65793u64).map(|i| if i == 0 { vec![] } else if i <= 256 { vec![(i - 1) as u8] } else { vec![((i - 257) >> 8) as u8, (i - 257) as u8] }).collect();
        let syms: [&[u8]; 6] = [&[0x63], &[0x64], &[0x67], &[0x68], &[0x61], &[0x02, 0xaa]];
        for k in 3..=4u32 {
            for mut i in 0..6u64.pow(k) {
                let mut sc = vec![];
                for _ in 0..k {
                    sc.extend_from_slice(syms[(i % 6) as usize]);
                    i /= 6;
                }
                strings.push(sc);
            }
        }
        let strings = Arc::new(strings);
        let n = strings.len() as u64;
        v.push(Space::new("embedded-in-transaction", n * 4, move |case, acc| {
            let c = crate::engine::coords(case.idx, &[n, 4]);
            let sc = &strings[c[0] as usize];
            acc.evaluations += 1;
            acc.transitions += 2;
            let mut txid = [0x11u8; 32];
            let mut vout = 1u32;
            match c[1] {
                1 => txid = [0u8; 32],
                2 => vout = 0xffff_ffff,
                _ => {}
            }
            let as_output = c[1] == 3;
            let mut b = vec![1, 0, 0, 0, 1];
            b.extend_from_slice(&txid);
            b.extend_from_slice(&vout.to_le_bytes());
            if as_output {
                b.push(0);
            } else {
                b.push(sc.len() as u8);
                b.extend_from_slice(sc);
            }
            b.extend_from_slice(&[0xfe, 0xff, 0xff, 0xff, 1]);
            b.extend_from_slice(&[9, 0, 0, 0, 0, 0, 0, 0]);
            if as_output {
                b.push(sc.len() as u8);
                b.extend_from_slice(sc);
            } else {
                b.push(0);
            }
            b.extend_from_slice(&[0, 0, 0, 0]);
            let place = ["unlocking script, ordinary outpoint", "unlocking script, zero txid with index 1", "unlocking script, ordinary txid with index 0xffffffff", "output script"][c[1] as usize];
            let input = json!({"script_hex": hx(sc), "place": place, "tx_hex": hx(&b)});
            let alone = guard(|| Script::from_bytes(sc).ok().map(|s| s.to_script_bits()));
            let inside = guard(|| bsv::Transaction::from_bytes(&b).ok().map(|t| if as_output { t.get_output(0).map(|o| o.get_script_pub_key().to_script_bits()) } else { t.get_input(0).map(|i| i.get_unlocking_script().to_script_bits()) }));
            match (alone, inside) {
                (Ok(a), Ok(i)) => {
                    acc.traces += 1;
                    acc.nontrivial_structural += 1;
                    acc.outcome(&[0xe3, a.is_some() as u8, i.is_some() as u8]);
                    match (a, i) {
                        (None, Some(_)) => acc.violate("C02/Transaction::from_bytes/kind=accepts-script-the-parser-rejects", case.idx, case.json(input), "Script::from_bytes rejects these script bytes, Transaction::from_bytes accepts them in this place"),
                        (Some(_), None) => acc.violate("C02/Transaction::from_bytes/kind=rejects-script-the-parser-accepts", case.idx, case.json(input), "Script::from_bytes accepts these script bytes, Transaction::from_bytes rejects the transaction"),
                        (Some(a), Some(Some(i))) if a != i => acc.violate("C02/Transaction::from_bytes/kind=embedded-script-elements-differ", case.idx, case.json(input), format!("parsed alone: {:?}; inside the transaction: {:?}", a.iter().take(6).collect::<Vec<_>>(), i.iter().take(6).collect::<Vec<_>>())),
                        (Some(_), Some(None)) => acc.violate("C02/Transaction::from_bytes/kind=embedded-script-elements-differ", case.idx, case.json(input), "the decoded transaction has no such input/output"),
                        _ => {}
                    }
                }
                (Err(p), _) | (_, Err(p)) => acc.violate(format!("C02/Transaction::from_bytes/kind=panic@{}", panic_site(&p)), case.idx, case.json(input), p),
            }
        }));
    }
    // input / output fragments cut short: every strict prefix of a well-formed serialised TxIn / TxOut (whose script-size
    // field then declares more script bytes than remain, or whose fixed-width fields are incomplete) must be rejected by
    // TxIn::from_hex / TxOut::from_hex instead of yielding an object with a shortened or padded script
    {
        let scripts: Vec<Vec<u8>> = vec![vec![], vec![0x51], standard_templates()[0].clone(), [vec![0x4c, 80], (0..80u8).collect::<Vec<_>>(), vec![0xac]].concat(), vec![0x00, 0x6a, 0x04, 1, 2, 3, 4], vec![0x6a, 0x01, 0x4b]];
        let mut frags: Vec<(bool, Vec<u8>)> = vec![];
        for sc in &scripts {
            let mut o = 0x0102030405060708u64.to_le_bytes().to_vec();
            o.push(sc.len() as u8);
            o.extend_from_slice(sc);
            frags.push((false, o));
            let mut i = vec![0x11u8; 32];
            i.extend_from_slice(&7u32.to_le_bytes());
            i.push(sc.len() as u8);
            i.extend_from_slice(sc);
            i.extend_from_slice(&0xfffffffeu32.to_le_bytes());
            frags.push((true, i));
        }
        let mut table: Vec<(usize, usize)> = vec![];
        for (k, (_, f)) in frags.iter().enumerate() {
            for cut in 0..=f.len() {
                table.push((k, cut));
            }
        }
        let frags = Arc::new(frags);
        let n = table.len() as u64;
        v.push(Space::new("txio-fragment-prefixes", n, move |case, acc| {
            let (k, cut) = table[case.idx as usize];
            let (is_in, full) = &frags[k];
            let b = &full[..cut];
            acc.evaluations += 1;
            acc.transitions += 1;
            acc.traces += 1;
            acc.nontrivial_structural += 1;
            let name = if *is_in { "TxIn::from_hex" } else { "TxOut::from_hex" };
            let input = json!({"fn": name, "fragment_hex": hx(full), "prefix_len": cut, "prefix_hex": hx(b)});
            let got = guard(|| if *is_in { bsv::TxIn::from_hex(&hex::encode(b)).and_then(|x| x.to_bytes()) } else { bsv::TxOut::from_hex(&hex::encode(b)).and_then(|x| x.to_bytes()) });
            match got {
                Ok(Ok(back)) => {
                    acc.outcome(&[0xf7, 1, (cut == full.len()) as u8]);
                    if cut < full.len() {
                        acc.violate(format!("C02/{}/kind=truncated-fragment-accepted", name), case.idx, case.json(input), format!("a strict prefix of a well-formed fragment is accepted and re-serialised as {}", hx(&back)));
                    } else if &back != full {
                        acc.violate(format!("C02/{}/kind=bytes-not-preserved", name), case.idx, case.json(input), format!("re-serialised as {}", hx(&back)));
                    }
                }
                Ok(Err(e)) => {
                    acc.outcome(&[0xf7, 0, (cut == full.len()) as u8]);
                    if cut == full.len() {
                        // every script in the list is complete
                        acc.violate(format!("C02/{}/kind=valid-fragment-rejected", name), case.idx, case.json(input), e.to_string());
                    }
                }
                Err(p) => acc.violate(format!("C02/{}/kind=panic@{}", name, panic_site(&p)), case.idx, case.json(input), p),
            }
        }));
    }
    v.push(Space::new("prefix-helper", HELPER_N.len() as u64, |case, acc| {
        let n = HELPER_N[case.idx as usize];
        acc.evaluations += 1;
        acc.transitions += 1;
        acc.traces += 1;
        acc.nontrivial_structural += 1;
        let want = rs::minimal_push_prefix(n);
        let input = json!({"fn": "Script::get_pushdata_bytes", "n": n});
        match guard(|| Script::get_pushdata_bytes(n as usize)) {
            Ok(Ok(got)) => {
                acc.outcome(&got);
                if got != want {
                    acc.violate(format!("C02/get_pushdata_bytes/kind=wrong-prefix/n={}", n), case.idx, case.json(input), format!("library={} minimal={}", hx(&got), hx(&want)));
                }
            }
            Ok(Err(e)) => {
                acc.outcome(b"err");
                acc.violate(format!("C02/get_pushdata_bytes/kind=error/n={}", n), case.idx, case.json(input), format!("Err({}) but minimal prefix is {}", e, hx(&want)));
            }
            Err(p) => acc.violate(format!("C02/get_pushdata_bytes/kind=panic@{}", panic_site(&p)), case.idx, case.json(input), p),
        }
        // the twins of the same decision: Script::get_pushdata_prefix_bytes and VarInt::get_pushdata_opcode (used by the asm reader)
        acc.transitions += 2;
        let input = json!({"fn": "Script::get_pushdata_prefix_bytes / VarInt::get_pushdata_opcode", "n": n});
        match guard(|| (Script::get_pushdata_prefix_bytes(n as usize).ok(), bsv::VarInt::get_pushdata_opcode(n).map(|o| o as u8))) {
            Ok((prefix, opcode)) => {
                if prefix.as_deref() != Some(&want[..]) {
                    acc.violate(format!("C02/get_pushdata_prefix_bytes/kind=wrong-prefix/n={}", n), case.idx, case.json(input.clone()), format!("library={:?} minimal={}", prefix.map(|p| hx(&p)), hx(&want)));
                }
                let want_op = if want.len() == 1 { None } else { Some(want[0]) };
                if opcode != want_op {
                    acc.violate(format!("C02/get_pushdata_opcode/kind=wrong-opcode/n={}", n), case.idx, case.json(input), format!("library={:?} minimal form uses {:?}", opcode, want_op));
                }
            }
            Err(p) => acc.violate(format!("C02/push-helper-twins/kind=panic@{}", panic_site(&p)), case.idx, case.json(input), p),
        }
    }));
    v.push(Space::new("encode-pushdata", ENCODE_LEN.len() as u64 * 2, |case, acc| {
        let n = ENCODE_LEN[(case.idx / 2) as usize];
        let data: Vec<u8> = if case.idx % 2 == 0 { vec![0u8; n] } else { (0..n).map(|i| (i * 31 + 7) as u8).collect() };
        acc.evaluations += 1;
        acc.transitions += 2;
        acc.traces += 1;
        acc.nontrivial_structural += 1;
        let input = json!({"fn": "Script::encode_pushdata", "data_len": n, "pattern": case.idx % 2});
        let mut want = rs::minimal_push_prefix(n as u64);
        want.extend_from_slice(&data);
        match guard(|| Script::encode_pushdata(&data)) {
            Ok(Ok(enc)) => {
                acc.outcome(&enc[..enc.len().min(6)]);
                if enc != want {
                    acc.violate(format!("C02/encode_pushdata/kind=wrong-encoding/len={}", n), case.idx, case.json(input.clone()), format!("library={} expected={}", hx(&enc), hx(&want)));
                }
                match guard(|| Script::from_bytes(&enc).ok().and_then(|s| flatten(&s))) {
                    Ok(Some(t)) if t == vec![rs::minimal_push(&data)] => {}
                    Ok(other) => acc.violate(
                        format!("C02/encode_pushdata/kind=does-not-parse-back/len={}", n),
                        case.idx,
                        case.json(input),
                        format!("parsed back as {:?}", other.map(|t| trunc(&t))),
                    ),
                    Err(p) => acc.violate(format!("C02/encode_pushdata/kind=panic@{}", panic_site(&p)), case.idx, case.json(input), p),
                }
            }
            Ok(Err(e)) => {
                acc.outcome(b"err");
                acc.violate(format!("C02/encode_pushdata/kind=error/len={}", n), case.idx, case.json(input), format!("Err({})", e));
            }
            Err(p) => acc.violate(format!("C02/encode_pushdata/kind=panic@{}", panic_site(&p)), case.idx, case.json(input), p),
        }
    }));
    v
}

fn run(ctx: &Ctx) -> Report {
    let mut r = Report::new(
        "every byte string of length 0..N as a script (N=3 quick, 4 thorough); every string of length 5 (6) over a 20-byte class alphabet; every string of <=8 (9) symbols over {IF,NOTIF,ELSE,ENDIF,NOP,1-byte push}; every push form at every length boundary with complete/short/absent payload and cut length fields; nesting depth 10/100/1000; push-prefix helper at every boundary. Non-trivial = accepted by the library AND well-formed for the reference tokenizer, then compared (bytes and token list); all cases are distinct by construction.",
    );
    r.bounds = json!({"all_bytes_max_len": if ctx.tier.is_thorough() {4} else {3}, "class_alphabet": CLASS20.iter().map(|b| format!("{:02x}", b)).collect::<Vec<_>>(), "class_max_len": if ctx.tier.is_thorough() {6} else {5}, "cond_max_symbols": if ctx.tier.is_thorough() {9} else {8}, "helper_n": HELPER_N, "encode_lens": ENCODE_LEN, "deviation_bound": "n/a (full enumeration)"});
    r.assumptions.push("nesting depth 10^5 (native stack overflow) is probed under C09's isolating runner, not here".into());
    run_spaces_for("C02", ctx, &mut r, spaces(ctx.tier));
    r
}

fn replay(case: &Value) -> Vec<(String, String)> {
    replay_spaces_for("C02", spaces, case)
}
