//! One module per property. Most properties are a list of named, finite
//! sub-spaces; a case is (space, index, tier) and is therefore replayable.
use crate::engine::{par_range, Acc, Ctx, Report, Tier};
use serde_json::{json, Value};

pub mod c01;
pub mod c02;
pub mod c04;
pub mod c05;
pub mod c06;
pub mod c07;
pub mod c08;
pub mod c09;
pub mod c11;
pub mod c12;
pub mod c13;
pub mod c14;
pub mod c15;
pub mod c16;
pub mod c17;
pub mod c18;
pub mod c19;
pub mod c20;
pub mod icommon;
pub mod libx;
pub mod sigh;

pub struct Prop {
    pub run: fn(&Ctx) -> Report,
    pub replay: fn(&Value) -> Vec<(String, String)>,
    pub level_note: &'static str,
    /// space table, needed by the isolating runner's child processes
    pub spaces: Option<fn(Tier) -> Vec<Space>>,
}

pub fn lookup(id: &str) -> Option<Prop> {
    Some(match id {
        "C01" => c01::PROP,
        "C02" => c02::PROP,
        "C03" => sigh::PROP_C03,
        "C04" => c04::PROP,
        "C05" => c05::PROP,
        "C06" => c06::PROP,
        "C07" => c07::PROP,
        "C08" => c08::PROP,
        "C09" => c09::PROP,
        "C10" => sigh::PROP_C10,
        "C11" => c11::PROP,
        "C12" => c12::PROP,
        "C13" => c13::PROP,
        "C14" => c14::PROP,
        "C15" => c15::PROP,
        "C16" => c16::PROP,
        "C17" => c17::PROP,
        "C18" => c18::PROP,
        "C19" => c19::PROP,
        "C20" => c20::PROP,
        _ => return None,
    })
}

pub struct Case<'a> {
    pub space: &'a str,
    pub idx: u64,
    pub tier: Tier,
}

impl<'a> Case<'a> {
    pub fn json(&self, input: Value) -> Value {
        json!({"space": self.space, "idx": self.idx, "tier": self.tier.name(), "input": input})
    }
}

pub struct Space {
    pub name: String,
    pub size: u64,
    pub eval: Box<dyn Fn(&Case, &mut Acc) + Sync + Send>,
    /// evaluate in child processes (E3): cases here may abort the process
    pub isolated: bool,
}

impl Space {
    pub fn new(name: &str, size: u64, eval: impl Fn(&Case, &mut Acc) + Sync + Send + 'static) -> Space {
        Space { name: name.to_string(), size, eval: Box::new(eval), isolated: false }
    }
    pub fn isolated(name: &str, size: u64, eval: impl Fn(&Case, &mut Acc) + Sync + Send + 'static) -> Space {
        Space { name: name.to_string(), size, eval: Box::new(eval), isolated: true }
    }
}

/// Turn child deaths into violations. The key names the space and the way the process died.
fn deaths_to_violations(id: &str, sp: &Space, tier: Tier, out: &mut crate::iso::IsoOutcome) {
    for d in &out.deaths {
        let class = if d.reason.contains("refused") {
            "over-budget-allocation".to_string()
        } else if d.reason.contains("SIGSEGV") || d.reason.contains("SIGBUS") {
            "crash-SIGSEGV(stack-overflow?)".to_string()
        } else if d.reason.contains("SIGABRT") {
            "abort-SIGABRT".to_string()
        } else {
            "process-death".to_string()
        };
        let case = json!({"space": sp.name, "idx": d.idx, "tier": tier.name(), "isolated": true});
        out.acc.violate(format!("{}/{}/kind={}", id, sp.name, class), d.idx, case, d.reason.clone());
    }
}

pub fn run_spaces_for(id: &str, ctx: &Ctx, report: &mut Report, spaces: Vec<Space>) {
    for sp in spaces {
        let t0 = std::time::Instant::now();
        let res = if sp.isolated {
            let mut out = crate::iso::run_space_isolated(id, ctx.tier, &sp.name, sp.size, ctx.threads, 40);
            if !out.unattributed.is_empty() {
                for u in &out.unattributed {
                    crate::out::line(&format!("MACHINERY-ERROR: {}", u));
                }
                std::process::exit(2);
            }
            deaths_to_violations(id, &sp, ctx.tier, &mut out);
            out.acc.bump("isolated_child_deaths", out.deaths.len() as u64);
            (out.acc, out.done)
        } else {
            par_range(ctx, sp.size, |i, acc| {
                let case = Case { space: &sp.name, idx: i, tier: ctx.tier };
                (sp.eval)(&case, acc);
            })
        };
        if std::env::var("VERIF_VERBOSE").is_ok() {
            crate::out::line(&format!("  space {} size {} done {} in {:.1}s{}", sp.name, sp.size, res.1, t0.elapsed().as_secs_f64(), if sp.isolated { " (isolated)" } else { "" }));
        }
        report.add_space(&sp.name, sp.size, res);
    }
}

#[allow(dead_code)]
pub fn run_spaces(ctx: &Ctx, report: &mut Report, spaces: Vec<Space>) {
    for sp in spaces {
        assert!(!sp.isolated, "isolated spaces need run_spaces_for");
        let t0 = std::time::Instant::now();
        let res = par_range(ctx, sp.size, |i, acc| {
            let case = Case { space: &sp.name, idx: i, tier: ctx.tier };
            (sp.eval)(&case, acc);
        });
        if std::env::var("VERIF_VERBOSE").is_ok() {
            crate::out::line(&format!("  space {} size {} done {} in {:.1}s", sp.name, sp.size, res.1, t0.elapsed().as_secs_f64()));
        }
        report.add_space(&sp.name, sp.size, res);
    }
}

pub fn replay_spaces_for(id: &str, mk: fn(Tier) -> Vec<Space>, case: &Value) -> Vec<(String, String)> {
    let tier = match case.get("tier").and_then(|t| t.as_str()) {
        Some("thorough") => Tier::Thorough,
        _ => Tier::Quick,
    };
    let name = case.get("space").and_then(|s| s.as_str()).unwrap_or("");
    let idx = case.get("idx").and_then(|s| s.as_u64()).unwrap_or(u64::MAX);
    for sp in mk(tier) {
        if sp.name == name && sp.isolated && !crate::iso::in_child() {
            if idx >= sp.size {
                return vec![("machinery/replay-index-out-of-range".into(), format!("{} >= {}", idx, sp.size))];
            }
            // run exactly this one index in a child of our own
            let exe_out = crate::iso::run_range_isolated(id, tier, &sp.name, idx, idx + 1);
            let mut out = exe_out;
            deaths_to_violations(id, &sp, tier, &mut out);
            return out.acc.violations.into_iter().flat_map(|(k, (_, vs))| vs.into_iter().map(move |v| (k.clone(), v.detail))).collect();
        }
    }
    replay_spaces(mk, case)
}

pub fn replay_spaces(mk: fn(Tier) -> Vec<Space>, case: &Value) -> Vec<(String, String)> {
    let tier = match case.get("tier").and_then(|t| t.as_str()) {
        Some("thorough") => Tier::Thorough,
        _ => Tier::Quick,
    };
    let name = case.get("space").and_then(|s| s.as_str()).unwrap_or("");
    let idx = case.get("idx").and_then(|s| s.as_u64()).unwrap_or(u64::MAX);
    for sp in mk(tier) {
        if sp.name == name {
            if idx >= sp.size {
                return vec![("machinery/replay-index-out-of-range".into(), format!("{} >= {}", idx, sp.size))];
            }
            // VERIF_REPLAY_WINDOW=w: first run the w cases that precede idx in this space, in order, on this thread (their
            // verdicts are discarded) - the way a worker thread of the explorer reaches idx. Used by the driver when a
            // violation does not reproduce from a cold start: code under test that keeps state between calls (a static or
            // thread-local cache) fails only after the right predecessor.
            let w: u64 = std::env::var("VERIF_REPLAY_WINDOW").ok().and_then(|x| x.parse().ok()).unwrap_or(0);
            if w > 0 {
                let mut scratch = Acc::new();
                for j in idx.saturating_sub(w)..idx {
                    let c = Case { space: &sp.name, idx: j, tier };
                    let _ = crate::engine::guard(|| (sp.eval)(&c, &mut scratch));
                }
            }
            let mut acc = Acc::new();
            let c = Case { space: &sp.name, idx, tier };
            (sp.eval)(&c, &mut acc);
            return acc.violations.into_iter().flat_map(|(k, (_, vs))| vs.into_iter().map(move |v| (k.clone(), v.detail))).collect();
        }
    }
    vec![("machinery/replay-unknown-space".into(), name.to_string())]
}

/// Conditional skeletons with one hole: every string of up to `max_syms` symbols over {IF, NOTIF, ELSE, ENDIF} split at every
/// position into (bytes before the hole, bytes after the hole). The hole is filled by the caller with each opcode byte.
pub fn skeleton_holes(max_syms: usize) -> Vec<(Vec<u8>, Vec<u8>)> {
    let syms = [0x63u8, 0x64, 0x67, 0x68];
    let mut out = vec![];
    let mut strings: Vec<Vec<u8>> = vec![vec![]];
    let mut frontier: Vec<Vec<u8>> = vec![vec![]];
    for _ in 0..max_syms {
        let mut next = vec![];
        for f in &frontier {
            for s in syms {
                let mut g = f.clone();
                g.push(s);
                next.push(g);
            }
        }
        strings.extend(next.iter().cloned());
        frontier = next;
    }
    for st in strings {
        for cut in 0..=st.len() {
            out.push((st[..cut].to_vec(), st[cut..].to_vec()));
        }
    }
    out
}

/// The bytes that fill a hole for opcode byte `x`: the byte itself, followed by a complete payload when it is a push opcode.
pub fn hole_fill(x: u8) -> Vec<u8> {
    match x {
        1..=0x4b => std::iter::once(x).chain((0..x).map(|i| 0xa0u8.wrapping_add(i))).collect(),
        0x4c => vec![0x4c, 1, 0xaa],
        0x4d => vec![0x4d, 1, 0, 0xaa],
        0x4e => vec![0x4e, 1, 0, 0, 0, 0xaa],
        _ => vec![x],
    }
}

/// Deterministic byte patterns used across properties.
pub fn pattern(p: u64, len: usize) -> Vec<u8> {
    match p {
        0 => vec![0u8; len],
        1 => vec![0xffu8; len],
        2 => (0..len).map(|i| (i as u8).wrapping_add(1)).collect(),
        3 => {
            let mut v = vec![0u8; len];
            if len > 0 {
                v[0] = 0x80;
            }
            v
        }
        _ => (0..len).map(|i| ((i * 7 + 13) as u8) ^ (p as u8).wrapping_mul(31)).collect(),
    }
}

pub fn hx(b: &[u8]) -> String {
    if b.len() <= 80 {
        hex::encode(b)
    } else {
        format!("{}…({} bytes)", hex::encode(&b[..40]), b.len())
    }
}
