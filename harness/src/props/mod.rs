//! One module per property. Most properties are a list of named, finite
//! sub-spaces; a case is (space, index, tier) and is therefore replayable.
use crate::engine::{par_range, Acc, Ctx, Report, Tier};
use serde_json::{json, Value};

pub mod c01;
pub mod c02;
pub mod c04;
pub mod c05;
pub mod c06;
pub mod c07;
pub mod c08;
pub mod c09;
pub mod c11;
pub mod c12;
pub mod c13;
pub mod c14;
pub mod c15;
pub mod c16;
pub mod c17;
pub mod c18;
pub mod c19;
pub mod c20;
pub mod icommon;
pub mod libx;
pub mod sigh;

pub struct Prop {
    pub run: fn(&Ctx) -> Report,
    pub replay: fn(&Value) -> Vec<(String, String)>,
    pub level_note: &'static str,
    /// space table, needed by the isolating runner's child processes
    pub spaces: Option<fn(Tier) -> Vec<Space>>,
}

pub fn lookup(id: &str) -> Option<Prop> {
    Some(match id {
        "C01" => c01::PROP,
        "C02" => c02::PROP,
        "C03" => sigh::PROP_C03,
        "C04" => c04::PROP,
        "C05" => c05::PROP,
        "C06" => c06::PROP,
        "C07" => c07::PROP,
        "C08" => c08::PROP,
        "C09" => c09::PROP,
        "C10" => sigh::PROP_C10,
        "C11" => c11::PROP,
        "C12" => c12::PROP,
        "C13" => c13::PROP,
        "C14" => c14::PROP,
        "C15" => c15::PROP,
        "C16" => c16::PROP,
        "C17" => c17::PROP,
        "C18" => c18::PROP,
        "C19" => c19::PROP,
        "C20" => c20::PROP,
        _ => return None,
    })
}

pub struct Case<'a> {
    pub space: &'a str,
    pub idx: u64,
    pub tier: Tier,
}

thread_local! {
    /// Set by the history pass: the case evaluated on this thread immediately before the current one.
    static HIST_AFTER: std::cell::RefCell<Vec<u64>> = std::cell::RefCell::new(Vec::new());
    /// The last eight cases this thread evaluated in the history pass, oldest first.
    static HIST_RECENT: std::cell::RefCell<Vec<u64>> = std::cell::RefCell::new(Vec::new());
}

impl<'a> Case<'a> {
    pub fn json(&self, input: Value) -> Value {
        let after = HIST_AFTER.with(|h| h.borrow().clone());
        if after.is_empty() {
            json!({"space": self.space, "idx": self.idx, "tier": self.tier.name(), "input": input})
        } else {
            // a violation seen in the history pass is replayed with its predecessors (the last few cases evaluated on
            // the same thread, oldest first) evaluated first
            json!({"space": self.space, "idx": self.idx, "tier": self.tier.name(), "input": input, "after": after})
        }
    }
}

/// Values of one coordinate (size d, current value c) used as predecessors: all of them when d <= 10, otherwise the
/// nearest two on each side, the first three and the last two.
fn neighbour_values(c: u64, d: u64) -> Vec<u64> {
    let mut v: Vec<u64> = if d <= 10 {
        (0..d).collect()
    } else {
        let mut v = vec![0, 1, 2, d - 2, d - 1];
        for k in 1..=2u64 {
            if c >= k {
                v.push(c - k);
            }
            if c + k < d {
                v.push(c + k);
            }
        }
        v
    };
    v.retain(|x| *x != c);
    v.sort();
    v.dedup();
    v
}

static HIST_SPENT_MS: std::sync::atomic::AtomicU64 = std::sync::atomic::AtomicU64::new(0);

pub struct HistStats {
    pub bases: u64,
    pub pairs: u64,
    pub step: u64,
    pub complete: bool,
}

/// E1h — call histories of length two across cases. The forward sweep evaluates case i right after case i-1 only, so
/// library state that outlives a call (a static or thread-local memo, a reused buffer) is exercised only by
/// predecessors that differ in the fastest-varying coordinate. Here, for every base case b of a stated subset (all
/// cases, or every `step`-th when the pair budget is smaller than the space) and every case p that differs from b in
/// exactly one coordinate (any coordinate; values per `neighbour_values`), p and then b are evaluated back to back on
/// one thread. The oracle is the cases' own: the reference does not know the order. Coordinates are learned from the
/// first odometer decoding the base case performs (engine::coords); a space that decodes none is treated as one
/// coordinate. Only violations and pair counts are kept from this pass.
pub fn history_pass(ctx: &Ctx, sp: &Space, forward_s: f64) -> (Acc, HistStats) {
    let n = sp.size;
    let budget: u64 = std::env::var("VERIF_HIST_PAIRS").ok().and_then(|x| x.parse().ok()).unwrap_or(if ctx.tier.is_thorough() { 60_000 } else { 2_000 });
    let mut stats = HistStats { bases: 0, pairs: 0, step: 1, complete: true };
    if n < 2 || budget == 0 {
        return (Acc::new(), stats);
    }
    // about 12 predecessors per base; a step that shares no factor with the space size visits every value of every coordinate
    let want_bases = (budget / 12).max(1);
    let mut step = ((n + want_bases - 1) / want_bases).max(1);
    if step > 1 {
        fn gcd(a: u64, b: u64) -> u64 {
            if b == 0 {
                a
            } else {
                gcd(b, a % b)
            }
        }
        while gcd(step, n) != 1 {
            step += 1;
        }
    }
    stats.step = step;
    let nbases = (n + step - 1) / step;
    // wall budget: per space a fraction of what the forward sweep took, and per property a total (HIST_SPENT)
    let total_cap = if ctx.tier.is_thorough() { 150.0 } else { 8.0 };
    let spent = HIST_SPENT_MS.load(std::sync::atomic::Ordering::Relaxed) as f64 / 1000.0;
    let per_eval = forward_s * ctx.threads as f64 / n as f64;
    let cap_s = (if ctx.tier.is_thorough() { (0.5 * forward_s).clamp(4.0, 40.0) } else { (0.5 * forward_s).clamp(0.7, 3.0) }).min(total_cap - spent);
    if cap_s <= 0.05 || per_eval * 3.0 > cap_s {
        // not even one (base, predecessor, base) triple fits: say so instead of starting
        stats.complete = false;
        return (Acc::new(), stats);
    }
    let cap = std::time::Duration::from_secs_f64(cap_s);
    let t0 = std::time::Instant::now();
    let pairs = std::sync::atomic::AtomicU64::new(0);
    let capped = std::sync::atomic::AtomicBool::new(false);
    let (mut acc, done) = par_range(ctx, nbases, |t, acc| {
        if capped.load(std::sync::atomic::Ordering::Relaxed) {
            return;
        }
        if t0.elapsed() > cap {
            capped.store(true, std::sync::atomic::Ordering::Relaxed);
            return;
        }
        let b = t * step;
        let base = Case { space: &sp.name, idx: b, tier: ctx.tier };
        // every evaluation of the sequence b, p1, b, p2, b, ... is judged; "after" names the (up to eight) cases evaluated
        // just before it on this thread. The first evaluation of b also tells the coordinates.
        // (the worker threads of this pass are new threads, so HIST_RECENT starts empty and spans the bases a thread handles)
        let mut recent: Vec<u64> = vec![];
        let mut eval_judged = |c: &Case, _unused: &mut Vec<u64>, acc: &mut Acc| {
            HIST_AFTER.with(|h| *h.borrow_mut() = HIST_RECENT.with(|r| r.borrow().clone()));
            let mut one = Acc::new();
            (sp.eval)(c, &mut one);
            HIST_AFTER.with(|h| h.borrow_mut().clear());
            let mut vo = Acc::new();
            vo.violations = std::mem::take(&mut one.violations);
            acc.merge(vo);
            HIST_RECENT.with(|r| {
                let mut r = r.borrow_mut();
                r.push(c.idx);
                if r.len() > 8 {
                    r.remove(0);
                }
            });
        };
        let _ = crate::engine::take_first_coords();
        eval_judged(&base, &mut recent, acc);
        let (local, dims) = match crate::engine::take_first_coords() {
            Some((li, d)) if li <= b && d.iter().all(|x| *x > 0) && d.iter().product::<u64>() <= n && b - li + d.iter().product::<u64>() <= n && li < d.iter().product::<u64>() => (li, d),
            _ => (b, vec![n]),
        };
        let offset = b - local;
        let cs = crate::engine::coords(local, &dims);
        let _ = crate::engine::take_first_coords();
        let mut weight = vec![1u64; dims.len()];
        for j in (0..dims.len().saturating_sub(1)).rev() {
            weight[j] = weight[j + 1] * dims[j + 1];
        }
        'outer: for j in 0..dims.len() {
            for v in neighbour_values(cs[j], dims[j]) {
                let p = offset + local - cs[j] * weight[j] + v * weight[j];
                if p >= n || p == b {
                    continue;
                }
                if t0.elapsed() > cap {
                    capped.store(true, std::sync::atomic::Ordering::Relaxed);
                    break 'outer;
                }
                let pred = Case { space: &sp.name, idx: p, tier: ctx.tier };
                eval_judged(&pred, &mut recent, acc);
                eval_judged(&base, &mut recent, acc);
                pairs.fetch_add(1, std::sync::atomic::Ordering::Relaxed);
            }
        }
        let _ = crate::engine::take_first_coords();
    });
    HIST_SPENT_MS.fetch_add(t0.elapsed().as_millis() as u64, std::sync::atomic::Ordering::Relaxed);
    stats.bases = done;
    stats.pairs = pairs.load(std::sync::atomic::Ordering::Relaxed);
    stats.complete = done >= nbases && !capped.load(std::sync::atomic::Ordering::Relaxed);
    // keep only what this pass is for
    let mut out = Acc::new();
    out.violations = std::mem::take(&mut acc.violations);
    out.bump("history_pairs(predecessor_then_case)", stats.pairs);
    out.bump("history_base_cases", stats.bases);
    (out, stats)
}

pub struct Space {
    pub name: String,
    pub size: u64,
    pub eval: Box<dyn Fn(&Case, &mut Acc) + Sync + Send>,
    /// evaluate in child processes (E3): cases here may abort the process
    pub isolated: bool,
}

impl Space {
    pub fn new(name: &str, size: u64, eval: impl Fn(&Case, &mut Acc) + Sync + Send + 'static) -> Space {
        Space { name: name.to_string(), size, eval: Box::new(eval), isolated: false }
    }
    pub fn isolated(name: &str, size: u64, eval: impl Fn(&Case, &mut Acc) + Sync + Send + 'static) -> Space {
        Space { name: name.to_string(), size, eval: Box::new(eval), isolated: true }
    }
}

/// Turn child deaths into violations. The key names the space and the way the process died.
fn deaths_to_violations(id: &str, sp: &Space, tier: Tier, out: &mut crate::iso::IsoOutcome) {
    for d in &out.deaths {
        let class = if d.reason.contains("refused") {
            "over-budget-allocation".to_string()
        } else if d.reason.contains("SIGSEGV") || d.reason.contains("SIGBUS") {
            "crash-SIGSEGV(stack-overflow?)".to_string()
        } else if d.reason.contains("SIGABRT") {
            "abort-SIGABRT".to_string()
        } else {
            "process-death".to_string()
        };
        let case = json!({"space": sp.name, "idx": d.idx, "tier": tier.name(), "isolated": true});
        out.acc.violate(format!("{}/{}/kind={}", id, sp.name, class), d.idx, case, d.reason.clone());
    }
}

pub fn run_spaces_for(id: &str, ctx: &Ctx, report: &mut Report, spaces: Vec<Space>) {
    for sp in spaces {
        let t0 = std::time::Instant::now();
        let res = if sp.isolated {
            let mut out = crate::iso::run_space_isolated(id, ctx.tier, &sp.name, sp.size, ctx.threads, 40);
            if !out.unattributed.is_empty() {
                for u in &out.unattributed {
                    crate::out::line(&format!("MACHINERY-ERROR: {}", u));
                }
                std::process::exit(2);
            }
            deaths_to_violations(id, &sp, ctx.tier, &mut out);
            out.acc.bump("isolated_child_deaths", out.deaths.len() as u64);
            (out.acc, out.done)
        } else {
            par_range(ctx, sp.size, |i, acc| {
                let case = Case { space: &sp.name, idx: i, tier: ctx.tier };
                (sp.eval)(&case, acc);
            })
        };
        if std::env::var("VERIF_VERBOSE").is_ok() {
            crate::out::line(&format!("  space {} size {} done {} in {:.1}s{}", sp.name, sp.size, res.1, t0.elapsed().as_secs_f64(), if sp.isolated { " (isolated)" } else { "" }));
        }
        let complete = res.1 >= sp.size;
        report.add_space(&sp.name, sp.size, res);
        if !sp.isolated && complete {
            add_history(ctx, report, &sp, t0.elapsed().as_secs_f64());
        }
    }
}

fn add_history(ctx: &Ctx, report: &mut Report, sp: &Space, forward_s: f64) {
    let t1 = std::time::Instant::now();
    let (hacc, st) = history_pass(ctx, sp, forward_s);
    if st.pairs == 0 && st.bases == 0 && st.complete {
        return;
    }
    if std::env::var("VERIF_VERBOSE").is_ok() {
        crate::out::line(&format!("    history pass: {} bases (every {}th case), {} pairs, complete={} in {:.1}s", st.bases, st.step, st.pairs, st.complete, t1.elapsed().as_secs_f64()));
    }
    if let Some(last) = report.spaces.last_mut() {
        last["history_pass"] = json!({"base_cases": st.bases, "base_step": st.step, "pairs_predecessor_then_case": st.pairs, "complete_within_its_bound": st.complete});
    }
    report.acc.merge(hacc);
}

#[allow(dead_code)]
pub fn run_spaces(ctx: &Ctx, report: &mut Report, spaces: Vec<Space>) {
    for sp in spaces {
        assert!(!sp.isolated, "isolated spaces need run_spaces_for");
        let t0 = std::time::Instant::now();
        let res = par_range(ctx, sp.size, |i, acc| {
            let case = Case { space: &sp.name, idx: i, tier: ctx.tier };
            (sp.eval)(&case, acc);
        });
        if std::env::var("VERIF_VERBOSE").is_ok() {
            crate::out::line(&format!("  space {} size {} done {} in {:.1}s", sp.name, sp.size, res.1, t0.elapsed().as_secs_f64()));
        }
        let complete = res.1 >= sp.size;
        report.add_space(&sp.name, sp.size, res);
        if complete {
            add_history(ctx, report, &sp, t0.elapsed().as_secs_f64());
        }
    }
}

pub fn replay_spaces_for(id: &str, mk: fn(Tier) -> Vec<Space>, case: &Value) -> Vec<(String, String)> {
    let tier = match case.get("tier").and_then(|t| t.as_str()) {
        Some("thorough") => Tier::Thorough,
        _ => Tier::Quick,
    };
    let name = case.get("space").and_then(|s| s.as_str()).unwrap_or("");
    let idx = case.get("idx").and_then(|s| s.as_u64()).unwrap_or(u64::MAX);
    for sp in mk(tier) {
        if sp.name == name && sp.isolated && !crate::iso::in_child() {
            if idx >= sp.size {
                return vec![("machinery/replay-index-out-of-range".into(), format!("{} >= {}", idx, sp.size))];
            }
            // run exactly this one index in a child of our own
            let exe_out = crate::iso::run_range_isolated(id, tier, &sp.name, idx, idx + 1);
            let mut out = exe_out;
            deaths_to_violations(id, &sp, tier, &mut out);
            return out.acc.violations.into_iter().flat_map(|(k, (_, vs))| vs.into_iter().map(move |v| (k.clone(), v.detail))).collect();
        }
    }
    replay_spaces(mk, case)
}

pub fn replay_spaces(mk: fn(Tier) -> Vec<Space>, case: &Value) -> Vec<(String, String)> {
    let tier = match case.get("tier").and_then(|t| t.as_str()) {
        Some("thorough") => Tier::Thorough,
        _ => Tier::Quick,
    };
    let name = case.get("space").and_then(|s| s.as_str()).unwrap_or("");
    let idx = case.get("idx").and_then(|s| s.as_u64()).unwrap_or(u64::MAX);
    for sp in mk(tier) {
        if sp.name == name {
            if idx >= sp.size {
                return vec![("machinery/replay-index-out-of-range".into(), format!("{} >= {}", idx, sp.size))];
            }
            // VERIF_REPLAY_WINDOW=w: first run the w cases that precede idx in this space, in order, on this thread (their
            // verdicts are discarded) - the way a worker thread of the explorer reaches idx. Used by the driver when a
            // violation does not reproduce from a cold start: code under test that keeps state between calls (a static or
            // thread-local cache) fails only after the right predecessor.
            let w: u64 = std::env::var("VERIF_REPLAY_WINDOW").ok().and_then(|x| x.parse().ok()).unwrap_or(0);
            if w > 0 {
                let mut scratch = Acc::new();
                for j in idx.saturating_sub(w)..idx {
                    let c = Case { space: &sp.name, idx: j, tier };
                    let _ = crate::engine::guard(|| (sp.eval)(&c, &mut scratch));
                }
            }
            // a case recorded by the history pass names the case(s) evaluated right before it on the same thread
            if let Some(after) = case.get("after").and_then(|a| a.as_array()) {
                let mut scratch = Acc::new();
                for j in after.iter().filter_map(|x| x.as_u64()).filter(|j| *j < sp.size) {
                    let c = Case { space: &sp.name, idx: j, tier };
                    let _ = crate::engine::guard(|| (sp.eval)(&c, &mut scratch));
                }
            }
            let mut acc = Acc::new();
            let c = Case { space: &sp.name, idx, tier };
            (sp.eval)(&c, &mut acc);
            return acc.violations.into_iter().flat_map(|(k, (_, vs))| vs.into_iter().map(move |v| (k.clone(), v.detail))).collect();
        }
    }
    vec![("machinery/replay-unknown-space".into(), name.to_string())]
}

/// Conditional skeletons with one hole: every string of up to `max_syms` symbols over {IF, NOTIF, ELSE, ENDIF} split at every
/// position into (bytes before the hole, bytes after the hole). The hole is filled by the caller with each opcode byte.
pub fn skeleton_holes(max_syms: usize) -> Vec<(Vec<u8>, Vec<u8>)> {
    let syms = [0x63u8, 0x64, 0x67, 0x68];
    let mut out = vec![];
    let mut strings: Vec<Vec<u8>> = vec![vec![]];
    let mut frontier: Vec<Vec<u8>> = vec![vec![]];
    for _ in 0..max_syms {
        let mut next = vec![];
        for f in &frontier {
            for s in syms {
                let mut g = f.clone();
                g.push(s);
                next.push(g);
            }
        }
        strings.extend(next.iter().cloned());
        frontier = next;
    }
    for st in strings {
        for cut in 0..=st.len() {
            out.push((st[..cut].to_vec(), st[cut..].to_vec()));
        }
    }
    out
}

/// The bytes that fill a hole for opcode byte `x`: the byte itself, followed by a complete payload when it is a push opcode.
pub fn hole_fill(x: u8) -> Vec<u8> {
    match x {
        1..=0x4b => std::iter::once(x).chain((0..x).map(|i| 0xa0u8.wrapping_add(i))).collect(),
        0x4c => vec![0x4c, 1, 0xaa],
        0x4d => vec![0x4d, 1, 0, 0xaa],
        0x4e => vec![0x4e, 1, 0, 0, 0, 0xaa],
        _ => vec![x],
    }
}

/// Deterministic byte patterns used across properties.
pub fn pattern(p: u64, len: usize) -> Vec<u8> {
    match p {
        0 => vec![0u8; len],
        1 => vec![0xffu8; len],
        2 => (0..len).map(|i| (i as u8).wrapping_add(1)).collect(),
        3 => {
            let mut v = vec![0u8; len];
            if len > 0 {
                v[0] = 0x80;
            }
            v
        }
        _ => (0..len).map(|i| ((i * 7 + 13) as u8) ^ (p as u8).wrapping_mul(31)).collect(),
    }
}

pub fn hx(b: &[u8]) -> String {
    if b.len() <= 80 {
        hex::encode(b)
    } else {
        format!("{}…({} bytes)", hex::encode(&b[..40]), b.len())
    }
}
