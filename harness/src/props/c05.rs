//! C05 — ECDSA signing/verification: every signature verifies, low-S,
//! deterministic ones equal RFC 6979; ECDH symmetric and equal to the reference.
use super::{hx, pattern, replay_spaces, run_spaces, Case, Prop, Space};
use crate::engine::{coords, guard, panic_site, Acc, Ctx, Report, Tier};
use crate::refs::hashes::{self as rh, H};
use crate::refs::secp::{self, Point};
use bsv::{PrivateKey, PublicKey, Signature, SigningHash, ECDH, ECDSA};
use num_bigint::BigUint;
use serde_json::{json, Value};
use std::sync::Arc;

pub const PROP: Prop = Prop {
    run,
    replay,
    spaces: Some(spaces),
    level_note: "trusted base: refs::secp (ECDSA, RFC 6979 — checked against the published secp256k1 vectors and a pure-Python implementation), refs::hashes; randomised-nonce signing is driven through the verif-hooks entropy seam so every case is replayable; keys, nonces and messages outside the boundary alphabets are not covered",
};

/// Private-key alphabet: edges of [1, n-1] and ordinary values.
pub fn key_alphabet(tier: Tier) -> Vec<BigUint> {
    let n = secp::n();
    let one = BigUint::from(1u32);
    let mut v = vec![
        one.clone(),
        BigUint::from(2u32),
        BigUint::from(3u32),
        &n - &one,
        &n - BigUint::from(2u32),
        (&n - &one) / BigUint::from(2u32),
        (&n + &one) / BigUint::from(2u32),
        one.clone() << 128,
        secp::from_be(&hex::decode("c0ffee254729296a45a3885639ac7e10f9d54979a0f5b2d1e8b1c4a7d3f6e5b9").unwrap()),
        secp::from_be(&hex::decode("0000000000000000000000000000000000000000000000000000000012345678").unwrap()),
    ];
    // byte-pattern keys: leading 0x80, leading 0x00, 0x80 in the middle, every byte 0x80
    for h in [
        "80b1f6a3c2d4e5f60718293a4b5c6d7e8f90a1b2c3d4e5f60718293a4b5c6d7e",
        "0000a3c2d4e5f60718293a4b5c6d7e8f90a1b2c3d4e5f60718293a4b5c6d7e8f",
        "11223344556677889900aabbccddee80ff00112233445566778899aabbccdd01",
        "8080808080808080808080808080808080808080808080808080808080808080",
    ] {
        v.push(secp::from_be(&hex::decode(h).unwrap()));
    }
    if tier.is_thorough() {
        v.push(((one.clone() << 255) - BigUint::from(19u32)) % &n);
        v.push(secp::from_be(&hex::decode("e3b0c44298fc1c149afbf4c8996fb92427ae41e4649b934ca495991b7852b855").unwrap()) % &n);
        v.push(one.clone() << 255);
        v.push((one << 64) - BigUint::from(1u32));
    }
    v
}

pub struct KeyTab {
    pub d: Vec<BigUint>,
    pub q: Vec<Point>,
}

pub fn keytab(tier: Tier) -> KeyTab {
    let d = key_alphabet(tier);
    let q = d.iter().map(secp::mul_g).collect();
    KeyTab { d, q }
}

fn lib_key(d: &BigUint, compressed: bool) -> PrivateKey {
    PrivateKey::from_bytes(&secp::be32(d)).expect("alphabet key").compress_public_key(compressed)
}

const LONG_LENS: [usize; 9] = [4095, 4097, 16385, 65535, 65537, 70000, 131073, (1 << 20) + 4097, 1_500_000];
const MSG_LENS: [usize; 13] = [0, 1, 31, 32, 33, 55, 56, 63, 64, 65, 119, 120, 1000];

fn digest_of(hash: u64, msg: &[u8]) -> [u8; 32] {
    if hash == 0 {
        rh::sha256(msg)
    } else {
        rh::sha256d(msg)
    }
}

fn signing_hash(hash: u64) -> SigningHash {
    if hash == 0 {
        SigningHash::Sha256
    } else {
        SigningHash::Sha256d
    }
}

fn z_of(digest: &[u8; 32]) -> BigUint {
    secp::from_be(digest) % secp::n()
}

fn rs_of(sig: &Signature) -> (BigUint, BigUint) {
    (secp::from_be(&sig.r()), secp::from_be(&sig.s()))
}

/// Everything a produced signature must satisfy; `expect` = the reference (r, s) when the entry point is deterministic.
#[allow(clippy::too_many_arguments)]
fn check_signature(acc: &mut Acc, case: &Case, entry: &str, input: &Value, sig: &Signature, q: &Point, d: &BigUint, compressed: bool, msg: Option<(&[u8], u64)>, digest: &[u8; 32], expect: Option<(BigUint, BigUint)>) {
    let (r, s) = rs_of(sig);
    let z = z_of(digest);
    acc.traces += 1;
    acc.nontrivial_structural += 1;
    acc.outcome(&sig.r()[..3]);
    if let Some((er, es)) = expect {
        if (er.clone(), es.clone()) != (r.clone(), s.clone()) {
            acc.violate(format!("C05/{}/kind=differs-from-rfc6979-reference", entry), case.idx, case.json(input.clone()), format!("library r={} s={} reference r={} s={}", hx(&sig.r()), hx(&sig.s()), hx(&secp::be32(&er)), hx(&secp::be32(&es))));
        }
    }
    if s > secp::half_n() {
        acc.violate(format!("C05/{}/kind=high-s", entry), case.idx, case.json(input.clone()), format!("s={}", hx(&sig.s())));
    }
    if !secp::verify(q, &z, &r, &s) {
        acc.violate(format!("C05/{}/kind=signature-does-not-verify", entry), case.idx, case.json(input.clone()), format!("reference verifier rejects r={} s={} for digest {}", hx(&sig.r()), hx(&sig.s()), hx(digest)));
        return;
    }
    // the library's own verifiers must accept it too, with the key in both SEC1 forms
    let pk = guard(|| lib_key(d, compressed).to_public_key());
    let Ok(Ok(pk)) = pk else {
        acc.violate(format!("C05/{}/kind=to_public_key-failed", entry), case.idx, case.json(input.clone()), format!("{:?}", pk.map(|r| r.map(|_| ()).map_err(|e| e.to_string()))));
        return;
    };
    let forms: Vec<PublicKey> = vec![pk.clone(), guard(|| pk.to_compressed()).ok().and_then(|r| r.ok()).unwrap_or(pk.clone()), guard(|| pk.to_decompressed()).ok().and_then(|r| r.ok()).unwrap_or(pk.clone())];
    for (fi, form) in forms.iter().enumerate() {
        acc.transitions += 1;
        let hb = guard(|| ECDSA::verify_hashbuf(digest, form, sig));
        if !matches!(hb, Ok(Ok(true))) {
            acc.violate(format!("C05/{}/kind=library-verify_hashbuf-rejects-own-signature", entry), case.idx, case.json(input.clone()), format!("key form {}: {:?}", fi, hb.map(|r| r.map_err(|e| e.to_string()))));
        }
        if let Some((m, hash)) = msg {
            acc.transitions += 1;
            let vd = guard(|| ECDSA::verify_digest(m, form, sig, signing_hash(hash)));
            if !matches!(vd, Ok(Ok(true))) {
                acc.violate(format!("C05/{}/kind=library-verify_digest-rejects-own-signature", entry), case.idx, case.json(input.clone()), format!("key form {}: {:?}", fi, vd.map(|r| r.map_err(|e| e.to_string()))));
            }
            if hash == 0 {
                acc.transitions += 2;
                if !guard(|| sig.verify_message(m, form)).unwrap_or(false) {
                    acc.violate(format!("C05/{}/kind=Signature::verify_message-rejects-own-signature", entry), case.idx, case.json(input.clone()), format!("key form {}", fi));
                }
                if !guard(|| form.is_valid_message(m, sig)).unwrap_or(false) {
                    acc.violate(format!("C05/{}/kind=PublicKey::is_valid_message-rejects-own-signature", entry), case.idx, case.json(input.clone()), format!("key form {}", fi));
                }
            }
        }
    }
}

fn reference_deterministic(d: &BigUint, digest: &[u8; 32], reverse_k: bool) -> Option<(BigUint, BigUint)> {
    let mut h1 = *digest;
    if reverse_k {
        h1.reverse();
    }
    let k = secp::rfc6979_k(d, &h1, &[]);
    secp::sign_with_k(d, &z_of(digest), &k, true).map(|s| (s.r, s.s))
}

const ENTROPY: [&str; 5] = [
    "0000000000000000000000000000000000000000000000000000000000000000",
    "ffffffffffffffffffffffffffffffffffffffffffffffffffffffffffffffff",
    "000102030405060708090a0b0c0d0e0f101112131415161718191a1b1c1d1e1f",
    "9e3779b97f4a7c15f39cc0605cedc8341082276bf3a27251f86c6a11d0c18e95",
    "fffffffffffffffffffffffffffffffebaaedce6af48a03bbfd25e8cd0364141",
];

const DIGESTS: [&str; 8] = [
    "0000000000000000000000000000000000000000000000000000000000000000",
    "0000000000000000000000000000000000000000000000000000000000000001",
    "fffffffffffffffffffffffffffffffebaaedce6af48a03bbfd25e8cd0364140",
    "fffffffffffffffffffffffffffffffebaaedce6af48a03bbfd25e8cd0364141",
    "fffffffffffffffffffffffffffffffebaaedce6af48a03bbfd25e8cd0364142",
    "ffffffffffffffffffffffffffffffffffffffffffffffffffffffffffffffff",
    "9f86d081884c7d659a2feaa0c55ad015a3bf4f1b2b0b822cd15d6c15b0f00a08",
    "0102030405060708090a0b0c0d0e0f101112131415161718191a1b1c1d1e1f20",
];

pub fn spaces(tier: Tier) -> Vec<Space> {
    let kt = Arc::new(keytab(tier));
    let nk = kt.d.len() as u64;
    let mut v = vec![];

    // 1. deterministic signing: key x compression x message length x pattern x hash x nonce byte-order mode
    {
        let kt = kt.clone();
        let npat = 3u64;
        v.push(Space::new("deterministic", nk * 2 * 13 * npat * 2 * 2, move |case, acc| {
            let c = coords(case.idx, &[nk, 2, 13, npat, 2, 2]);
            let (d, q) = (&kt.d[c[0] as usize], &kt.q[c[0] as usize]);
            let compressed = c[1] == 0;
            let msg = pattern(c[3], MSG_LENS[c[2] as usize]);
            let (hash, reverse_k) = (c[4], c[5] == 1);
            acc.evaluations += 1;
            acc.transitions += 2;
            let input = json!({"key": hx(&secp::be32(d)), "compressed": compressed, "msg": hx(&msg), "hash": if hash == 0 {"sha256"} else {"sha256d"}, "reverse_k": reverse_k});
            acc.sample(case.idx, || json!({"space": "deterministic", "input": input}));
            let digest = digest_of(hash, &msg);
            let lib = guard(|| {
                let pk = lib_key(d, compressed);
                let a = ECDSA::sign_with_deterministic_k(&pk, &msg, signing_hash(hash), reverse_k)?;
                let b = ECDSA::sign_with_deterministic_k(&pk, &msg, signing_hash(hash), reverse_k)?;
                Ok::<_, bsv::BSVErrors>((a, b))
            });
            match lib {
                Ok(Ok((a, b))) => {
                    if a.to_der_bytes() != b.to_der_bytes() {
                        acc.violate("C05/sign_with_deterministic_k/kind=not-reproducible", case.idx, case.json(input.clone()), "two calls gave different signatures");
                    }
                    check_signature(acc, case, "sign_with_deterministic_k", &input, &a, q, d, compressed, Some((&msg, hash)), &digest, reference_deterministic(d, &digest, reverse_k));
                    if hash == 0 && !reverse_k {
                        // PrivateKey::sign_message is the same entry point with SHA-256, mode false
                        acc.transitions += 1;
                        match guard(|| lib_key(d, compressed).sign_message(&msg)) {
                            Ok(Ok(sm)) => {
                                if sm.to_der_bytes() != a.to_der_bytes() {
                                    acc.violate("C05/PrivateKey::sign_message/kind=differs-from-rfc6979-reference", case.idx, case.json(input), "sign_message differs from sign_with_deterministic_k(Sha256,false)");
                                }
                            }
                            other => acc.violate("C05/PrivateKey::sign_message/kind=spurious-error", case.idx, case.json(input), format!("{:?}", other.map(|r| r.map(|_| ()).map_err(|e| e.to_string())))),
                        }
                    }
                }
                Ok(Err(e)) => acc.violate("C05/sign_with_deterministic_k/kind=spurious-error", case.idx, case.json(input), e.to_string()),
                Err(p) => acc.violate(format!("C05/sign_with_deterministic_k/kind=panic@{}", panic_site(&p)), case.idx, case.json(input), p),
            }
        }));
    }
    // 1b. long messages (interior lengths far beyond the block sizes): deterministic signing equals the reference
    {
        let kt = kt.clone();
        v.push(Space::new("long-messages", LONG_LENS.len() as u64 * 2 * 2, move |case, acc| {
            let c = coords(case.idx, &[LONG_LENS.len() as u64, 2, 2]);
            let (d, q) = (&kt.d[8 % kt.d.len()], &kt.q[8 % kt.q.len()]);
            let msg = pattern(2, LONG_LENS[c[0] as usize]);
            let (hash, compressed) = (c[1], c[2] == 0);
            acc.evaluations += 1;
            acc.transitions += 1;
            let input = json!({"key": hx(&secp::be32(d)), "msg_len": msg.len(), "hash": hash, "compressed": compressed});
            let digest = digest_of(hash, &msg);
            match guard(|| ECDSA::sign_with_deterministic_k(&lib_key(d, compressed), &msg, signing_hash(hash), true)) {
                Ok(Ok(sig)) => check_signature(acc, case, "sign_with_deterministic_k", &input, &sig, q, d, compressed, Some((&msg, hash)), &digest, reference_deterministic(d, &digest, true)),
                Ok(Err(e)) => acc.violate("C05/sign_with_deterministic_k/kind=spurious-error", case.idx, case.json(input), e.to_string()),
                Err(p) => acc.violate(format!("C05/sign_with_deterministic_k/kind=panic@{}", panic_site(&p)), case.idx, case.json(input), p),
            }
        }));
    }
    // 2. pre-hashed digest signing
    {
        let kt = kt.clone();
        v.push(Space::new("digest", nk * 2 * 8, move |case, acc| {
            let c = coords(case.idx, &[nk, 2, 8]);
            let (d, q) = (&kt.d[c[0] as usize], &kt.q[c[0] as usize]);
            let compressed = c[1] == 0;
            let mut digest = [0u8; 32];
            digest.copy_from_slice(&hex::decode(DIGESTS[c[2] as usize]).unwrap());
            acc.evaluations += 1;
            acc.transitions += 1;
            let input = json!({"key": hx(&secp::be32(d)), "compressed": compressed, "digest": DIGESTS[c[2] as usize]});
            match guard(|| ECDSA::sign_digest_with_deterministic_k(&lib_key(d, compressed), &digest)) {
                Ok(Ok(sig)) => {
                    if z_of(&digest) == BigUint::from(0u32) && false {
                        return;
                    }
                    check_signature(acc, case, "sign_digest_with_deterministic_k", &input, &sig, q, d, compressed, None, &digest, reference_deterministic(d, &digest, false));
                }
                Ok(Err(e)) => acc.violate("C05/sign_digest_with_deterministic_k/kind=spurious-error", case.idx, case.json(input), e.to_string()),
                Err(p) => acc.violate(format!("C05/sign_digest_with_deterministic_k/kind=panic@{}", panic_site(&p)), case.idx, case.json(input), p),
            }
        }));
    }
    // 3. caller-supplied nonce
    {
        let kt = kt.clone();
        v.push(Space::new("with_k", nk * nk * 2 * 3 * 2, move |case, acc| {
            let c = coords(case.idx, &[nk, nk, 2, 3, 2]);
            let (d, q) = (&kt.d[c[0] as usize], &kt.q[c[0] as usize]);
            let k = &kt.d[c[1] as usize];
            let compressed = c[2] == 0;
            let msg = pattern(c[3] + 2, [0usize, 2, 70][c[3] as usize]);
            let hash = c[4];
            let digest = digest_of(hash, &msg);
            acc.evaluations += 1;
            acc.transitions += 1;
            let input = json!({"key": hx(&secp::be32(d)), "nonce": hx(&secp::be32(k)), "compressed": compressed, "msg": hx(&msg), "hash": hash});
            let want = secp::sign_with_k(d, &z_of(&digest), k, true);
            if let Some(w) = &want {
                // coverage counters: parity of R.y and whether low-S normalisation applied
                let raw = secp::sign_with_k(d, &z_of(&digest), k, false).unwrap();
                acc.bump(if raw.recid & 1 == 1 { "with_k_R_y_odd" } else { "with_k_R_y_even" }, 1);
                acc.bump(if raw.s != w.s { "with_k_raw_s_high" } else { "with_k_raw_s_low" }, 1);
            }
            match (guard(|| ECDSA::sign_with_k(&lib_key(d, compressed), &lib_key(k, true), &msg, signing_hash(hash))), want) {
                (Ok(Ok(sig)), Some(w)) => check_signature(acc, case, "sign_with_k", &input, &sig, q, d, compressed, Some((&msg, hash)), &digest, Some((w.r, w.s))),
                (Ok(Ok(sig)), None) => check_signature(acc, case, "sign_with_k", &input, &sig, q, d, compressed, Some((&msg, hash)), &digest, None),
                (Ok(Err(_)), None) => acc.outcome(b"refused-degenerate"),
                (Ok(Err(e)), Some(_)) => acc.violate("C05/sign_with_k/kind=spurious-error", case.idx, case.json(input), e.to_string()),
                (Err(p), _) => acc.violate(format!("C05/sign_with_k/kind=panic@{}", panic_site(&p)), case.idx, case.json(input), p),
            }
        }));
    }
    // 4. randomised nonce, entropy supplied through the seam
    {
        let kt = kt.clone();
        v.push(Space::new("random_k", nk * 2 * 5 * 2 * 2 * 3, move |case, acc| {
            let c = coords(case.idx, &[nk, 2, 5, 2, 2, 3]);
            let (d, q) = (&kt.d[c[0] as usize], &kt.q[c[0] as usize]);
            let compressed = c[1] == 0;
            let mut ent = [0u8; 32];
            ent.copy_from_slice(&hex::decode(ENTROPY[c[2] as usize]).unwrap());
            let (hash, reverse_k) = (c[3], c[4] == 1);
            let msg = pattern(c[5] + 2, [0usize, 33, 200][c[5] as usize]);
            let digest = digest_of(hash, &msg);
            acc.evaluations += 1;
            acc.transitions += 1;
            let input = json!({"key": hx(&secp::be32(d)), "compressed": compressed, "entropy": ENTROPY[c[2] as usize], "msg": hx(&msg), "hash": hash, "reverse_k": reverse_k});
            match guard(|| {
                bsv::verif_hooks::push_entropy(ent);
                ECDSA::sign_with_random_k(&lib_key(d, compressed), &msg, signing_hash(hash), reverse_k)
            }) {
                Ok(Ok(sig)) => check_signature(acc, case, "sign_with_random_k", &input, &sig, q, d, compressed, Some((&msg, hash)), &digest, None),
                Ok(Err(e)) => acc.violate("C05/sign_with_random_k/kind=spurious-error", case.idx, case.json(input), e.to_string()),
                Err(p) => acc.violate(format!("C05/sign_with_random_k/kind=panic@{}", panic_site(&p)), case.idx, case.json(input), p),
            }
        }));
    }
    // 5. negative leg: other message (every single-bit flip of a 2-byte message, one byte longer), other hash, every other key
    {
        let kt = kt.clone();
        let nvar = 16 + 1 + 1 + nk;
        v.push(Space::new("negative", nk * 2 * nvar, move |case, acc| {
            let c = coords(case.idx, &[nk, 2, nvar]);
            let d = &kt.d[c[0] as usize];
            let hash = c[1];
            let msg = vec![0x5a, 0xc3];
            acc.evaluations += 1;
            acc.transitions += 2;
            let Ok(Ok(sig)) = guard(|| ECDSA::sign_with_deterministic_k(&lib_key(d, true), &msg, signing_hash(hash), false)) else {
                return;
            };
            let (r, s) = rs_of(&sig);
            let var = c[2];
            // (message, hash, key index) actually presented to the verifier
            let (vmsg, vhash, vkey, what): (Vec<u8>, u64, usize, String) = if var < 16 {
                let mut m = msg.clone();
                m[(var / 8) as usize] ^= 1 << (var % 8);
                (m, hash, c[0] as usize, format!("message bit {} flipped", var))
            } else if var == 16 {
                let mut m = msg.clone();
                m.push(0);
                (m, hash, c[0] as usize, "message one byte longer".into())
            } else if var == 17 {
                (msg.clone(), 1 - hash, c[0] as usize, "other hash choice".into())
            } else {
                (msg.clone(), hash, (var - 18) as usize, format!("verified under key #{}", var - 18))
            };
            if vkey == c[0] as usize && var >= 18 {
                return; // same key: positive case, covered elsewhere
            }
            let ref_ok = secp::verify(&kt.q[vkey], &z_of(&digest_of(vhash, &vmsg)), &r, &s);
            acc.traces += 1;
            acc.nontrivial_structural += 1;
            let input = json!({"signer": hx(&secp::be32(d)), "signed_msg": hx(&msg), "signed_hash": hash, "variation": what});
            let lib = guard(|| {
                let pk = lib_key(&kt.d[vkey], true).to_public_key()?;
                ECDSA::verify_digest(&vmsg, &pk, &sig, signing_hash(vhash))
            });
            let lib_ok = matches!(lib, Ok(Ok(true)));
            acc.outcome(&[lib_ok as u8, ref_ok as u8]);
            if lib_ok && !ref_ok {
                acc.violate("C05/verify_digest/kind=accepts-invalid-signature", case.idx, case.json(input.clone()), "library reports success, reference verifier rejects");
            }
            if !lib_ok && ref_ok {
                acc.violate("C05/verify_digest/kind=rejects-valid-signature", case.idx, case.json(input.clone()), "reference verifier accepts");
            }
            let digest = digest_of(vhash, &vmsg);
            let hb = guard(|| {
                let pk = lib_key(&kt.d[vkey], true).to_public_key()?;
                ECDSA::verify_hashbuf(&digest, &pk, &sig)
            });
            if matches!(hb, Ok(Ok(true))) && !ref_ok {
                acc.violate("C05/verify_hashbuf/kind=accepts-invalid-signature", case.idx, case.json(input.clone()), "library reports success, reference verifier rejects");
            }
            // the digest-level verifier must not take the digest in the other byte order either (decided by the reference: the
            // signature is valid for the reversed digest with probability 2^-256, but nothing is assumed)
            if var == 0 {
                let true_digest = digest_of(hash, &msg);
                let mut rev = true_digest;
                rev.reverse();
                let mut half = true_digest;
                half[16..].reverse();
                for (name, dg) in [("byte-reversed digest", rev), ("digest with its second half reversed", half)] {
                    let ref_rev = secp::verify(&kt.q[c[0] as usize], &z_of(&dg), &r, &s);
                    acc.transitions += 1;
                    let got = guard(|| {
                        let pk = lib_key(d, true).to_public_key()?;
                        ECDSA::verify_hashbuf(&dg, &pk, &sig)
                    });
                    if matches!(got, Ok(Ok(true))) && !ref_rev {
                        acc.violate("C05/verify_hashbuf/kind=accepts-invalid-signature", case.idx, case.json(json!({"signer": hx(&secp::be32(d)), "signed_msg": hx(&msg), "signed_hash": hash, "variation": name})), "library reports success for a digest that differs from the signed one, reference verifier rejects");
                    }
                }
            }
            // the message-level verifiers (SHA-256 only): every one of them must agree with the reference verdict
            if vhash == 0 {
                acc.transitions += 3;
                let others = guard(|| {
                    let pk = lib_key(&kt.d[vkey], true).to_public_key()?;
                    Ok::<_, bsv::BSVErrors>((pk.is_valid_message(&vmsg, &sig), sig.verify_message(&vmsg, &pk), pk.verify_message(&vmsg, &sig).unwrap_or(false)))
                });
                if let Ok(Ok((a, b, c3))) = others {
                    for (name, got) in [("PublicKey::is_valid_message", a), ("Signature::verify_message", b), ("PublicKey::verify_message", c3)] {
                        if got && !ref_ok {
                            acc.violate(format!("C05/{}/kind=accepts-invalid-signature", name), case.idx, case.json(input.clone()), "library reports success, reference verifier rejects");
                        }
                        if !got && ref_ok {
                            acc.violate(format!("C05/{}/kind=rejects-valid-signature", name), case.idx, case.json(input.clone()), "reference verifier accepts");
                        }
                    }
                }
            }
        }));
    }
    // 5b. verifier call histories: every sequence of three verifications of ONE signature against keys drawn from
    //     {signer compressed, signer uncompressed, the mirror key -P (private key n - d, same x), an unrelated key},
    //     through verify_digest and verify_hashbuf, all on one thread without anything in between. Each answer must be
    //     the stateless reference answer: a verifier that remembers anything from the previous call (a decoded point
    //     keyed too coarsely, a cached digest) shows up as an answer that depends on the history.
    {
        let kt = kt.clone();
        v.push(Space::new("verifier-call-histories", 2 * 2 * 64, move |case, acc| {
            let c = coords(case.idx, &[2, 2, 64]);
            let n = secp::n();
            let si = [0usize, 9 % kt.d.len()][c[0] as usize];
            let d = kt.d[si].clone();
            let mirror = &n - &d;
            let other = kt.d[(si + 3) % kt.d.len()].clone();
            let msg = b"history".to_vec();
            let digest = digest_of(0, &msg);
            let Ok(Ok(sig)) = guard(|| ECDSA::sign_with_deterministic_k(&lib_key(&d, true), &msg, signing_hash(0), false)) else { return };
            let (r, s) = rs_of(&sig);
            // (private scalar, compressed form)
            let alphabet: [(&BigUint, bool); 4] = [(&d, true), (&d, false), (&mirror, true), (&other, true)];
            let names = ["signer (compressed)", "signer (uncompressed)", "mirror key n-d", "unrelated key"];
            let seq: Vec<usize> = (0..3).map(|k| ((c[2] >> (2 * k)) & 3) as usize).collect();
            acc.evaluations += 1;
            acc.transitions += 3;
            acc.traces += 1;
            acc.nontrivial_structural += 1;
            let via_hashbuf = c[1] == 1;
            let got = guard(|| {
                let mut out = vec![];
                for a in &seq {
                    let (sk, comp) = alphabet[*a];
                    let pk = lib_key(sk, comp).to_public_key()?;
                    out.push(if via_hashbuf { ECDSA::verify_hashbuf(&digest, &pk, &sig).unwrap_or(false) } else { ECDSA::verify_digest(&msg, &pk, &sig, signing_hash(0)).unwrap_or(false) });
                }
                Ok::<_, bsv::BSVErrors>(out)
            });
            let want: Vec<bool> = seq.iter().map(|a| secp::verify(&secp::mul_g(alphabet[*a].0), &z_of(&digest), &r, &s)).collect();
            let input = json!({"signer": hx(&secp::be32(&d)), "verifier": if via_hashbuf { "ECDSA::verify_hashbuf" } else { "ECDSA::verify_digest" }, "keys_presented_in_order": seq.iter().map(|a| names[*a]).collect::<Vec<_>>(), "reference_answers": want});
            match got {
                Ok(Ok(g)) => {
                    acc.outcome(&[0x48, g[0] as u8, g[1] as u8, g[2] as u8]);
                    if g != want {
                        let i = g.iter().zip(want.iter()).position(|(a, b)| a != b).unwrap_or(0);
                        let kind = if g[i] { "accepts-invalid-signature" } else { "rejects-valid-signature" };
                        acc.violate(format!("C05/{}/kind={}/after-call-history", if via_hashbuf { "verify_hashbuf" } else { "verify_digest" }, kind), case.idx, case.json(input), format!("answers {:?}, stateless reference {:?} (first difference at call {})", g, want, i));
                    }
                }
                Ok(Err(e)) => acc.violate("C05/verifier-call-histories/kind=spurious-error", case.idx, case.json(input), e.to_string()),
                Err(p) => acc.violate(format!("C05/verifier-call-histories/kind=panic@{}", panic_site(&p)), case.idx, case.json(input), p),
            }
        }));
    }
    // 6. ECDH: every ordered pair, both compression forms of the public key
    {
        let kt = kt.clone();
        v.push(Space::new("ecdh", nk * nk * 2, move |case, acc| {
            let c = coords(case.idx, &[nk, nk, 2]);
            let (a, b) = (c[0] as usize, c[1] as usize);
            let compressed = c[2] == 0;
            acc.evaluations += 1;
            acc.transitions += 2;
            acc.traces += 1;
            acc.nontrivial_structural += 1;
            let want = secp::ecdh_x(&kt.d[a], &kt.q[b]).to_vec();
            let input = json!({"a": hx(&secp::be32(&kt.d[a])), "b": hx(&secp::be32(&kt.d[b])), "pub_compressed": compressed});
            let lib = guard(|| {
                let pa = lib_key(&kt.d[a], compressed);
                let pb = lib_key(&kt.d[b], compressed);
                let ab = ECDH::derive_shared_key(&pa, &pb.to_public_key()?)?;
                let ba = ECDH::derive_shared_key(&pb, &pa.to_public_key()?)?;
                Ok::<_, bsv::BSVErrors>((ab, ba))
            });
            match lib {
                Ok(Ok((ab, ba))) => {
                    acc.outcome(&ab[..2]);
                    if ab != ba {
                        acc.violate("C05/derive_shared_key/kind=not-symmetric", case.idx, case.json(input.clone()), format!("a*B={} b*A={}", hx(&ab), hx(&ba)));
                    }
                    if ab != want {
                        acc.violate("C05/derive_shared_key/kind=differs-from-reference-point", case.idx, case.json(input), format!("library={} reference x(a*b*G)={}", hx(&ab), hx(&want)));
                    }
                }
                Ok(Err(e)) => acc.violate("C05/derive_shared_key/kind=spurious-error", case.idx, case.json(input), e.to_string()),
                Err(p) => acc.violate(format!("C05/derive_shared_key/kind=panic@{}", panic_site(&p)), case.idx, case.json(input), p),
            }
        }));
    }
    // 6a. wide key alphabet: single set bit 2^k, all-ones-below 2^k - 1 and n - 2^k for every k (quick: every 8th k) — signing with
    //     RFC 6979 nonces and ECDH against a fixed ordinary peer; these keys put a single carry / borrow in every limb position
    {
        let n = secp::n();
        let one = BigUint::from(1u32);
        let step = if tier.is_thorough() { 1 } else { 8 };
        let mut wide: Vec<BigUint> = vec![];
        for k in (1..256u32).step_by(step) {
            for cand in [one.clone() << k, (one.clone() << k) - &one, &n - (one.clone() << k.min(255))] {
                if cand > BigUint::from(0u32) && cand < n && !wide.contains(&cand) {
                    wide.push(cand);
                }
            }
        }
        let wq: Vec<Point> = wide.iter().map(secp::mul_g).collect();
        let wt = Arc::new(KeyTab { d: wide, q: wq });
        let nw = wt.d.len() as u64;
        let (w1, kt1) = (wt.clone(), kt.clone());
        v.push(Space::new("wide-keys-deterministic", nw * 2 * 2 * 2, move |case, acc| {
            let c = coords(case.idx, &[nw, 2, 2, 2]);
            let (d, q) = (&w1.d[c[0] as usize], &w1.q[c[0] as usize]);
            let compressed = c[1] == 0;
            let (hash, reverse_k) = (c[2], c[3] == 1);
            let msg = b"wide key alphabet".to_vec();
            acc.evaluations += 1;
            acc.transitions += 1;
            let input = json!({"key": hx(&secp::be32(d)), "compressed": compressed, "msg": hx(&msg), "hash": hash, "reverse_k": reverse_k});
            let digest = digest_of(hash, &msg);
            match guard(|| ECDSA::sign_with_deterministic_k(&lib_key(d, compressed), &msg, signing_hash(hash), reverse_k)) {
                Ok(Ok(sig)) => check_signature(acc, case, "sign_with_deterministic_k", &input, &sig, q, d, compressed, Some((&msg, hash)), &digest, reference_deterministic(d, &digest, reverse_k)),
                Ok(Err(e)) => acc.violate("C05/sign_with_deterministic_k/kind=spurious-error", case.idx, case.json(input), e.to_string()),
                Err(p) => acc.violate(format!("C05/sign_with_deterministic_k/kind=panic@{}", panic_site(&p)), case.idx, case.json(input), p),
            }
        }));
        let w2 = wt.clone();
        v.push(Space::new("wide-keys-ecdh", nw * 2, move |case, acc| {
            let c = coords(case.idx, &[nw, 2]);
            let a = &w2.d[c[0] as usize];
            let peer = 8 % kt1.d.len();
            let (b, bq) = (&kt1.d[peer], &kt1.q[peer]);
            let compressed = c[1] == 0;
            acc.evaluations += 1;
            acc.transitions += 2;
            acc.traces += 1;
            acc.nontrivial_structural += 1;
            let want = secp::ecdh_x(a, bq).to_vec();
            let input = json!({"a": hx(&secp::be32(a)), "b": hx(&secp::be32(b)), "pub_compressed": compressed});
            let lib = guard(|| {
                let pa = lib_key(a, compressed);
                let pb = lib_key(b, compressed);
                let ab = ECDH::derive_shared_key(&pa, &pb.to_public_key()?)?;
                let ba = ECDH::derive_shared_key(&pb, &pa.to_public_key()?)?;
                Ok::<_, bsv::BSVErrors>((ab, ba))
            });
            match lib {
                Ok(Ok((ab, ba))) => {
                    acc.outcome(&ab[..2]);
                    if ab != ba {
                        acc.violate("C05/derive_shared_key/kind=not-symmetric", case.idx, case.json(input.clone()), format!("a*B={} b*A={}", hx(&ab), hx(&ba)));
                    }
                    if ab != want {
                        acc.violate("C05/derive_shared_key/kind=differs-from-reference-point", case.idx, case.json(input), format!("library={} reference x(a*b*G)={}", hx(&ab), hx(&want)));
                    }
                }
                Ok(Err(e)) => acc.violate("C05/derive_shared_key/kind=spurious-error", case.idx, case.json(input), e.to_string()),
                Err(p) => acc.violate(format!("C05/derive_shared_key/kind=panic@{}", panic_site(&p)), case.idx, case.json(input), p),
            }
        }));
        // every message length 0..=N under one ordinary key (interior lengths of the digest step)
        let kt2 = kt.clone();
        let maxlen: u64 = if tier.is_thorough() { 1100 } else { 140 };
        v.push(Space::new("message-length-sweep", (maxlen + 1) * 2, move |case, acc| {
            let c = coords(case.idx, &[maxlen + 1, 2]);
            let k = 8 % kt2.d.len();
            let (d, q) = (&kt2.d[k], &kt2.q[k]);
            let msg = pattern(2, c[0] as usize);
            let hash = c[1];
            acc.evaluations += 1;
            acc.transitions += 1;
            let input = json!({"key": hx(&secp::be32(d)), "msg_len": msg.len(), "hash": hash});
            let digest = digest_of(hash, &msg);
            match guard(|| ECDSA::sign_with_deterministic_k(&lib_key(d, true), &msg, signing_hash(hash), false)) {
                Ok(Ok(sig)) => check_signature(acc, case, "sign_with_deterministic_k", &input, &sig, q, d, true, Some((&msg, hash)), &digest, reference_deterministic(d, &digest, false)),
                Ok(Err(e)) => acc.violate("C05/sign_with_deterministic_k/kind=spurious-error", case.idx, case.json(input), e.to_string()),
                Err(p) => acc.violate(format!("C05/sign_with_deterministic_k/kind=panic@{}", panic_site(&p)), case.idx, case.json(input), p),
            }
        }));
    }
    // 6b. key objects obtained through every constructor: private key from bytes / lower hex / upper hex / WIF (both forms),
    //     public key from the private key (two ways) / SEC1 bytes (both forms) / hex - signing equals the reference and
    //     verification succeeds whatever the route by which the key objects were made
    {
        let kt = kt.clone();
        v.push(Space::new("key-constructors", nk * 5 * 5 * 2, move |case, acc| {
            let c = coords(case.idx, &[nk, 5, 5, 2]);
            let (d, q) = (&kt.d[c[0] as usize], &kt.q[c[0] as usize]);
            let hash = c[3];
            let msg = b"constructors".to_vec();
            let digest = digest_of(hash, &msg);
            let d32 = secp::be32(d);
            let skc = ["from_bytes", "from_hex(lower)", "from_hex(upper)", "from_wif(compressed)", "from_wif(uncompressed)"][c[1] as usize];
            let pkc = ["PrivateKey::to_public_key", "PublicKey::from_private_key", "from_bytes(compressed)", "from_bytes(uncompressed)", "from_hex(uncompressed)"][c[2] as usize];
            let input = json!({"key": hx(&d32), "private_key_constructor": skc, "public_key_constructor": pkc, "hash": hash});
            acc.evaluations += 1;
            acc.transitions += 3;
            let lib = guard(|| {
                let sk = match c[1] {
                    0 => PrivateKey::from_bytes(&d32)?,
                    1 => PrivateKey::from_hex(&hex::encode(d32))?,
                    2 => PrivateKey::from_hex(&hex::encode(d32).to_uppercase())?,
                    3 => PrivateKey::from_wif(&crate::refs::b58::wif_encode(&d32, true, 0x80))?,
                    _ => PrivateKey::from_wif(&crate::refs::b58::wif_encode(&d32, false, 0x80))?,
                };
                let pk = match c[2] {
                    0 => sk.to_public_key()?,
                    1 => PublicKey::from_private_key(&sk),
                    2 => PublicKey::from_bytes(&secp::encode_point(q, true))?,
                    3 => PublicKey::from_bytes(&secp::encode_point(q, false))?,
                    _ => PublicKey::from_hex(&hex::encode(secp::encode_point(q, false)))?,
                };
                let sig = ECDSA::sign_with_deterministic_k(&sk, &msg, signing_hash(hash), false)?;
                let ok = ECDSA::verify_digest(&msg, &pk, &sig, signing_hash(hash))?;
                Ok::<_, bsv::BSVErrors>((sig, ok))
            });
            match lib {
                Ok(Ok((sig, ok))) => {
                    acc.traces += 1;
                    acc.nontrivial_structural += 1;
                    acc.outcome(&[ok as u8, c[1] as u8]);
                    let (r, s_) = rs_of(&sig);
                    if Some((r, s_)) != reference_deterministic(d, &digest, false) {
                        acc.violate("C05/sign_with_deterministic_k/kind=differs-from-rfc6979-reference/by=key-constructor", case.idx, case.json(input.clone()), format!("r={} s={}", hx(&sig.r()), hx(&sig.s())));
                    }
                    if !ok {
                        acc.violate("C05/verify_digest/kind=rejects-valid-signature/by=key-constructor", case.idx, case.json(input), "the signer's own public key, obtained through this constructor, does not verify the signature");
                    }
                }
                Ok(Err(e)) => acc.violate("C05/key-constructors/kind=spurious-error", case.idx, case.json(input), e.to_string()),
                Err(p) => acc.violate(format!("C05/key-constructors/kind=panic@{}", panic_site(&p)), case.idx, case.json(input), p),
            }
        }));
    }
    // 6c. the transaction-level caller-nonce entry point: Transaction::sign_with_k must produce the (r, s) of the reference
    //     for (signer key, nonce) over SHA256d of the library's own preimage, and verify under the SIGNER's key
    {
        let kt = kt.clone();
        v.push(Space::new("transaction-sign_with_k", nk * nk * 2, move |case, acc| {
            let c = coords(case.idx, &[nk, nk, 2]);
            let (d, q) = (&kt.d[c[0] as usize], &kt.q[c[0] as usize]);
            let k = &kt.d[c[1] as usize];
            let flag = if c[2] == 0 { bsv::SigHash::InputsOutputs } else { bsv::SigHash::try_from(0xc3u8).unwrap() };
            let input = json!({"key": hx(&secp::be32(d)), "nonce": hx(&secp::be32(k)), "flag": c[2]});
            acc.evaluations += 1;
            acc.transitions += 2;
            let lib = guard(|| {
                let mut tx = bsv::Transaction::new(1, 0);
                tx.add_input(&bsv::TxIn::new(&[7u8; 32], 1, &bsv::Script::from_bytes(&[])?, Some(0xfffffffe)));
                tx.add_output(&bsv::TxOut::new(5000, &bsv::Script::from_bytes(&[0x51])?));
                let sub = bsv::Script::from_bytes(&[0x76, 0xa9, 0x01, 0x07, 0x88, 0xac])?;
                let pre = tx.sighash_preimage(flag, 0, &sub, 1234)?;
                let sig = tx.sign_with_k(&lib_key(d, true), &lib_key(k, true), flag, 0, &sub, 1234)?;
                let ok = tx.verify(&lib_key(d, true).to_public_key()?, &sig);
                Ok::<_, bsv::BSVErrors>((pre, sig.to_bytes()?, ok))
            });
            match lib {
                Ok(Ok((pre, sigbytes, ok))) => {
                    acc.traces += 1;
                    acc.nontrivial_structural += 1;
                    let digest = rh::sha256d(&pre);
                    let want = secp::sign_with_k(d, &z_of(&digest), k, true);
                    let got = secp::der_decode(&sigbytes[..sigbytes.len().saturating_sub(1)]);
                    acc.outcome(&[ok as u8, want.is_some() as u8]);
                    match (got, want) {
                        (Some((r, s_)), Some(w)) => {
                            if (r.clone(), s_.clone()) != (w.r.clone(), w.s.clone()) {
                                acc.violate("C05/Transaction::sign_with_k/kind=differs-from-reference", case.idx, case.json(input.clone()), format!("library DER {} reference r={} s={}", hx(&sigbytes), hx(&secp::be32(&w.r)), hx(&secp::be32(&w.s))));
                            }
                            if !secp::verify(q, &z_of(&digest), &r, &s_) {
                                acc.violate("C05/Transaction::sign_with_k/kind=signature-does-not-verify", case.idx, case.json(input.clone()), "reference verifier rejects it under the signer's key");
                            }
                            if !ok {
                                acc.violate("C05/Transaction::verify/kind=rejects-own-signature", case.idx, case.json(input), "Transaction::verify rejects the signature just made");
                            }
                        }
                        (None, _) => acc.violate("C05/Transaction::sign_with_k/kind=not-der", case.idx, case.json(input), hx(&sigbytes)),
                        (Some(_), None) => {}
                    }
                }
                Ok(Err(_)) => acc.outcome(b"refused"),
                Err(p) => acc.violate(format!("C05/Transaction::sign_with_k/kind=panic@{}", panic_site(&p)), case.idx, case.json(input), p),
            }
        }));
    }
    // 7. chosen s: boundary values of the INTERMEDIATE quantity s are reached by solving d = (s*k - z) / r for the private key
    //    (s = 2^j, (n-1)/2 - 2^j, (n-1)/2 - (2^j - 1) for every j, and the ends of the low-S range); the library must
    //    produce exactly (r, s) with that key and nonce and every library verifier must accept it
    {
        let n = secp::n();
        let half = secp::half_n();
        let mut targets: Vec<BigUint> = vec![BigUint::from(1u32), BigUint::from(2u32), half.clone(), &half - 1u32];
        for j in 0..=255u32 {
            let pw = BigUint::from(1u32) << j;
            if pw <= half {
                targets.push(pw.clone());
                targets.push(&half - &pw);
                targets.push(&half - (&pw - 1u32));
            }
        }
        let targets = Arc::new(targets);
        let nt = targets.len() as u64;
        v.push(Space::new("chosen-s", nt * 2 * 2 * 2, move |case, acc| {
            let c = coords(case.idx, &[nt, 2, 2, 2]);
            let s_target = &targets[c[0] as usize];
            let k = if c[1] == 0 { BigUint::from(2u32) } else { secp::from_be(&hex::decode("c0ffee254729296a45a3885639ac7e10f9d54979a0f5b2d1e8b1c4a7d3f6e5b9").unwrap()) };
            let hash = c[2];
            let compressed = c[3] == 0;
            let msg = b"chosen-s".to_vec();
            let digest = digest_of(hash, &msg);
            let z = z_of(&digest) % &n;
            let r = match secp::mul_g(&k) {
                Point::Affine { x, .. } => x % &n,
                _ => return,
            };
            let rinv = r.modpow(&(&n - 2u32), &n);
            let d = ((s_target * &k + &n - &z) % &n) * rinv % &n;
            if d == BigUint::from(0u32) {
                return;
            }
            acc.evaluations += 1;
            acc.transitions += 1;
            let q = secp::mul_g(&d);
            let input = json!({"key": hx(&secp::be32(&d)), "nonce": hx(&secp::be32(&k)), "compressed": compressed, "msg": hx(&msg), "hash": hash, "s_target": hx(&secp::be32(s_target))});
            match guard(|| ECDSA::sign_with_k(&lib_key(&d, compressed), &lib_key(&k, true), &msg, signing_hash(hash))) {
                Ok(Ok(sig)) => check_signature(acc, case, "sign_with_k", &input, &sig, &q, &d, compressed, Some((&msg, hash)), &digest, Some((r, s_target.clone()))),
                Ok(Err(e)) => acc.violate("C05/sign_with_k/kind=spurious-error", case.idx, case.json(input), e.to_string()),
                Err(p) => acc.violate(format!("C05/sign_with_k/kind=panic@{}", panic_site(&p)), case.idx, case.json(input), p),
            }
        }));
    }
    // 8. ECDH where the shared point's x coordinate lies in [n, p): the peer key is constructed as a^-1 * T for the first
    //    curve points T with x >= n (counting up from n) and the last ones below p
    {
        let (n, pp) = (secp::n(), secp::p());
        let mut xs: Vec<(BigUint, BigUint)> = vec![];
        let mut x = n.clone();
        while xs.len() < 6 {
            if let Some(y) = secp::lift_x(&x, false) {
                xs.push((x.clone(), y));
            }
            x += 1u32;
        }
        let mut x = &pp - 1u32;
        while xs.len() < 12 {
            if let Some(y) = secp::lift_x(&x, true) {
                xs.push((x.clone(), y));
            }
            x -= 1u32;
        }
        let xs = Arc::new(xs);
        let kt = kt.clone();
        v.push(Space::new("ecdh-x-above-n", 12 * 3 * 2, move |case, acc| {
            let c = coords(case.idx, &[12, 3, 2]);
            let (x, y) = &xs[c[0] as usize];
            let a = &kt.d[[1usize, 3, 8][c[1] as usize] % kt.d.len()];
            let compressed = c[2] == 0;
            let ainv = a.modpow(&(&n - 2u32), &n);
            let b = secp::mul(&ainv, &Point::Affine { x: x.clone(), y: y.clone() });
            let enc = secp::encode_point(&b, compressed);
            acc.evaluations += 1;
            acc.transitions += 1;
            acc.traces += 1;
            acc.nontrivial_structural += 1;
            let input = json!({"a": hx(&secp::be32(a)), "peer_public_key": hx(&enc), "expected_shared_x": hx(&secp::be32(x))});
            match guard(|| ECDH::derive_shared_key(&lib_key(a, true), &PublicKey::from_bytes(&enc)?)) {
                Ok(Ok(ab)) => {
                    acc.outcome(&ab[..2]);
                    if ab != secp::be32(x).to_vec() {
                        acc.violate("C05/derive_shared_key/kind=differs-from-reference-point", case.idx, case.json(input), format!("library={} reference x={}", hx(&ab), hx(&secp::be32(x))));
                    }
                }
                Ok(Err(e)) => acc.violate("C05/derive_shared_key/kind=spurious-error", case.idx, case.json(input), e.to_string()),
                Err(p) => acc.violate(format!("C05/derive_shared_key/kind=panic@{}", panic_site(&p)), case.idx, case.json(input), p),
            }
        }));
    }
    v
}

fn run(ctx: &Ctx) -> Report {
    let mut r = Report::new(
        "full products: key alphabet (edges of [1,n-1] and ordinary keys) x compression x 13 message lengths x 3 patterns x {SHA-256, SHA-256d} x nonce byte-order mode for deterministic signing (compared bit for bit with reference RFC 6979 + low-S, reproducibility, and verified by the reference verifier and by every library verifier with the key in both SEC1 forms); key x digest alphabet for pre-hashed signing; key x nonce x message x hash for caller nonces (both R.y parities and both raw-s halves counted); key x entropy alphabet (through the entropy seam) x hash x mode for randomised nonces; negative leg decided by the reference verifier (every single-bit flip of a 2-byte message, longer message, other hash, every other key); ECDH for every ordered key pair. Non-trivial = a signature/secret was produced and compared; distinct by construction.",
    );
    r.bounds = json!({"keys": key_alphabet(ctx.tier).iter().map(|k| hex::encode(secp::be32(k))).collect::<Vec<_>>(), "msg_lens": MSG_LENS, "digests": DIGESTS, "entropy": ENTROPY});
    r.assumptions.push("nonce byte-order mode true is modelled as RFC 6979 with h1 = byte-reversed digest reduced mod n, message scalar always the big-endian digest".into());
    run_spaces(ctx, &mut r, spaces(ctx.tier));
    r
}

fn replay(case: &Value) -> Vec<(String, String)> {
    replay_spaces(spaces, case)
}

#[allow(dead_code)]
fn unused(_: H) {}
