//! C08 — BIP32 master generation, hardened/normal private derivation, public
//! derivation, fingerprints, depths and the Base58Check xprv/xpub strings equal
//! an independent BIP32 implementation (refs::b58 on refs::secp / refs::hashes);
//! corrupted extended-key strings are rejected.
//!
//! Derivation is checked in lockstep: the expected child of an edge is the
//! reference's child of the *library's own* parent (the memoised reference tree
//! when the library's parent equals the reference parent, otherwise recomputed
//! from the library's parent), so one wrong edge is reported where it is the
//! final edge and does not contaminate its descendants.
use super::{hx, pattern, replay_spaces_for, run_spaces_for, Case, Prop, Space};
use crate::engine::{coords, guard, panic_site, Acc, Ctx, Report, Tier};
use crate::refs::b58::{self, XKey};
use crate::refs::{hashes, secp};
use bsv::{ExtendedPrivateKey as XPrv, ExtendedPublicKey as XPub};
use serde_json::{json, Value};
use std::sync::{Arc, OnceLock};

pub const PROP: Prop = Prop {
    run,
    replay,
    spaces: Some(spaces),
    level_note: "trusted base: refs::b58 BIP32 (master, CKDpriv, CKDpub, neuter, strict 78-byte Base58Check (de)serialisation; bound to BIP32 test vectors 1-4 by selftest) over refs::secp and refs::hashes; CKDpub(N(parent)) == N(CKDpriv(parent)) is asserted inside the reference for every normal edge (a disagreement is a machinery error). Key material outside the stated seed/index alphabets is not covered",
};

const H: u32 = 0x8000_0000;
/// child index alphabet, both sides of 2^31
const IDX: [u32; 8] = [0, 1, 2, 0x7fff_fffe, 0x7fff_ffff, 0x8000_0000, 0x8000_0001, 0xffff_ffff];
const NORMAL: [u32; 5] = [0, 1, 2, 0x7fff_fffe, 0x7fff_ffff];
const HARD: [u32; 3] = [0x8000_0000, 0x8000_0001, 0xffff_ffff];
const STD_LENS: [usize; 3] = [16, 32, 64];
const NONSTD_LENS: [usize; 6] = [1, 15, 17, 65, 128, 255];
/// positions in IDX used (on all three levels) by the reduced depth-3 set of the quick tier
const D3_QUICK: [usize; 4] = [0, 4, 5, 7];
const B58: &[u8; 58] = b"123456789ABCDEFGHJKLMNPQRSTUVWXYZabcdefghijkmnopqrstuvwxyz";
/// quick tier: 16 xor masks applied to a payload byte (every mask != 0, so the byte always changes)
const XOR16: [u8; 16] = [0x01, 0x02, 0x04, 0x08, 0x10, 0x20, 0x40, 0x80, 0xff, 0x0f, 0xf0, 0x55, 0xaa, 0x03, 0xc0, 0x81];
const NODES_PER_SEED: usize = 1 + 8 + 64 + 512;

// ------------------------------------------------------------------ seeds

struct SeedSpec {
    name: String,
    bytes: Vec<u8>,
    /// BIP32: 128..512 bits
    standard: bool,
}

fn seeds() -> Vec<SeedSpec> {
    let mut v = vec![];
    let vectors = [
        ("bip32-tv1", "000102030405060708090a0b0c0d0e0f"),
        ("bip32-tv2", "fffcf9f6f3f0edeae7e4e1dedbd8d5d2cfccc9c6c3c0bdbab7b4b1aeaba8a5a29f9c999693908d8a8784817e7b7875726f6c696663605d5a5754514e4b484542"),
        ("bip32-tv3", "4b381541583be4423346c643850da4b320e46a87ae3d2a4e6da11eba819cd4acba45d239319ac14f863b8d5ab5a0d0c64d2e8a1e7d1457df2e5a3c51c73235be"),
        ("bip32-tv4", "3ddd5602285899a946114506157c7997e5444528f3003f6134712147db19b678"),
    ];
    for (n, h) in vectors {
        v.push(SeedSpec { name: n.into(), bytes: hex::decode(h).unwrap(), standard: true });
    }
    for len in STD_LENS {
        for p in 0..3u64 {
            v.push(SeedSpec { name: format!("len{}/pattern{}", len, p), bytes: pattern(p, len), standard: true });
        }
    }
    for len in NONSTD_LENS {
        for p in 0..3u64 {
            v.push(SeedSpec { name: format!("len{}/pattern{}", len, p), bytes: pattern(p, len), standard: false });
        }
    }
    v
}

// ------------------------------------------------------------------ seed content alphabet

/// BIP32 feeds the seed BYTES to HMAC-SHA512 exactly as given. The binary seeds above vary
/// length × fill pattern only; this alphabet varies what the bytes LOOK like: a library that
/// "helpfully" hex/base58/base64-decodes, trims, NUL-terminates, normalises or re-derives a
/// text-looking seed silently opens a different wallet.
#[derive(Clone, Copy)]
enum Pos {
    First,
    Middle,
    Last,
}

struct ContentClass {
    name: &'static str,
    prefix: &'static [u8],
    /// repeated cyclically up to the requested length
    fill: &'static [u8],
    /// bytes overwritten after filling
    patch: &'static [(Pos, u8)],
}

const HEXL: &[u8] = b"0123456789abcdef";
const WORDS: &[u8] = b"abandon ability able about above absent absorb abstract absurd abuse access accident ";
const CONTENT: [ContentClass; 24] = [
    ContentClass { name: "hex-lower", prefix: b"", fill: HEXL, patch: &[] },
    ContentClass { name: "hex-upper", prefix: b"", fill: b"0123456789ABCDEF", patch: &[] },
    ContentClass { name: "hex-mixed-case", prefix: b"", fill: b"0aA1bB2cC3dD4eE5fF6789", patch: &[] },
    ContentClass { name: "hex-letters-lower", prefix: b"", fill: b"deadbeefcafebabe", patch: &[] },
    ContentClass { name: "hex-letters-upper", prefix: b"", fill: b"DEADBEEFCAFEBABE", patch: &[] },
    ContentClass { name: "decimal-digits", prefix: b"", fill: b"1234567890", patch: &[] },
    ContentClass { name: "all-0x30", prefix: b"", fill: b"0", patch: &[] },
    ContentClass { name: "all-f", prefix: b"", fill: b"f", patch: &[] },
    ContentClass { name: "all-F", prefix: b"", fill: b"F", patch: &[] },
    ContentClass { name: "hex-0x-prefix", prefix: b"0x", fill: HEXL, patch: &[] },
    ContentClass { name: "hex-trailing-newline", prefix: b"", fill: HEXL, patch: &[(Pos::Last, b'\n')] },
    ContentClass { name: "hex-space-padded", prefix: b"", fill: HEXL, patch: &[(Pos::First, b' '), (Pos::Last, b' ')] },
    ContentClass { name: "hex-one-non-hex-char", prefix: b"", fill: HEXL, patch: &[(Pos::Middle, b'g')] },
    ContentClass { name: "hex-embedded-nul", prefix: b"", fill: HEXL, patch: &[(Pos::Middle, 0)] },
    ContentClass { name: "hex-trailing-nul", prefix: b"", fill: HEXL, patch: &[(Pos::Last, 0)] },
    ContentClass { name: "base58-text", prefix: b"", fill: B58, patch: &[] },
    ContentClass { name: "base64-text", prefix: b"", fill: b"ABCDEFGHIJKLMNOPQRSTUVWXYZabcdefghijklmnopqrstuvwxyz0123456789+/", patch: &[] },
    ContentClass { name: "xprv-string-text", prefix: b"", fill: b"xprv9s21ZrQH143K3QTDL4LXw2F7HEK3wJUD2nW2nRk4stbPy6cq3jPPqjiChkVvvNKmPGJxWUtg6LnF5kejMRNNU3TGtRBeJgk33yuGBxrMPHi", patch: &[] },
    ContentClass { name: "mnemonic-words", prefix: b"", fill: WORDS, patch: &[] },
    ContentClass { name: "mnemonic-embedded-nul", prefix: b"", fill: WORDS, patch: &[(Pos::Middle, 0)] },
    ContentClass { name: "utf8-japanese-words", prefix: b"", fill: "あいこくしん\u{3000}あいさつ\u{3000}あいだ\u{3000}".as_bytes(), patch: &[] },
    ContentClass { name: "utf8-latin-precomposed", prefix: b"", fill: "café naïve résumé Ångström ".as_bytes(), patch: &[] },
    ContentClass { name: "all-spaces", prefix: b"", fill: b" ", patch: &[] },
    ContentClass { name: "printable-ascii", prefix: b"", fill: b"!\"#$%&'()*+,-./:;<=>?@[\\]^_`{|}~ghijklmnopqrstuvwxyzGHIJKLMNOPQRSTUVWXYZ", patch: &[] },
];
/// quick: both sides of the standard range and of 32/64/128; thorough: every length 1..=264
const CONTENT_LENS_QUICK: [usize; 8] = [16, 31, 32, 33, 64, 65, 128, 130];

fn content_lens(tier: Tier) -> Vec<usize> {
    if tier.is_thorough() {
        (1..=264).collect()
    } else {
        CONTENT_LENS_QUICK.to_vec()
    }
}

fn content_seed(c: &ContentClass, len: usize) -> Vec<u8> {
    let mut v: Vec<u8> = c.prefix.iter().copied().chain(c.fill.iter().copied().cycle()).take(len).collect();
    for (pos, b) in c.patch {
        let at = match pos {
            Pos::First => 0,
            Pos::Middle => len / 2,
            Pos::Last => len - 1,
        };
        v[at] = *b;
    }
    v
}

/// case index -> seed of the "seed-content" space: classes × lengths, then the lower- and
/// upper-case hex TEXT of every binary seed of the "master" space.
fn content_case(tree: &Tree, lens: &[usize], idx: u64) -> SeedSpec {
    let grid = (CONTENT.len() * lens.len()) as u64;
    let bytes_name = if idx < grid {
        let c = coords(idx, &[lens.len() as u64, CONTENT.len() as u64]);
        let (class, len) = (&CONTENT[c[1] as usize], lens[c[0] as usize]);
        (content_seed(class, len), format!("{}/len{}", class.name, len))
    } else {
        let c = coords(idx - grid, &[2, tree.seeds.len() as u64]);
        let base = &tree.seeds[c[1] as usize];
        let text = if c[0] == 0 { hx(&base.bytes) } else { hx(&base.bytes).to_uppercase() };
        (text.into_bytes(), format!("hex-text-{}-of/{}", if c[0] == 0 { "lower" } else { "upper" }, base.name))
    };
    let standard = (16..=64).contains(&bytes_name.0.len());
    SeedSpec { name: bytes_name.1, bytes: bytes_name.0, standard }
}

fn eval_content(tree: &Tree, lens: &[usize], case: &Case, acc: &mut Acc) {
    let seed = content_case(tree, lens, case.idx);
    if case.idx == 2 {
        acc.sample(2, || json!({"space": "seed-content", "seed_name": seed.name, "seed_len": seed.bytes.len(), "seed_as_text": String::from_utf8_lossy(&seed.bytes)}));
    }
    let want = b58::bip32_master(&seed.bytes).map(|x| {
        let p = b58::bip32_neuter(&x);
        RefNode { x, p }
    });
    eval_master_seed(&seed, want.as_ref(), case, acc);
}

// ------------------------------------------------------------------ memoised reference tree

#[derive(Clone)]
struct RefNode {
    x: XKey,
    /// N(x)
    p: XKey,
}

/// Reference child of a reference (or library-supplied) parent. None when BIP32
/// declares the child invalid (IL >= n, zero key) or the depth cannot be represented.
/// For a normal index the public route is computed as well and must agree.
fn derive_node(parent: &RefNode, index: u32) -> Option<RefNode> {
    let x = b58::bip32_ckd_priv(&parent.x, index)?;
    let p = b58::bip32_neuter(&x);
    if index < H {
        let via_pub = b58::bip32_ckd_pub(&parent.p, index);
        // reference self-consistency; a failure here is a machinery error (worker panic -> exit 2)
        assert!(via_pub.as_ref() == Some(&p), "refs::b58: CKDpub(N(parent)) != N(CKDpriv(parent))");
    } else {
        assert!(b58::bip32_ckd_pub(&parent.p, index).is_none(), "refs::b58: hardened CKDpub accepted");
    }
    Some(RefNode { x, p })
}

fn local_id(path: &[usize]) -> usize {
    match path.len() {
        0 => 0,
        1 => 1 + path[0],
        2 => 9 + path[0] * 8 + path[1],
        3 => 73 + (path[0] * 8 + path[1]) * 8 + path[2],
        _ => unreachable!(),
    }
}

struct Tree {
    seeds: Vec<SeedSpec>,
    cells: Vec<OnceLock<Option<RefNode>>>,
    bases: OnceLock<Vec<Base>>,
}

impl Tree {
    fn new() -> Tree {
        let seeds = seeds();
        let n = seeds.len() * NODES_PER_SEED;
        Tree { seeds, cells: (0..n).map(|_| OnceLock::new()).collect(), bases: OnceLock::new() }
    }
    /// Each edge is derived once per process; children find their parent memoised.
    fn node(&self, seed: usize, path: &[usize]) -> Option<&RefNode> {
        let id = seed * NODES_PER_SEED + local_id(path);
        self.cells[id]
            .get_or_init(|| {
                if path.is_empty() {
                    let x = b58::bip32_master(&self.seeds[seed].bytes)?;
                    let p = b58::bip32_neuter(&x);
                    Some(RefNode { x, p })
                } else {
                    let parent = self.node(seed, &path[..path.len() - 1])?;
                    derive_node(parent, IDX[path[path.len() - 1]])
                }
            })
            .as_ref()
    }
    fn seed_named(&self, name: &str) -> usize {
        self.seeds.iter().position(|s| s.name == name).expect("seed name")
    }
    /// Valid extended keys whose strings are corrupted.
    fn bases(&self) -> &Vec<Base> {
        self.bases.get_or_init(|| {
            let picks: [(&str, &[usize]); 4] = [("bip32-tv1", &[]), ("bip32-tv2", &[0, 7, 1]), ("bip32-tv3", &[5]), ("len32/pattern2", &[4, 6])];
            picks
                .iter()
                .map(|(name, path)| {
                    let n = self.node(self.seed_named(name), path).expect("base key").clone();
                    let idxs: Vec<u32> = path.iter().map(|p| IDX[*p]).collect();
                    let b = Base { desc: format!("{} {}", name, path_string(&idxs, &uniform(&idxs, 0))), xs: b58::bip32_serialize(&n.x), ps: b58::bip32_serialize(&n.p), x: n.x, p: n.p };
                    assert!(b.xs.len() == 111 && b.ps.len() == 111, "extended key strings are 111 characters");
                    b
                })
                .collect()
        })
    }
}

struct Base {
    desc: String,
    x: XKey,
    p: XKey,
    xs: String,
    ps: String,
}

// ------------------------------------------------------------------ path strings

const SUFFIX: [&str; 3] = ["'", "h", "H"];
const SUFFIX_NAME: [&str; 3] = ["apostrophe", "h", "H"];

fn uniform(idxs: &[u32], s: usize) -> Vec<usize> {
    vec![s; idxs.iter().filter(|i| **i >= H).count()]
}

/// "m/a/b'/c": hardened components are written as (index - 2^31) followed by the
/// suffix chosen for that component (`sfx[k]` for the k-th hardened component).
fn path_string(idxs: &[u32], sfx: &[usize]) -> String {
    let mut s = String::from("m");
    let mut k = 0;
    for i in idxs {
        s.push('/');
        if *i >= H {
            s.push_str(&(*i - H).to_string());
            s.push_str(SUFFIX[sfx[k]]);
            k += 1;
        } else {
            s.push_str(&i.to_string());
        }
    }
    s
}

/// Notation variants of one path: (class name used in violation keys, string).
/// thorough: every assignment of {', h, H} to the hardened components;
/// quick: the three uniform ones and one mixed (', h, H by position).
fn notations(idxs: &[u32], tier: Tier) -> Vec<(&'static str, String)> {
    let k = idxs.iter().filter(|i| **i >= H).count();
    if k == 0 {
        return vec![("plain", path_string(idxs, &[]))];
    }
    let mut out = vec![];
    if tier.is_thorough() {
        let n = 3usize.pow(k as u32);
        for a in 0..n {
            let mut sfx = vec![0usize; k];
            let mut t = a;
            for s in sfx.iter_mut() {
                *s = t % 3;
                t /= 3;
            }
            let name = if sfx.iter().all(|s| *s == sfx[0]) { SUFFIX_NAME[sfx[0]] } else { "mixed" };
            out.push((name, path_string(idxs, &sfx)));
        }
    } else {
        for s in 0..3 {
            out.push((SUFFIX_NAME[s], path_string(idxs, &uniform(idxs, s))));
        }
        if k >= 2 {
            let sfx: Vec<usize> = (0..k).map(|j| j % 3).collect();
            out.push(("mixed", path_string(idxs, &sfx)));
        }
    }
    out
}

// ------------------------------------------------------------------ library snapshots

#[derive(Clone, PartialEq)]
struct Snap {
    is_priv: bool,
    /// 32-byte secret (xprv) or the serialised public key (xpub)
    key: Vec<u8>,
    pubkey: Vec<u8>,
    chain: Vec<u8>,
    depth: u8,
    index: u32,
    fp: Vec<u8>,
    s: Result<String, String>,
}

impl std::fmt::Debug for Snap {
    fn fmt(&self, f: &mut std::fmt::Formatter<'_>) -> std::fmt::Result {
        write!(f, "{}{{key={} public_key={} chain_code={} depth={} index={} parent_fingerprint={} string={:?}}}", kind_name(self.is_priv), hx(&self.key), hx(&self.pubkey), hx(&self.chain), self.depth, self.index, hx(&self.fp), self.s)
    }
}

fn snap_xprv(k: &XPrv) -> Snap {
    Snap {
        is_priv: true,
        key: k.get_private_key().to_bytes(),
        pubkey: k.get_public_key().to_bytes().unwrap_or_default(),
        chain: k.get_chain_code(),
        depth: k.get_depth(),
        index: k.get_index(),
        fp: k.get_parent_fingerprint(),
        s: k.to_string().map_err(|e| e.to_string()),
    }
}

fn snap_xpub(k: &XPub) -> Snap {
    let pk = k.get_public_key().to_bytes().unwrap_or_default();
    Snap {
        is_priv: false,
        key: pk.clone(),
        pubkey: pk,
        chain: k.get_chain_code(),
        depth: k.get_depth(),
        index: k.get_index(),
        fp: k.get_parent_fingerprint(),
        s: k.to_string().map_err(|e| e.to_string()),
    }
}

fn kind_name(is_priv: bool) -> &'static str {
    if is_priv {
        "xprv"
    } else {
        "xpub"
    }
}

/// The library's state as a reference key (input of a lockstep reference step). None if it is not even well-shaped.
fn snap_to_xkey(s: &Snap) -> Option<XKey> {
    if s.chain.len() != 32 || s.fp.len() != 4 || s.key.len() != if s.is_priv { 32 } else { 33 } {
        return None;
    }
    let mut chain_code = [0u8; 32];
    chain_code.copy_from_slice(&s.chain);
    let mut parent_fp = [0u8; 4];
    parent_fp.copy_from_slice(&s.fp);
    Some(XKey { is_private: s.is_priv, version: if s.is_priv { b58::XPRV_VERSION } else { b58::XPUB_VERSION }, depth: s.depth, parent_fp, index: s.index, chain_code, key: s.key.clone() })
}

/// Fields (not the string) in which a library snapshot differs from a reference key.
fn diff(s: &Snap, want: &XKey, want_pub: Option<&[u8]>) -> Vec<(&'static str, String)> {
    let mut d = vec![];
    if s.key != want.key {
        d.push(("key", format!("key library={} reference={}", hx(&s.key), hx(&want.key))));
    }
    if let Some(wp) = want_pub {
        if s.pubkey != wp {
            d.push(("public_key", format!("public_key library={} reference={}", hx(&s.pubkey), hx(wp))));
        }
    }
    if s.chain != want.chain_code {
        d.push(("chain_code", format!("chain_code library={} reference={}", hx(&s.chain), hx(&want.chain_code))));
    }
    if s.depth != want.depth {
        d.push(("depth", format!("depth library={} reference={}", s.depth, want.depth)));
    }
    if s.index != want.index {
        d.push(("index", format!("index library={} reference={}", s.index, want.index)));
    }
    if s.fp != want.parent_fp {
        d.push(("parent_fingerprint", format!("parent_fingerprint library={} reference={}", hx(&s.fp), hx(&want.parent_fp))));
    }
    d
}

/// One model-vs-implementation comparison of an extended key: every field and the
/// string. `entry` names the library entry point that produced `s`, `suffix` is an
/// optional key discriminator ("/edge=hardened"). True when everything matches.
fn check_snap(acc: &mut Acc, case: &Case, entry: &str, suffix: &str, input: &Value, s: &Snap, want: &XKey, want_pub: Option<&[u8]>) -> bool {
    acc.traces += 1;
    let d = diff(s, want, want_pub);
    if let Some(first) = d.first() {
        let all: Vec<String> = d.iter().map(|x| x.1.clone()).collect();
        acc.violate(format!("C08/{}/kind=wrong-result/field={}{}", entry, first.0, suffix), case.idx, case.json(input.clone()), format!("after {}: {}", entry, all.join("; ")));
        return false;
    }
    let want_s = b58::bip32_serialize(want);
    match &s.s {
        Err(e) => {
            acc.violate(format!("C08/{}.to_string/kind=error", kind_name(s.is_priv)), case.idx, case.json(input.clone()), format!("fields equal the reference but to_string failed: {}", e));
            false
        }
        Ok(ls) if *ls != want_s => {
            acc.violate(format!("C08/{}.to_string/kind=wrong-result", kind_name(s.is_priv)), case.idx, case.json(input.clone()), format!("fields equal the reference; library string={} reference string={}", ls, want_s));
            false
        }
        Ok(_) => true,
    }
}

fn lib_from_string(is_priv: bool, s: &str) -> Result<Result<Snap, String>, String> {
    guard(|| {
        if is_priv {
            XPrv::from_string(s).map(|k| snap_xprv(&k)).map_err(|e| e.to_string())
        } else {
            XPub::from_string(s).map(|k| snap_xpub(&k)).map_err(|e| e.to_string())
        }
    })
}

/// A string the library itself produced (already equal to the reference string) must parse back to the same key.
fn check_roundtrip(acc: &mut Acc, case: &Case, input: &Value, s: &Snap) {
    let text = match &s.s {
        Ok(t) => t,
        Err(_) => return,
    };
    acc.transitions += 2;
    acc.traces += 1;
    let kind = kind_name(s.is_priv);
    match lib_from_string(s.is_priv, text) {
        Ok(Ok(back)) => {
            if back != *s {
                let field = if back.key != s.key {
                    "key"
                } else if back.chain != s.chain {
                    "chain_code"
                } else if back.depth != s.depth {
                    "depth"
                } else if back.index != s.index {
                    "index"
                } else if back.fp != s.fp {
                    "parent_fingerprint"
                } else if back.pubkey != s.pubkey {
                    "public_key"
                } else {
                    "string"
                };
                acc.violate(format!("C08/{}.from_string/kind=roundtrip-differs/field={}", kind, field), case.idx, case.json(input.clone()), format!("from_string({}) gave {:?}, expected {:?}", text, back, s));
            }
        }
        Ok(Err(e)) => acc.violate(format!("C08/{}.from_string/kind=spurious-error", kind), case.idx, case.json(input.clone()), format!("valid string {} rejected: {}", text, e)),
        Err(p) => acc.violate(format!("C08/{}.from_string/kind=panic@{}", kind, panic_site(&p)), case.idx, case.json(input.clone()), format!("valid string {}: {}", text, p)),
    }
}

fn edge(index: u32) -> &'static str {
    if index >= H {
        "/edge=hardened"
    } else {
        "/edge=normal"
    }
}

// ------------------------------------------------------------------ space: master

fn eval_master(tree: &Tree, case: &Case, acc: &mut Acc) {
    let si = case.idx as usize;
    let seed = &tree.seeds[si];
    if case.idx == 1 {
        acc.sample(0, || json!({"space": "master", "seed_name": seed.name, "seed_len": seed.bytes.len()}));
    }
    eval_master_seed(seed, tree.node(si, &[]), case, acc);
}

/// One seed through from_seed (both key kinds), string round trips and neutering; `want` is the reference master (None: BIP32 declares the seed invalid).
fn eval_master_seed(seed: &SeedSpec, want: Option<&RefNode>, case: &Case, acc: &mut Acc) {
    acc.evaluations += 1;
    let input = json!({"seed": hx(&seed.bytes), "seed_name": seed.name, "seed_len": seed.bytes.len()});
    acc.transitions += 1;
    let lib = guard(|| XPrv::from_seed(&seed.bytes).map_err(|e| e.to_string()));
    let k = match lib {
        Err(p) => {
            acc.outcome(b"panic");
            acc.violate(format!("C08/from_seed/kind=panic@{}", panic_site(&p)), case.idx, case.json(input), p);
            return;
        }
        Ok(Err(e)) => {
            acc.outcome(b"err");
            if want.is_none() {
                // BIP32: IL = 0 or >= n, seed invalid
                acc.traces += 1;
            } else if seed.standard {
                acc.traces += 1;
                acc.violate("C08/from_seed/kind=spurious-error", case.idx, case.json(input), format!("standard-length seed rejected: {}", e));
            } else {
                // acceptance of non-standard lengths is learned, not required
                acc.bump("nonstandard_seed_rejected_by_library", 1);
            }
            return;
        }
        Ok(Ok(k)) => k,
    };
    if !seed.standard {
        acc.bump("nonstandard_seed_accepted_by_library", 1);
    }
    let want = match want {
        Some(w) => w,
        None => {
            acc.traces += 1;
            acc.violate("C08/from_seed/kind=missing-error-invalid-master", case.idx, case.json(input), "reference: IL is 0 or >= n for this seed");
            return;
        }
    };
    let snap = snap_xprv(&k);
    acc.outcome(&snap.key[..snap.key.len().min(4)]);
    if !check_snap(acc, case, "from_seed", "", &input, &snap, &want.x, Some(&want.p.key)) {
        return;
    }
    acc.nontrivial_structural += 1;
    check_roundtrip(acc, case, &input, &snap);
    // neutering
    acc.transitions += 1;
    match guard(|| snap_xpub(&XPub::from_xpriv(&k))) {
        Ok(ps) => {
            if check_snap(acc, case, "xpub.from_xpriv", "", &input, &ps, &want.p, None) {
                check_roundtrip(acc, case, &input, &ps);
            }
        }
        Err(p) => acc.violate(format!("C08/xpub.from_xpriv/kind=panic@{}", panic_site(&p)), case.idx, case.json(input.clone()), p),
    }
    acc.transitions += 1;
    match guard(|| XPub::from_seed(&seed.bytes).map(|k| snap_xpub(&k)).map_err(|e| e.to_string())) {
        Ok(Ok(ps)) => {
            check_snap(acc, case, "xpub.from_seed", "", &input, &ps, &want.p, None);
        }
        Ok(Err(e)) => acc.violate("C08/xpub.from_seed/kind=spurious-error", case.idx, case.json(input.clone()), format!("ExtendedPrivateKey::from_seed accepted this seed, ExtendedPublicKey::from_seed: {}", e)),
        Err(p) => acc.violate(format!("C08/xpub.from_seed/kind=panic@{}", panic_site(&p)), case.idx, case.json(input.clone()), p),
    }
}

// ------------------------------------------------------------------ space: paths

/// case index -> (seed, path as positions in IDX); level by level so that parents are memoised first
fn decode_path(idx: u64, n_seeds: u64, d3: &[usize]) -> (usize, Vec<usize>) {
    let l1 = n_seeds * 8;
    let l2 = n_seeds * 64;
    if idx < l1 {
        let c = coords(idx, &[8, n_seeds]);
        (c[1] as usize, vec![c[0] as usize])
    } else if idx < l1 + l2 {
        let c = coords(idx - l1, &[8, 8, n_seeds]);
        (c[2] as usize, vec![c[0] as usize, c[1] as usize])
    } else {
        let n = d3.len() as u64;
        let c = coords(idx - l1 - l2, &[n, n, n, n_seeds]);
        (c[3] as usize, vec![d3[c[0] as usize], d3[c[1] as usize], d3[c[2] as usize]])
    }
}

fn eval_path(tree: &Tree, d3: &[usize], case: &Case, acc: &mut Acc) {
    let (si, path) = decode_path(case.idx, tree.seeds.len() as u64, d3);
    let seed = &tree.seeds[si];
    let idxs: Vec<u32> = path.iter().map(|p| IDX[*p]).collect();
    let n = idxs.len();
    let last = idxs[n - 1];
    acc.evaluations += 1;
    let canonical = path_string(&idxs, &uniform(&idxs, 0));
    let input = json!({"seed": hx(&seed.bytes), "seed_name": seed.name, "path": canonical, "indices": idxs});
    if n == 3 && si == 1 && path == [0, 7, 4] {
        acc.sample(1, || json!({"space": "paths", "seed_name": seed.name, "path": canonical, "indices": idxs, "notations": notations(&idxs, case.tier).iter().map(|x| x.1.clone()).collect::<Vec<_>>()}));
    }

    // library: master and the parent of the final edge
    acc.transitions += n as u64;
    let built = guard(|| -> Result<(XPrv, XPrv), String> {
        let master = XPrv::from_seed(&seed.bytes).map_err(|e| e.to_string())?;
        let mut k = XPrv::from_seed(&seed.bytes).map_err(|e| e.to_string())?;
        for i in &idxs[..n - 1] {
            k = k.derive(*i).map_err(|e| e.to_string())?;
        }
        Ok((master, k))
    });
    let (master, parent) = match built {
        Ok(Ok(v)) => v,
        _ => {
            // seed not accepted (learned) or an ancestor edge failed: reported where that edge is final
            acc.bump("paths_skipped_parent_unavailable", 1);
            acc.outcome(b"no-parent");
            return;
        }
    };
    let psnap = snap_xprv(&parent);

    // reference child of the library's own parent
    let ref_parent = tree.node(si, &path[..n - 1]);
    let in_step = ref_parent.map(|rp| diff(&psnap, &rp.x, Some(&rp.p.key)).is_empty()).unwrap_or(false);
    let want: Option<RefNode> = if in_step {
        tree.node(si, &path).cloned()
    } else {
        acc.bump("paths_parent_diverged_reference_recomputed", 1);
        match snap_to_xkey(&psnap) {
            Some(x) => {
                let p = b58::bip32_neuter(&x);
                derive_node(&RefNode { x, p }, last)
            }
            None => {
                acc.outcome(b"bad-parent");
                return;
            }
        }
    };

    // ---- private route, final edge
    acc.transitions += 1;
    let child = guard(|| parent.derive(last).map_err(|e| e.to_string()));
    let child = match (child, &want) {
        (Err(p), _) => {
            acc.outcome(b"panic");
            acc.traces += 1;
            acc.violate(format!("C08/derive/kind=panic@{}{}", panic_site(&p), edge(last)), case.idx, case.json(input), p);
            return;
        }
        (Ok(Err(_)), None) => {
            acc.outcome(b"err-both");
            acc.traces += 1;
            return;
        }
        (Ok(Err(e)), Some(_)) => {
            acc.outcome(b"err");
            acc.traces += 1;
            acc.violate(format!("C08/derive/kind=spurious-error{}", edge(last)), case.idx, case.json(input), format!("derive({}) on a parent at depth {}: {}", last, psnap.depth, e));
            return;
        }
        (Ok(Ok(c)), None) => {
            acc.traces += 1;
            acc.violate(format!("C08/derive/kind=missing-error-invalid-child{}", edge(last)), case.idx, case.json(input), format!("reference: child invalid (IL >= n or zero key); library returned depth {}", c.get_depth()));
            return;
        }
        (Ok(Ok(c)), Some(_)) => c,
    };
    let want = want.unwrap();
    let csnap = snap_xprv(&child);
    acc.outcome(&[csnap.key.first().copied().unwrap_or(0), csnap.key.get(1).copied().unwrap_or(0), csnap.depth, (last >> 31) as u8]);
    let child_ok = check_snap(acc, case, "derive", edge(last), &input, &csnap, &want.x, Some(&want.p.key));
    let mut neutered_ok: Option<Snap> = None;
    if child_ok {
        acc.nontrivial_structural += 1;
        check_roundtrip(acc, case, &input, &csnap);
        acc.transitions += 1;
        match guard(|| snap_xpub(&XPub::from_xpriv(&child))) {
            Ok(ps) => {
                if check_snap(acc, case, "xpub.from_xpriv", "", &input, &ps, &want.p, None) {
                    check_roundtrip(acc, case, &input, &ps);
                    neutered_ok = Some(ps);
                }
            }
            Err(p) => acc.violate(format!("C08/xpub.from_xpriv/kind=panic@{}", panic_site(&p)), case.idx, case.json(input.clone()), p),
        }
    } else {
        acc.bump("paths_path_route_skipped_final_edge_wrong", 1);
    }

    // ---- path-string route from the master, every notation; expected = the validated child
    let variants = notations(&idxs, case.tier);
    if child_ok {
        for (nname, text) in &variants {
            acc.transitions += 1;
            acc.traces += 1;
            let vin = json!({"seed": hx(&seed.bytes), "seed_name": seed.name, "path": text, "indices": idxs});
            match guard(|| master.derive_from_path(text).map(|k| snap_xprv(&k)).map_err(|e| e.to_string())) {
                Ok(Ok(s)) => {
                    if s != csnap {
                        acc.violate(format!("C08/derive_from_path/kind=wrong-result/notation={}", nname), case.idx, case.json(vin), format!("derive_from_path({:?}) = {:?}; iterated derive (equal to the reference) = {:?}", text, s, csnap));
                    }
                }
                Ok(Err(e)) => acc.violate(format!("C08/derive_from_path/kind=spurious-error/notation={}", nname), case.idx, case.json(vin), format!("derive_from_path({:?}): {}", text, e)),
                Err(p) => acc.violate(format!("C08/derive_from_path/kind=panic@{}", panic_site(&p)), case.idx, case.json(vin), p),
            }
        }
    }

    // ---- public route, final edge: library CKDpub on N(library parent)
    acc.transitions += 1;
    let pparent = match guard(|| XPub::from_xpriv(&parent)) {
        Ok(p) => p,
        Err(_) => return, // reported by the parent's own case
    };
    let ppsnap = snap_xpub(&pparent);
    let pub_want: Option<XKey> = if last >= H {
        None
    } else if in_step && ref_parent.map(|rp| diff(&ppsnap, &rp.p, None).is_empty()).unwrap_or(false) {
        // CKDpub(N(parent)) == N(CKDpriv(parent)) was asserted when the node was built
        Some(want.p.clone())
    } else {
        acc.bump("paths_public_parent_diverged_reference_recomputed", 1);
        snap_to_xkey(&ppsnap).and_then(|x| b58::bip32_ckd_pub(&x, last))
    };
    acc.transitions += 1;
    let pchild = guard(|| pparent.derive(last).map(|k| snap_xpub(&k)).map_err(|e| e.to_string()));
    match (pchild, &pub_want) {
        (Err(p), _) => {
            acc.traces += 1;
            acc.violate(format!("C08/xpub.derive/kind=panic@{}{}", panic_site(&p), edge(last)), case.idx, case.json(input.clone()), p);
        }
        (Ok(Err(_)), None) => {
            acc.traces += 1;
            if last >= H {
                acc.bump("hardened_public_derivation_refused", 1);
            }
        }
        (Ok(Ok(s)), None) => {
            acc.traces += 1;
            if last >= H {
                acc.violate("C08/xpub.derive/kind=missing-error-hardened", case.idx, case.json(input.clone()), format!("ExtendedPublicKey::derive({}) returned {:?}", last, s));
            } else {
                acc.violate("C08/xpub.derive/kind=missing-error-invalid-child", case.idx, case.json(input.clone()), format!("reference CKDpub refuses; library returned {:?}", s));
            }
        }
        (Ok(Err(e)), Some(_)) => {
            acc.traces += 1;
            acc.violate("C08/xpub.derive/kind=spurious-error", case.idx, case.json(input.clone()), format!("ExtendedPublicKey::derive({}): {}", last, e));
        }
        (Ok(Ok(s)), Some(w)) => {
            if check_snap(acc, case, "xpub.derive", "", &input, &s, w, None) {
                check_roundtrip(acc, case, &input, &s);
            }
        }
    }

    // ---- public path-string route from N(master)
    let any_hardened = idxs.iter().any(|i| *i >= H);
    if !any_hardened && neutered_ok.is_none() {
        return;
    }
    acc.transitions += 1;
    let pmaster = match guard(|| XPub::from_xpriv(&master)) {
        Ok(p) => p,
        Err(_) => return,
    };
    for (nname, text) in &variants {
        acc.transitions += 1;
        acc.traces += 1;
        let vin = json!({"seed": hx(&seed.bytes), "seed_name": seed.name, "path": text, "indices": idxs, "route": "public"});
        let r = guard(|| pmaster.derive_from_path(text).map(|k| snap_xpub(&k)).map_err(|e| e.to_string()));
        match r {
            Err(p) => acc.violate(format!("C08/xpub.derive_from_path/kind=panic@{}", panic_site(&p)), case.idx, case.json(vin), p),
            Ok(Ok(s)) => {
                if any_hardened {
                    acc.violate(format!("C08/xpub.derive_from_path/kind=missing-error-hardened/notation={}", nname), case.idx, case.json(vin), format!("public derive_from_path({:?}) returned {:?}", text, s));
                } else if Some(&s) != neutered_ok.as_ref() {
                    acc.violate(format!("C08/xpub.derive_from_path/kind=wrong-result/notation={}", nname), case.idx, case.json(vin), format!("public derive_from_path({:?}) = {:?}; N(private child) (equal to the reference) = {:?}", text, s, neutered_ok));
                }
            }
            Ok(Err(e)) => {
                if !any_hardened {
                    acc.violate(format!("C08/xpub.derive_from_path/kind=spurious-error/notation={}", nname), case.idx, case.json(vin), format!("public derive_from_path({:?}): {}", text, e));
                }
            }
        }
    }
}

// ------------------------------------------------------------------ chains (depth 10, 100, 255, 256)

#[derive(Clone, Copy, PartialEq)]
enum ChainKind {
    Cyclic,
    Normal,
    Hardened,
}

impl ChainKind {
    fn name(self) -> &'static str {
        match self {
            ChainKind::Cyclic => "cyclic-alphabet",
            ChainKind::Normal => "normal-only",
            ChainKind::Hardened => "hardened-only",
        }
    }
    fn indices(self, len: usize) -> Vec<u32> {
        (0..len)
            .map(|j| match self {
                ChainKind::Cyclic => IDX[j % 8],
                ChainKind::Normal => NORMAL[j % 5],
                ChainKind::Hardened => HARD[j % 3],
            })
            .collect()
    }
}

/// element j = reference key at depth j; None from the point on where the reference refuses
fn ref_chain(seed: &[u8], idxs: &[u32], with_pub: bool) -> Vec<Option<RefNode>> {
    let mut out: Vec<Option<RefNode>> = vec![];
    let mut cur = b58::bip32_master(seed).map(|x| {
        let p = b58::bip32_neuter(&x);
        RefNode { x, p }
    });
    out.push(cur.clone());
    for i in idxs {
        cur = match &cur {
            Some(c) => {
                if with_pub {
                    derive_node(c, *i)
                } else {
                    b58::bip32_ckd_priv(&c.x, *i).map(|x| {
                        let p = b58::bip32_neuter(&x);
                        RefNode { x, p }
                    })
                }
            }
            None => None,
        };
        out.push(cur.clone());
    }
    out
}

/// The reference refused step j+1 of a chain: the library must return Err.
/// `parent_depth` tells the two reasons apart: 255 -> 256 cannot be represented, otherwise an invalid child.
fn refused_step(acc: &mut Acc, case: &Case, entry: &str, input: &Value, parent_depth: u8, r: Result<Result<Snap, String>, String>) {
    acc.traces += 1;
    let overflow = parent_depth == 255;
    match r {
        Ok(Err(_)) => {
            acc.outcome(b"refused");
            if overflow {
                acc.bump("depth_256_refused_with_error", 1);
            }
        }
        Err(p) => {
            acc.outcome(b"panic");
            if overflow && p.contains("overflow") {
                acc.violate(format!("C08/{}/kind=panic-depth-overflow", entry), case.idx, case.json(input.clone()), format!("deriving a child of a key at depth 255: {}", p));
            } else {
                acc.violate(format!("C08/{}/kind=panic@{}", entry, panic_site(&p)), case.idx, case.json(input.clone()), p);
            }
        }
        Ok(Ok(s)) => {
            acc.outcome(b"accepted");
            if overflow {
                acc.violate(format!("C08/{}/kind=missing-error-depth-overflow", entry), case.idx, case.json(input.clone()), format!("deriving a child of a key at depth 255 returned a key with depth {} (string {:?})", s.depth, s.s));
            } else {
                acc.violate(format!("C08/{}/kind=missing-error-invalid-child", entry), case.idx, case.json(input.clone()), format!("reference refuses this child; library returned {:?}", s));
            }
        }
    }
}

const ROUTE_NAMES: [&str; 4] = ["private-steps", "private-path-string", "public-steps", "public-path-string"];

/// Run one route of one chain against the reference chain. Stops at the first divergence.
fn eval_chain_route(acc: &mut Acc, case: &Case, seed: &SeedSpec, kind: ChainKind, idxs: &[u32], chain: &[Option<RefNode>], route: usize) {
    let len = idxs.len();
    let master = match guard(|| XPrv::from_seed(&seed.bytes)) {
        Ok(Ok(k)) => k,
        _ => {
            acc.bump("chains_skipped_master_unavailable", 1);
            return;
        }
    };
    acc.transitions += 1;
    let all_normal = idxs.iter().all(|i| *i < H);
    match route {
        0 => {
            let mut cur = master;
            for (j, i) in idxs.iter().enumerate() {
                acc.transitions += 1;
                let r = guard(|| cur.derive(*i).map_err(|e| e.to_string()));
                let step_in = json!({"seed": hx(&seed.bytes), "seed_name": seed.name, "chain": kind.name(), "length": len, "route": ROUTE_NAMES[route], "step": j + 1, "index": i});
                match &chain[j + 1] {
                    None => {
                        let pd = chain[j].as_ref().map(|c| c.x.depth).unwrap_or(0);
                        refused_step(acc, case, "derive", &step_in, pd, r.map(|x| x.map(|k| snap_xprv(&k))));
                        return;
                    }
                    Some(w) => match r {
                        Ok(Ok(k)) => {
                            let s = snap_xprv(&k);
                            if !check_snap(acc, case, "derive", edge(*i), &step_in, &s, &w.x, Some(&w.p.key)) {
                                return;
                            }
                            acc.nontrivial_structural += 1;
                            if j + 1 == len {
                                acc.outcome(&[s.key[0], s.depth]);
                                check_roundtrip(acc, case, &step_in, &s);
                            }
                            cur = k;
                        }
                        Ok(Err(e)) => {
                            acc.traces += 1;
                            acc.violate(format!("C08/derive/kind=spurious-error{}", edge(*i)), case.idx, case.json(step_in), format!("derive({}) at depth {}: {}", i, j, e));
                            return;
                        }
                        Err(p) => {
                            acc.traces += 1;
                            acc.violate(format!("C08/derive/kind=panic@{}{}", panic_site(&p), edge(*i)), case.idx, case.json(step_in), p);
                            return;
                        }
                    },
                }
            }
        }
        1 => {
            // one call with a long path string, in each uniform notation
            for s in 0..3 {
                let text = path_string(idxs, &uniform(idxs, s));
                if s > 0 && all_normal {
                    break; // no hardened component: the three strings are identical
                }
                acc.transitions += 1;
                let r = guard(|| master.derive_from_path(&text).map(|k| snap_xprv(&k)).map_err(|e| e.to_string()));
                let vin = json!({"seed": hx(&seed.bytes), "seed_name": seed.name, "chain": kind.name(), "length": len, "route": ROUTE_NAMES[route], "notation": SUFFIX_NAME[s], "path": if text.len() > 120 { format!("{}…", &text[..120]) } else { text.clone() }});
                match &chain[len] {
                    None => {
                        // the first refused step decides the reason
                        let first_none = chain.iter().position(|c| c.is_none()).unwrap_or(len);
                        let pd = chain[first_none.saturating_sub(1)].as_ref().map(|c| c.x.depth).unwrap_or(0);
                        refused_step(acc, case, "derive", &vin, pd, r);
                    }
                    Some(w) => match r {
                        Ok(Ok(snap)) => {
                            acc.outcome(&[snap.key[0], snap.depth, 1]);
                            if check_snap(acc, case, "derive_from_path", &format!("/notation={}", if all_normal { "plain" } else { SUFFIX_NAME[s] }), &vin, &snap, &w.x, Some(&w.p.key)) {
                                acc.nontrivial_structural += 1;
                            }
                        }
                        Ok(Err(e)) => {
                            acc.traces += 1;
                            acc.violate(format!("C08/derive_from_path/kind=spurious-error/notation={}", if all_normal { "plain" } else { SUFFIX_NAME[s] }), case.idx, case.json(vin), e);
                        }
                        Err(p) => {
                            acc.traces += 1;
                            acc.violate(format!("C08/derive_from_path/kind=panic@{}", panic_site(&p)), case.idx, case.json(vin), p);
                        }
                    },
                }
            }
        }
        2 => {
            let mut cur = match guard(|| XPub::from_xpriv(&master)) {
                Ok(p) => p,
                Err(_) => return,
            };
            for (j, i) in idxs.iter().enumerate() {
                acc.transitions += 1;
                let r = guard(|| cur.derive(*i).map_err(|e| e.to_string()));
                let step_in = json!({"seed": hx(&seed.bytes), "seed_name": seed.name, "chain": kind.name(), "length": len, "route": ROUTE_NAMES[route], "step": j + 1, "index": i});
                if *i >= H {
                    acc.traces += 1;
                    match r {
                        Ok(Err(_)) => {
                            acc.outcome(b"hardened-refused");
                            acc.bump("hardened_public_derivation_refused", 1);
                        }
                        Ok(Ok(k)) => acc.violate("C08/xpub.derive/kind=missing-error-hardened", case.idx, case.json(step_in), format!("ExtendedPublicKey::derive({}) returned {:?}", i, snap_xpub(&k))),
                        Err(p) => acc.violate(format!("C08/xpub.derive/kind=panic@{}{}", panic_site(&p), edge(*i)), case.idx, case.json(step_in), p),
                    }
                    return;
                }
                match &chain[j + 1] {
                    None => {
                        let pd = chain[j].as_ref().map(|c| c.x.depth).unwrap_or(0);
                        refused_step(acc, case, "xpub.derive", &step_in, pd, r.map(|x| x.map(|k| snap_xpub(&k))));
                        return;
                    }
                    Some(w) => match r {
                        Ok(Ok(k)) => {
                            let s = snap_xpub(&k);
                            if !check_snap(acc, case, "xpub.derive", "", &step_in, &s, &w.p, None) {
                                return;
                            }
                            acc.nontrivial_structural += 1;
                            if j + 1 == len {
                                acc.outcome(&[s.key[1], s.depth, 2]);
                                check_roundtrip(acc, case, &step_in, &s);
                            }
                            cur = k;
                        }
                        Ok(Err(e)) => {
                            acc.traces += 1;
                            acc.violate("C08/xpub.derive/kind=spurious-error", case.idx, case.json(step_in), format!("ExtendedPublicKey::derive({}) at depth {}: {}", i, j, e));
                            return;
                        }
                        Err(p) => {
                            acc.traces += 1;
                            acc.violate(format!("C08/xpub.derive/kind=panic@{}{}", panic_site(&p), edge(*i)), case.idx, case.json(step_in), p);
                            return;
                        }
                    },
                }
            }
        }
        _ => {
            let pmaster = match guard(|| XPub::from_xpriv(&master)) {
                Ok(p) => p,
                Err(_) => return,
            };
            let text = path_string(idxs, &uniform(idxs, 0));
            acc.transitions += 1;
            let r = guard(|| pmaster.derive_from_path(&text).map(|k| snap_xpub(&k)).map_err(|e| e.to_string()));
            let vin = json!({"seed": hx(&seed.bytes), "seed_name": seed.name, "chain": kind.name(), "length": len, "route": ROUTE_NAMES[route], "path": if text.len() > 120 { format!("{}…", &text[..120]) } else { text.clone() }});
            if !all_normal {
                acc.traces += 1;
                match r {
                    Ok(Err(_)) => {
                        acc.outcome(b"hardened-refused");
                        acc.bump("hardened_public_derivation_refused", 1);
                    }
                    Ok(Ok(s)) => acc.violate("C08/xpub.derive_from_path/kind=missing-error-hardened/notation=apostrophe", case.idx, case.json(vin), format!("returned {:?}", s)),
                    Err(p) => acc.violate(format!("C08/xpub.derive_from_path/kind=panic@{}", panic_site(&p)), case.idx, case.json(vin), p),
                }
                return;
            }
            match &chain[len] {
                None => {
                    let first_none = chain.iter().position(|c| c.is_none()).unwrap_or(len);
                    let pd = chain[first_none.saturating_sub(1)].as_ref().map(|c| c.x.depth).unwrap_or(0);
                    refused_step(acc, case, "xpub.derive", &vin, pd, r);
                }
                Some(w) => match r {
                    Ok(Ok(snap)) => {
                        acc.outcome(&[snap.key[1], snap.depth, 3]);
                        if check_snap(acc, case, "xpub.derive_from_path", "/notation=plain", &vin, &snap, &w.p, None) {
                            acc.nontrivial_structural += 1;
                        }
                    }
                    Ok(Err(e)) => {
                        acc.traces += 1;
                        acc.violate("C08/xpub.derive_from_path/kind=spurious-error/notation=plain", case.idx, case.json(vin), e);
                    }
                    Err(p) => {
                        acc.traces += 1;
                        acc.violate(format!("C08/xpub.derive_from_path/kind=panic@{}", panic_site(&p)), case.idx, case.json(vin), p);
                    }
                },
            }
        }
    }
}

fn chain_seed_names(tier: Tier, deep: bool) -> Vec<&'static str> {
    let all = ["bip32-tv1", "len32/pattern2", "bip32-tv2", "bip32-tv3", "bip32-tv4", "len16/pattern1", "len64/pattern0"];
    let n = match (tier.is_thorough(), deep) {
        (false, false) => 3,
        (true, false) => 7,
        (false, true) => 2,
        (true, true) => 4,
    };
    all[..n].to_vec()
}

// ------------------------------------------------------------------ corrupted strings

/// First reason for which the strict reference decoder rejects the string.
fn reject_reason(s: &str) -> &'static str {
    let data = match b58::b58_decode(s) {
        Some(d) => d,
        None => return "base58",
    };
    if data.len() < 4 {
        return "length";
    }
    if b58::check_decode(s).is_none() {
        return "checksum";
    }
    if data.len() != 82 {
        return "length";
    }
    "field"
}

/// Oracle for one candidate string given to `ExtendedPrivateKey::from_string`
/// (is_priv) or `ExtendedPublicKey::from_string`. `base` is the uncorrupted key.
fn check_string(acc: &mut Acc, case: &Case, is_priv: bool, s: &str, base: &XKey, input: Value) {
    acc.evaluations += 1;
    acc.transitions += 1;
    acc.traces += 1;
    acc.nontrivial_structural += 1;
    let kind = kind_name(is_priv);
    let want = b58::bip32_deserialize(s);
    if let Some(w) = &want {
        if w.is_private != is_priv {
            // a valid key of the other kind: not a corruption, and the statement does not say what the wrong parser does
            acc.bump("corrupt_cross_kind_excluded", 1);
            acc.outcome(b"cross");
            return;
        }
    }
    let lib = lib_from_string(is_priv, s);
    match (want, lib) {
        (None, Err(_)) => {
            acc.outcome(b"rej-panic");
            acc.bump("panics_left_to_C09", 1);
        }
        (None, Ok(Err(_))) => {
            acc.outcome(b"rej");
            acc.bump("corrupt_rejected_by_library", 1);
        }
        (None, Ok(Ok(snap))) => {
            let d = diff(&snap, base, None);
            let reason = reject_reason(s);
            let (order, verdict) = if d.is_empty() {
                acc.bump("corrupt_accepted_same_key", 1);
                acc.outcome(b"acc-same");
                (case.idx + (1u64 << 40), "library returned the SAME key as the uncorrupted string".to_string())
            } else {
                acc.bump("corrupt_accepted_different_key", 1);
                acc.outcome(b"acc-diff");
                let all: Vec<String> = d.iter().map(|x| x.1.replace("reference=", "uncorrupted=")).collect();
                (case.idx, format!("library silently returned a DIFFERENT key: {}", all.join("; ")))
            };
            // different-key examples sort first so that the kept examples show the worse consequence
            acc.violate(format!("C08/{}.from_string/kind=missing-error/reject={}", kind, reason), order, case.json(input), format!("reference rejects ({}) the string {}; {}", reason, s, verdict));
        }
        (Some(w), Ok(Ok(snap))) => {
            acc.outcome(b"acc-valid");
            let d = diff(&snap, &w, None);
            if let Some(first) = d.first() {
                acc.violate(format!("C08/{}.from_string/kind=wrong-result/field={}", kind, first.0), case.idx, case.json(input), format!("valid string {}: {}", s, d.iter().map(|x| x.1.clone()).collect::<Vec<_>>().join("; ")));
            } else if snap.s.as_deref() != Ok(s) {
                acc.violate(format!("C08/{}.to_string/kind=roundtrip-differs", kind), case.idx, case.json(input), format!("from_string({}).to_string() = {:?}", s, snap.s));
            }
        }
        (Some(_), Ok(Err(e))) => {
            acc.outcome(b"rej-valid");
            acc.violate(format!("C08/{}.from_string/kind=spurious-error", kind), case.idx, case.json(input), format!("valid string {} rejected: {}", s, e));
        }
        (Some(_), Err(p)) => {
            acc.outcome(b"panic-valid");
            acc.violate(format!("C08/{}.from_string/kind=panic@{}", kind, panic_site(&p)), case.idx, case.json(input), format!("valid string {}: {}", s, p));
        }
    }
}

/// (payload length, filler) for the valid-checksum length space: truncations 74..77, exact 78, extensions 79..86 with two fillers
fn length_variants() -> Vec<(usize, u8)> {
    let mut v = vec![];
    for l in 74..=78usize {
        v.push((l, 0));
    }
    for l in 79..=86usize {
        v.push((l, 0x00));
        v.push((l, 0xff));
    }
    v
}

// ------------------------------------------------------------------ field grid (constructors, serialisation)

/// Extended keys assembled from parts with `ExtendedPrivateKey::new` / `ExtendedPublicKey::new`:
/// the header fields take values that derivation from a seed never (or with probability 2^-32)
/// produces — zero / extreme parent fingerprints with non-zero indices, depth 254/255 without a
/// 255-step chain, chain codes and keys with leading zero bytes.
struct GridKey {
    name: &'static str,
    sk: [u8; 32],
    /// reference public key, compressed
    pk: Vec<u8>,
}

struct Grid {
    depths: Vec<u8>,
    indices: Vec<u32>,
    /// None = the `parent_fingerprint: None` argument of `new` (parent unknown)
    fps: Vec<Option<[u8; 4]>>,
    keys: Vec<GridKey>,
    chains: Vec<(&'static str, [u8; 32])>,
}

impl Grid {
    fn dims(&self) -> [u64; 6] {
        [2, self.depths.len() as u64, self.indices.len() as u64, self.fps.len() as u64, self.keys.len() as u64, self.chains.len() as u64]
    }
    fn size(&self) -> u64 {
        self.dims().iter().product()
    }
}

fn arr32(h: &str) -> [u8; 32] {
    let mut a = [0u8; 32];
    a.copy_from_slice(&hex::decode(h).expect("hex"));
    a
}

fn grid(tier: Tier) -> Grid {
    let thorough = tier.is_thorough();
    let mut sks: Vec<(&'static str, [u8; 32])> = vec![
        ("one", arr32("0000000000000000000000000000000000000000000000000000000000000001")),
        ("n-1", arr32("fffffffffffffffffffffffffffffffebaaedce6af48a03bbfd25e8cd0364140")),
        ("bip32-tv1-master", arr32("e8f32e723decf4051aefac8e2c93c9c5b214313817cdb01a1494b917c8436b35")),
    ];
    let mut chains: Vec<(&'static str, [u8; 32])> = vec![
        ("all-zero", [0u8; 32]),
        ("leading-zero-bytes", arr32("000000000102030405060708090a0b0c0d0e0f101112131415161718191a1b1c")),
        ("all-ff", [0xffu8; 32]),
        ("bip32-tv1-master", arr32("873dff81c02f525623fd1fe5167eac3a55a049de3d314bb42ee227ffed37d508")),
    ];
    let mut depths: Vec<u8> = vec![0, 1, 2, 254, 255];
    let mut indices: Vec<u32> = vec![0, 1, 0x7fff_ffff, 0x8000_0000, 0xffff_ffff];
    if thorough {
        sks.push(("2^128", arr32("0000000000000000000000000000000100000000000000000000000000000000")));
        sks.push(("pattern-01..20", arr32("0102030405060708090a0b0c0d0e0f101112131415161718191a1b1c1d1e1f20")));
        chains.push(("trailing-zero-bytes", arr32("0102030405060708090a0b0c0d0e0f101112131415161718191a1b1c00000000")));
        depths = vec![0, 1, 2, 3, 127, 128, 254, 255];
        indices = IDX.to_vec();
        indices.extend_from_slice(&[0x0000_0100, 0x0100_0000]);
    }
    let keys: Vec<GridKey> = sks
        .into_iter()
        .map(|(name, sk)| {
            let k = secp::from_be(&sk);
            assert!(sk != [0u8; 32] && k < secp::n(), "grid key in [1, n-1]");
            GridKey { name, sk, pk: secp::encode_point(&secp::mul_g(&k), true) }
        })
        .collect();
    // a fingerprint as derivation produces it: hash160(public key)[0..4] of the tv1 master
    let real = hashes::hash160(&keys[2].pk);
    let mut fps: Vec<Option<[u8; 4]>> = vec![None, Some([0; 4]), Some([0, 0, 0, 1]), Some([1, 0, 0, 0]), Some([0xff; 4]), Some([real[0], real[1], real[2], real[3]])];
    if thorough {
        fps.push(Some([0, 0xff, 0, 0]));
        fps.push(Some([0x80, 0, 0, 0]));
    }
    Grid { depths, indices, fps, keys, chains }
}

enum LibKey {
    Prv(XPrv),
    Pub(XPub),
}

/// One child of a grid key against the reference child (`want`: None = the reference refuses).
fn check_child(acc: &mut Acc, case: &Case, entry: &str, index: u32, parent_depth: u8, input: &Value, r: Result<Result<Snap, String>, String>, want: Option<XKey>) {
    match want {
        None => refused_step(acc, case, entry, input, parent_depth, r),
        Some(w) => match r {
            Ok(Ok(s)) => {
                if check_snap(acc, case, entry, if entry == "derive" { edge(index) } else { "" }, input, &s, &w, None) {
                    acc.nontrivial_structural += 1;
                }
            }
            Ok(Err(e)) => {
                acc.traces += 1;
                let key = if entry == "derive" { format!("C08/derive/kind=spurious-error{}", edge(index)) } else { format!("C08/{}/kind=spurious-error", entry) };
                acc.violate(key, case.idx, case.json(input.clone()), format!("{}({}) on a parent at depth {}: {}", entry, index, parent_depth, e));
            }
            Err(p) => {
                acc.traces += 1;
                acc.violate(format!("C08/{}/kind=panic@{}{}", entry, panic_site(&p), edge(index)), case.idx, case.json(input.clone()), p);
            }
        },
    }
}

fn eval_grid(g: &Grid, case: &Case, acc: &mut Acc) {
    let c = coords(case.idx, &g.dims());
    let is_priv = c[0] == 0;
    let depth = g.depths[c[1] as usize];
    let index = g.indices[c[2] as usize];
    let fp_arg = g.fps[c[3] as usize];
    let key = &g.keys[c[4] as usize];
    let (chain_name, chain_code) = &g.chains[c[5] as usize];
    let kind = kind_name(is_priv);
    acc.evaluations += 1;

    // `new(.., None)` = parent unknown = four zero bytes (BIP32's own convention for "no parent")
    let parent_fp = fp_arg.unwrap_or([0; 4]);
    let want = XKey { is_private: is_priv, version: if is_priv { b58::XPRV_VERSION } else { b58::XPUB_VERSION }, depth, parent_fp, index, chain_code: *chain_code, key: if is_priv { key.sk.to_vec() } else { key.pk.clone() } };
    let want_s = b58::bip32_serialize(&want);
    // reference self-consistency (machinery error otherwise)
    assert!(b58::bip32_deserialize(&want_s).as_ref() == Some(&want), "refs::b58: deserialize(serialize(k)) != k");
    let fp_text = match fp_arg {
        None => "None".to_string(),
        Some(f) => format!("Some({})", hx(&f)),
    };
    let input = json!({"kind": kind, "depth": depth, "index": index, "parent_fingerprint_arg": fp_text, "key_name": key.name, "key": hx(&want.key), "chain_code_name": chain_name, "chain_code": hx(chain_code), "reference_string": want_s});
    if !is_priv && depth == 2 && index == H && fp_arg.is_none() && c[4] == 2 && c[5] == 1 {
        acc.sample(3, || json!({"space": "field-grid", "kind": kind, "depth": depth, "index": index, "parent_fingerprint_arg": fp_text, "key_name": key.name, "chain_code_name": chain_name, "reference_string": want_s}));
    }
    // BIP32 test vector 5 shape: depth 0 with a non-zero fingerprint or index. The reference does not
    // apply that rule, and the statement does not say whether from_string may: learned, not demanded.
    let odd_master = depth == 0 && (parent_fp != [0; 4] || index != 0);

    // ---- leg A: constructor, getters and to_string against the same fields serialised by the reference
    acc.transitions += 1;
    let built = guard(|| -> Result<LibKey, String> {
        let fp_opt: Option<&[u8]> = fp_arg.as_ref().map(|f| &f[..]);
        if is_priv {
            let sk = bsv::PrivateKey::from_bytes(&key.sk).map_err(|e| e.to_string())?;
            Ok(LibKey::Prv(XPrv::new(&sk, chain_code, &depth, &index, fp_opt)))
        } else {
            let pk = bsv::PublicKey::from_bytes(&key.pk).map_err(|e| e.to_string())?;
            Ok(LibKey::Pub(XPub::new(&pk, chain_code, &depth, &index, fp_opt)))
        }
    });
    let lib = match built {
        Ok(Ok(k)) => Some(k),
        Ok(Err(_)) => {
            // PrivateKey/PublicKey::from_bytes refusing a valid key belongs to another property
            acc.bump("grid_key_material_rejected_by_library", 1);
            None
        }
        Err(p) => {
            acc.traces += 1;
            acc.violate(format!("C08/{}.new/kind=panic@{}", kind, panic_site(&p)), case.idx, case.json(input.clone()), p);
            None
        }
    };
    let mut a_ok = false;
    if let Some(k) = &lib {
        acc.transitions += 1;
        let snap = guard(|| match k {
            LibKey::Prv(x) => snap_xprv(x),
            LibKey::Pub(x) => snap_xpub(x),
        });
        match snap {
            Ok(s) => a_ok = check_snap(acc, case, &format!("{}.new", kind), "", &input, &s, &want, if is_priv { Some(&key.pk) } else { None }),
            Err(p) => acc.violate(format!("C08/{}.to_string/kind=panic@{}", kind, panic_site(&p)), case.idx, case.json(input.clone()), p),
        }
    }

    // ---- leg B: the reference's string of these fields through from_string (independent of to_string)
    acc.transitions += 1;
    acc.traces += 1;
    let mut b_status = 0u8;
    match lib_from_string(is_priv, &want_s) {
        Ok(Ok(back)) => {
            if odd_master {
                acc.bump("grid_depth0_with_nonzero_fingerprint_or_index_accepted_by_from_string", 1);
            }
            let d = diff(&back, &want, if is_priv { Some(&key.pk) } else { None });
            if let Some(first) = d.first() {
                b_status = 1;
                acc.violate(format!("C08/{}.from_string/kind=wrong-result/field={}", kind, first.0), case.idx, case.json(input.clone()), format!("valid string {}: {}", want_s, d.iter().map(|x| x.1.clone()).collect::<Vec<_>>().join("; ")));
            } else if back.s.as_deref() != Ok(want_s.as_str()) {
                b_status = 2;
                acc.violate(format!("C08/{}.to_string/kind=roundtrip-differs", kind), case.idx, case.json(input.clone()), format!("from_string({}).to_string() = {:?}", want_s, back.s));
            } else {
                acc.nontrivial_structural += 1;
            }
        }
        Ok(Err(e)) => {
            b_status = 3;
            if odd_master {
                acc.bump("grid_depth0_with_nonzero_fingerprint_or_index_rejected_by_from_string", 1);
            } else {
                acc.violate(format!("C08/{}.from_string/kind=spurious-error", kind), case.idx, case.json(input.clone()), format!("valid string {} (depth {}, parent fingerprint {}, index {}) rejected: {}", want_s, depth, hx(&parent_fp), index, e));
            }
        }
        Err(p) => {
            b_status = 4;
            acc.violate(format!("C08/{}.from_string/kind=panic@{}", kind, panic_site(&p)), case.idx, case.json(input.clone()), format!("valid string {}: {}", want_s, p));
        }
    }
    acc.outcome(&[is_priv as u8, depth, a_ok as u8, b_status]);

    // ---- legs C, D need a faithfully constructed key
    let k = match (&lib, a_ok) {
        (Some(k), true) => k,
        _ => {
            acc.bump("grid_children_skipped_constructor_diverged", 1);
            return;
        }
    };
    match k {
        LibKey::Prv(x) => {
            // leg C: neutering keeps every header field
            acc.transitions += 1;
            let want_p = XKey { is_private: false, version: b58::XPUB_VERSION, key: key.pk.clone(), ..want.clone() };
            match guard(|| snap_xpub(&XPub::from_xpriv(x))) {
                Ok(ps) => {
                    check_snap(acc, case, "xpub.from_xpriv", "", &input, &ps, &want_p, None);
                }
                Err(p) => acc.violate(format!("C08/xpub.from_xpriv/kind=panic@{}", panic_site(&p)), case.idx, case.json(input.clone()), p),
            }
            // leg D: one normal and one hardened child (depth 255: the reference refuses, so must the library)
            for ci in [1u32, H] {
                acc.transitions += 1;
                let r = guard(|| x.derive(ci).map(|k| snap_xprv(&k)).map_err(|e| e.to_string()));
                let step_in = json!({"parent": input, "child_index": ci});
                check_child(acc, case, "derive", ci, depth, &step_in, r, b58::bip32_ckd_priv(&want, ci));
            }
        }
        LibKey::Pub(x) => {
            acc.transitions += 2;
            let r = guard(|| x.derive(1).map(|k| snap_xpub(&k)).map_err(|e| e.to_string()));
            let step_in = json!({"parent": input, "child_index": 1});
            check_child(acc, case, "xpub.derive", 1, depth, &step_in, r, b58::bip32_ckd_pub(&want, 1));
            acc.traces += 1;
            let step_in = json!({"parent": input, "child_index": H});
            match guard(|| x.derive(H).map(|k| snap_xpub(&k)).map_err(|e| e.to_string())) {
                Ok(Err(_)) => acc.bump("hardened_public_derivation_refused", 1),
                Ok(Ok(s)) => acc.violate("C08/xpub.derive/kind=missing-error-hardened", case.idx, case.json(step_in), format!("ExtendedPublicKey::derive({}) returned {:?}", H, s)),
                Err(p) => acc.violate(format!("C08/xpub.derive/kind=panic@{}{}", panic_site(&p), edge(H)), case.idx, case.json(step_in), p),
            }
        }
    }
}

/// Keys assembled with `new` from key material in its NON-default form (a private key flagged "uncompressed public key",
/// a public key object in uncompressed SEC1 form): BIP32 always serialises public keys compressed, so strings, fingerprints
/// and every descendant must equal the reference computed from the same scalar / point. Paths of depth up to 4.
fn eval_uncompressed_material(g: &Grid, case: &Case, acc: &mut Acc) {
    let nk = g.keys.len() as u64;
    let nc = g.chains.len() as u64;
    let paths: [&[u32]; 6] = [&[1], &[H], &[H, 1], &[1, 2], &[H, 1, H + 2, 2], &[0, H, 1]];
    let c = coords(case.idx, &[2, nk, nc, 2, paths.len() as u64]);
    let is_priv = c[0] == 0;
    let key = &g.keys[c[1] as usize];
    let (chain_name, chain_code) = &g.chains[c[2] as usize];
    let depth = c[3] as u8;
    let path = paths[c[4] as usize];
    acc.evaluations += 1;
    let root = XKey { is_private: is_priv, version: if is_priv { b58::XPRV_VERSION } else { b58::XPUB_VERSION }, depth, parent_fp: [0; 4], index: 0, chain_code: *chain_code, key: if is_priv { key.sk.to_vec() } else { key.pk.clone() } };
    let input = json!({"kind": kind_name(is_priv), "key_material": if is_priv { "PrivateKey with compress_public_key(false)" } else { "PublicKey::to_decompressed()" }, "key_name": key.name, "chain_code_name": chain_name, "depth": depth, "path": path, "reference_root": b58::bip32_serialize(&root)});
    acc.transitions += 1;
    let built = guard(|| -> Result<LibKey, String> {
        if is_priv {
            let sk = bsv::PrivateKey::from_bytes(&key.sk).map_err(|e| e.to_string())?.compress_public_key(false);
            Ok(LibKey::Prv(XPrv::new(&sk, chain_code, &depth, &0, None)))
        } else {
            let pk = bsv::PublicKey::from_bytes(&key.pk).map_err(|e| e.to_string())?.to_decompressed().map_err(|e| e.to_string())?;
            Ok(LibKey::Pub(XPub::new(&pk, chain_code, &depth, &0, None)))
        }
    });
    let lib = match built {
        Ok(Ok(k)) => k,
        Ok(Err(_)) => {
            acc.bump("grid_key_material_rejected_by_library", 1);
            return;
        }
        Err(p) => {
            acc.violate(format!("C08/{}.new/kind=panic@{}", kind_name(is_priv), panic_site(&p)), case.idx, case.json(input), p);
            return;
        }
    };
    acc.outcome(&[is_priv as u8, c[4] as u8]);
    match lib {
        LibKey::Prv(x) => {
            if let Ok(s) = guard(|| snap_xprv(&x)) {
                check_snap(acc, case, "xprv.new", "/key-material=uncompressed-flag", &input, &s, &root, Some(&key.pk));
            }
            let want_p = XKey { is_private: false, version: b58::XPUB_VERSION, key: key.pk.clone(), ..root.clone() };
            if let Ok(ps) = guard(|| snap_xpub(&XPub::from_xpriv(&x))) {
                check_snap(acc, case, "xpub.from_xpriv", "/key-material=uncompressed-flag", &input, &ps, &want_p, None);
            }
            let mut cur = x;
            let mut want = Some(root.clone());
            for (i, ci) in path.iter().enumerate() {
                acc.transitions += 1;
                let parent_depth = depth + i as u8;
                want = want.and_then(|w| b58::bip32_ckd_priv(&w, *ci));
                let next = guard(|| cur.derive(*ci).map_err(|e| e.to_string()));
                let snap = match &next {
                    Ok(Ok(k)) => guard(|| snap_xprv(k)).map(Ok),
                    Ok(Err(e)) => Ok(Err(e.clone())),
                    Err(p) => Err(p.clone()),
                };
                let step_in = json!({"root": input, "step": i, "child_index": ci});
                check_child(acc, case, "derive", *ci, parent_depth, &step_in, snap, want.clone());
                // public twin of the node just reached
                if let (Ok(Ok(k)), Some(w)) = (&next, &want) {
                    let wp = XKey { is_private: false, version: b58::XPUB_VERSION, key: secp::encode_point(&secp::mul_g(&secp::from_be(&w.key)), true), ..w.clone() };
                    if let Ok(ps) = guard(|| snap_xpub(&XPub::from_xpriv(k))) {
                        check_snap(acc, case, "xpub.from_xpriv", "/key-material=uncompressed-flag", &step_in, &ps, &wp, None);
                    }
                }
                match next {
                    Ok(Ok(k)) => cur = k,
                    _ => return,
                }
            }
        }
        LibKey::Pub(x) => {
            if let Ok(s) = guard(|| snap_xpub(&x)) {
                check_snap(acc, case, "xpub.new", "/key-material=uncompressed-form", &input, &s, &root, None);
            }
            let mut cur = x;
            let mut want = Some(root.clone());
            for (i, ci) in path.iter().enumerate() {
                if *ci >= H {
                    return;
                }
                acc.transitions += 1;
                want = want.and_then(|w| b58::bip32_ckd_pub(&w, *ci));
                let next = guard(|| cur.derive(*ci).map_err(|e| e.to_string()));
                let snap = match &next {
                    Ok(Ok(k)) => guard(|| snap_xpub(k)).map(Ok),
                    Ok(Err(e)) => Ok(Err(e.clone())),
                    Err(p) => Err(p.clone()),
                };
                let step_in = json!({"root": input, "step": i, "child_index": ci});
                check_child(acc, case, "xpub.derive", *ci, depth + i as u8, &step_in, snap, want.clone());
                match next {
                    Ok(Ok(k)) => cur = k,
                    _ => return,
                }
            }
        }
    }
}

// ------------------------------------------------------------------ spaces

pub fn spaces(tier: Tier) -> Vec<Space> {
    let tree = Arc::new(Tree::new());
    let n_seeds = tree.seeds.len() as u64;
    let mut v = vec![];

    // 1. master keys
    let t = tree.clone();
    v.push(Space::new("master", n_seeds, move |case, acc| eval_master(&t, case, acc)));

    // 2. every path of depth 1 and 2 over the index alphabet, depth 3 over the full (thorough) or reduced (quick) alphabet
    let d3: Vec<usize> = if tier.is_thorough() { (0..8).collect() } else { D3_QUICK.to_vec() };
    let n_paths = n_seeds * (8 + 64 + (d3.len() as u64).pow(3));
    let t = tree.clone();
    v.push(Space::new("paths", n_paths, move |case, acc| eval_path(&t, &d3, case, acc)));

    // 3. chains of depth 10 and 100: seeds × {cyclic, normal-only, hardened-only} × {10, 100} × 4 routes
    let names = chain_seed_names(tier, false);
    let t = tree.clone();
    v.push(Space::new("chains", names.len() as u64 * 3 * 2 * 4, move |case, acc| {
        let c = coords(case.idx, &[2, names.len() as u64, 3, 4]);
        let len = [10usize, 100][c[0] as usize];
        let seed = &t.seeds[t.seed_named(names[c[1] as usize])];
        let kind = [ChainKind::Cyclic, ChainKind::Normal, ChainKind::Hardened][c[2] as usize];
        let route = c[3] as usize;
        acc.evaluations += 1;
        if case.idx == 0 {
            acc.sample(6, || json!({"space": "chains", "seed_name": seed.name, "chain": kind.name(), "length": len, "route": ROUTE_NAMES[route]}));
        }
        let idxs = kind.indices(len);
        let chain = ref_chain(&seed.bytes, &idxs, route == 0);
        eval_chain_route(acc, case, seed, kind, &idxs, &chain, route);
    }));

    // 4. depth 255 (must work) and 256 (`depth + 1` cannot be represented): isolated, the overflow may panic or abort
    let names = chain_seed_names(tier, true);
    let combos: [(ChainKind, usize); 6] = [(ChainKind::Normal, 0), (ChainKind::Normal, 1), (ChainKind::Normal, 2), (ChainKind::Normal, 3), (ChainKind::Cyclic, 0), (ChainKind::Cyclic, 1)];
    let t = tree.clone();
    v.push(Space::isolated("deep-255-256", names.len() as u64 * 6 * 2, move |case, acc| {
        let c = coords(case.idx, &[2, names.len() as u64, 6]);
        let len = [255usize, 256][c[0] as usize];
        let seed = &t.seeds[t.seed_named(names[c[1] as usize])];
        let (kind, route) = combos[c[2] as usize];
        acc.evaluations += 1;
        if case.idx == 0 {
            acc.sample(7, || json!({"space": "deep-255-256", "seed_name": seed.name, "chain": kind.name(), "length": len, "route": ROUTE_NAMES[route]}));
        }
        let idxs = kind.indices(len);
        let chain = ref_chain(&seed.bytes, &idxs, false);
        eval_chain_route(acc, case, seed, kind, &idxs, &chain, route);
    }));

    // 5. every single-character substitution of valid strings
    let nb: u64 = if tier.is_thorough() { 4 } else { 2 };
    let t = tree.clone();
    v.push(Space::new("corrupt-char", nb * 2 * 111 * 57, move |case, acc| {
        let c = coords(case.idx, &[nb, 2, 111, 57]);
        let base = &t.bases()[c[0] as usize];
        let is_priv = c[1] == 0;
        let (text, key) = if is_priv { (&base.xs, &base.x) } else { (&base.ps, &base.p) };
        let pos = c[2] as usize;
        let mut bytes = text.clone().into_bytes();
        let others: Vec<u8> = B58.iter().copied().filter(|ch| *ch != bytes[pos]).collect();
        bytes[pos] = others[c[3] as usize];
        let s = String::from_utf8(bytes).unwrap();
        if case.idx == 57 * 60 {
            acc.sample(4, || json!({"space": "corrupt-char", "base": base.desc, "kind": kind_name(is_priv), "position": pos, "string": s}));
        }
        check_string(acc, case, is_priv, &s, key, json!({"base": base.desc, "kind": kind_name(is_priv), "valid_string": text, "position": pos, "new_char": (others[c[3] as usize] as char).to_string(), "string": s}));
    }));

    // 6. every single-byte change of the 82 decoded bytes, re-encoded WITHOUT fixing the checksum
    let nvals: u64 = if tier.is_thorough() { 255 } else { 16 };
    let t = tree.clone();
    v.push(Space::new("corrupt-byte", nb * 2 * 82 * nvals, move |case, acc| {
        let c = coords(case.idx, &[nb, 2, 82, nvals]);
        let base = &t.bases()[c[0] as usize];
        let is_priv = c[1] == 0;
        let (text, key) = if is_priv { (&base.xs, &base.x) } else { (&base.ps, &base.p) };
        let mut data = b58::b58_decode(text).unwrap();
        assert!(data.len() == 82);
        let off = c[2] as usize;
        let mask = if nvals == 255 { (c[3] + 1) as u8 } else { XOR16[c[3] as usize] };
        let old = data[off];
        data[off] ^= mask;
        let s = b58::b58_encode(&data);
        let field = match off {
            0..=3 => "version",
            4 => "depth",
            5..=8 => "parent_fingerprint",
            9..=12 => "index",
            13..=44 => "chain_code",
            45..=77 => "key",
            _ => "checksum",
        };
        if case.idx == 20 * nvals {
            acc.sample(5, || json!({"space": "corrupt-byte", "base": base.desc, "kind": kind_name(is_priv), "offset": off, "field": field, "string": s}));
        }
        check_string(acc, case, is_priv, &s, key, json!({"base": base.desc, "kind": kind_name(is_priv), "valid_string": text, "offset": off, "field": field, "old_byte": old, "new_byte": data[off], "string": s}));
    }));

    // 7. payloads of length 74..86 (78 is the only valid one) with a VALID checksum
    let lv = length_variants();
    let nlv = lv.len() as u64;
    let t = tree.clone();
    v.push(Space::new("payload-length", nb * 2 * nlv, move |case, acc| {
        let c = coords(case.idx, &[nb, 2, nlv]);
        let base = &t.bases()[c[0] as usize];
        let is_priv = c[1] == 0;
        let (text, key) = if is_priv { (&base.xs, &base.x) } else { (&base.ps, &base.p) };
        let (len, fill) = lv[c[2] as usize];
        let mut payload = b58::check_decode(text).unwrap();
        assert!(payload.len() == 78);
        payload.resize(len, fill);
        let s = b58::check_encode(&payload);
        check_string(acc, case, is_priv, &s, key, json!({"base": base.desc, "kind": kind_name(is_priv), "valid_string": text, "payload_len": len, "filler": fill, "string": s}));
    }));

    // 7b. byte-level extension and truncation of the raw 82 bytes (payload || checksum) of valid strings, re-encoded in
    //     Base58 WITHOUT touching the checksum bytes: 1..4 bytes appended (00, ff, 01 .. 04), 1..2 zero bytes prepended, the
    //     last 1..4 bytes dropped, a byte inserted in front of the checksum. A decoder that looks for the checksum at a fixed
    //     offset, or that tolerates trailing bytes, accepts some of these; the reference accepts none.
    {
        let t = tree.clone();
        let mut transforms: Vec<(String, Box<dyn Fn(&[u8]) -> Vec<u8> + Send + Sync>)> = vec![];
        for k in 1..=4usize {
            for fill in [0x00u8, 0xff, 0x01] {
                transforms.push((format!("append {} x {:02x}", k, fill), Box::new(move |b: &[u8]| [b, &vec![fill; k][..]].concat())));
            }
            transforms.push((format!("drop the last {} bytes", k), Box::new(move |b: &[u8]| b[..b.len() - k].to_vec())));
        }
        for k in 1..=2usize {
            transforms.push((format!("prepend {} zero bytes", k), Box::new(move |b: &[u8]| [&vec![0u8; k][..], b].concat())));
        }
        for fill in [0x00u8, 0xff] {
            transforms.push((format!("insert {:02x} in front of the checksum", fill), Box::new(move |b: &[u8]| [&b[..78], &[fill][..], &b[78..]].concat())));
        }
        transforms.push(("append the checksum once more".into(), Box::new(|b: &[u8]| [b, &b[78..]].concat())));
        let nt = transforms.len() as u64;
        v.push(Space::new("byte-level-extension", nb * 2 * nt, move |case, acc| {
            let c = coords(case.idx, &[nb, 2, nt]);
            let base = &t.bases()[c[0] as usize];
            let is_priv = c[1] == 0;
            let (text, key) = if is_priv { (&base.xs, &base.x) } else { (&base.ps, &base.p) };
            let raw = b58::b58_decode(text).unwrap();
            assert!(raw.len() == 82);
            let (name, f) = &transforms[c[2] as usize];
            let s = b58::b58_encode(&f(&raw));
            check_string(acc, case, is_priv, &s, key, json!({"base": base.desc, "kind": kind_name(is_priv), "valid_string": text, "raw_bytes_transform": name, "string": s}));
        }));
    }

    // 7a. key material that is not a key, under a VALID checksum (BIP32 test vector 5 classes): xpub key fields that are not
    //     the compressed encoding of a curve point (x not on the curve, x >= p, tags 00 / 04 / 05 / 06 / 07), xprv key fields
    //     with a non-zero pad byte or a scalar outside [1, n-1]
    {
        let t = tree.clone();
        let n_be = hex::decode("fffffffffffffffffffffffffffffffebaaedce6af48a03bbfd25e8cd0364141").unwrap();
        let p_be = hex::decode("fffffffffffffffffffffffffffffffffffffffffffffffffffffffefffffc2f").unwrap();
        let word = |last: u8| -> Vec<u8> {
            let mut v = vec![0u8; 32];
            v[31] = last;
            v
        };
        let mut pub_fields: Vec<(String, Vec<u8>)> = vec![];
        for tag in [2u8, 3] {
            for (name, x) in [("x=5 (not on the curve)", word(5)), ("x=7 (not on the curve)", word(7)), ("x=0", word(0)), ("x=p", p_be.clone()), ("x=2^256-1", vec![0xff; 32])] {
                pub_fields.push((format!("tag {:02x}, {}", tag, name), [vec![tag], x].concat()));
            }
        }
        for tag in [0u8, 1, 4, 5, 6, 7, 0xff] {
            pub_fields.push((format!("tag {:02x} on the x of a valid key", tag), vec![tag]));
        }
        let mut priv_fields: Vec<(String, Vec<u8>)> = vec![];
        for pad in [1u8, 2, 3, 4, 0x80, 0xff] {
            priv_fields.push((format!("pad byte {:02x} in front of a valid scalar", pad), vec![pad]));
        }
        let mut n_plus_1 = n_be.clone();
        n_plus_1[31] += 1;
        for (name, k) in [("scalar 0", word(0)), ("scalar n", n_be.clone()), ("scalar n+1", n_plus_1), ("scalar 2^256-1", vec![0xff; 32])] {
            priv_fields.push((name.to_string(), [vec![0u8], k].concat()));
        }
        let (npub, npriv) = (pub_fields.len() as u64, priv_fields.len() as u64);
        v.push(Space::new("invalid-key-material", nb * (npub + npriv), move |case, acc| {
            let c = coords(case.idx, &[nb, npub + npriv]);
            let base = &t.bases()[c[0] as usize];
            let is_priv = c[1] >= npub;
            let (text, key) = if is_priv { (&base.xs, &base.x) } else { (&base.ps, &base.p) };
            let (desc, field) = if is_priv { &priv_fields[(c[1] - npub) as usize] } else { &pub_fields[c[1] as usize] };
            let mut payload = b58::check_decode(text).unwrap();
            // a one-byte field replaces only the first byte of the 33-byte key field
            payload[45..45 + field.len()].copy_from_slice(field);
            let s = b58::check_encode(&payload);
            if is_priv && field.len() == 1 {
                // a non-zero pad byte under a valid checksum: BIP32 calls the string invalid, but the statement only demands
                // that a corrupted string is not turned into a DIFFERENT key; a decoder that ignores the pad byte and returns
                // the same key is observed and counted, not judged
                if let Ok(Ok(snap)) = lib_from_string(true, &s) {
                    if diff(&snap, key, None).is_empty() {
                        acc.evaluations += 1;
                        acc.bump("nonzero_pad_byte_accepted_as_the_same_key(not judged)", 1);
                        acc.outcome(b"pad-same");
                        return;
                    }
                }
            }
            check_string(acc, case, is_priv, &s, key, json!({"base": base.desc, "kind": kind_name(is_priv), "valid_string": text, "key_field": desc, "string": s}));
        }));
    }

    // 8. seed CONTENT alphabet: text-looking seeds (hex digits in every case, decimal, base58/base64, words, NULs, UTF-8) × lengths,
    //    and the hex text of every binary seed; the bytes must go into HMAC-SHA512 exactly as given
    let lens = content_lens(tier);
    let n_content = (CONTENT.len() * lens.len()) as u64 + 2 * n_seeds;
    let t = tree.clone();
    v.push(Space::new("seed-content", n_content, move |case, acc| eval_content(&t, &lens, case, acc)));

    // 9. field grid: keys assembled with `new` over depth × index × parent fingerprint (incl. None) × key × chain code, both kinds
    let g = grid(tier);
    v.push(Space::new("field-grid", g.size(), move |case, acc| eval_grid(&g, case, acc)));
    // 9b. malformed path components among valid ones: every path of 2..3 components over 4 valid and 10 malformed components (among them hardened-marked numbers of 2^31 and more, whose offset addition overflows) with
    // at least one malformed, through the private and the public path parser - a reference path parser refuses all of them
    {
        let comps: Vec<&'static str> = vec!["0", "1", "2'", "5h", "x", "O", "-1", "2147483648", "99999999999", "1.5", "2147483648'", "4294967295'", "2147483648h", "4294967296"];
        let nc = comps.len() as u64;
        v.push(Space::new("malformed-paths", (nc * nc + nc * nc * nc) * 2, move |case, acc| {
            let c = coords(case.idx, &[nc * nc + nc * nc * nc, 2]);
            let idxs: Vec<usize> = if c[0] < nc * nc { vec![(c[0] / nc) as usize, (c[0] % nc) as usize] } else { let k = c[0] - nc * nc; vec![(k / (nc * nc)) as usize, (k / nc % nc) as usize, (k % nc) as usize] };
            if idxs.iter().all(|i| *i < 4) {
                return; // well-formed: covered by the paths space
            }
            let is_priv = c[1] == 0;
            if !is_priv && idxs.iter().any(|i| *i == 2 || *i == 3) {
                return; // hardened components are refused by the public parser anyway
            }
            let path = format!("m/{}", idxs.iter().map(|i| comps[*i]).collect::<Vec<_>>().join("/"));
            acc.evaluations += 1;
            acc.transitions += 1;
            acc.traces += 1;
            acc.nontrivial_structural += 1;
            let input = json!({"kind": kind_name(is_priv), "path": path});
            let r = guard(|| -> Result<String, String> {
                let m = XPrv::from_seed(&[7u8; 32]).map_err(|e| e.to_string())?;
                if is_priv {
                    m.derive_from_path(&path).and_then(|k| k.to_string()).map_err(|e| e.to_string())
                } else {
                    XPub::from_xpriv(&m).derive_from_path(&path).and_then(|k| k.to_string()).map_err(|e| e.to_string())
                }
            });
            match r {
                Ok(Err(_)) => acc.outcome(b"path-refused"),
                Ok(Ok(k)) => {
                    acc.outcome(b"path-accepted");
                    acc.violate(format!("C08/{}derive_from_path/kind=missing-error-malformed-path", if is_priv { "" } else { "xpub." }), case.idx, case.json(input), format!("a path with a malformed component resolved to {}", k))
                }
                Err(p) => acc.violate(format!("C08/{}derive_from_path/kind=panic@{}", if is_priv { "" } else { "xpub." }, panic_site(&p)), case.idx, case.json(input), p),
            }
        }));
    }
    // 10. the same constructors fed with key material in its non-default form, descendants to depth 4
    let g2 = grid(tier);
    let n10 = 2 * g2.keys.len() as u64 * g2.chains.len() as u64 * 2 * 6;
    v.push(Space::new("uncompressed-key-material", n10, move |case, acc| eval_uncompressed_material(&g2, case, acc)));
    v
}

fn run(ctx: &Ctx) -> Report {
    let mut r = Report::new(
        "master: every seed of the seed alphabet through from_seed (both key kinds). paths: seeds × every path of depth 1..2 over the 8-value index alphabet and depth 3 over the full (thorough) / 4-value (quick) alphabet; per path: iterated derive (final edge compared field by field and as strings with the reference child of the library's own parent), string round trips of xprv and xpub, from_xpriv, derive_from_path in every notation of the hardened components, ExtendedPublicKey::derive on the neutered parent (normal index: equals reference CKDpub, which the reference asserts equal to N(CKDpriv); hardened index: must be Err), public derive_from_path. chains: depth 10/100 (and 255/256 isolated) by four routes, compared at every step. seed-content: the seed bytes are text — 24 content classes (ASCII hex digits in lower/upper/mixed case, letters only, decimal digits, one repeated digit, 0x prefix, trailing newline / NUL, space padding, one non-hex character, embedded NUL, base58 / base64 / xprv-string text, mnemonic words, UTF-8 multi-byte text, spaces, printable punctuation) × lengths on both sides of 16/32/64/128 (thorough: every length 1..=264), plus the lower- and upper-case hex TEXT of every binary seed; same oracle as master (HMAC-SHA512 over the bytes exactly as given). field-grid: ExtendedPrivateKey::new / ExtendedPublicKey::new over depth × index × parent-fingerprint argument (None, zero, extreme, real) × key × chain code: getters and to_string equal refs::b58::bip32_serialize of the same fields, the reference string goes through from_string and must come back with every field and re-serialise identically, from_xpriv keeps the header, one normal and one hardened child equal reference CKDpriv / CKDpub of the same parent (depth 255: must be Err). corruptions: every single-character substitution at each of the 111 positions, every single-byte change of the 82 decoded bytes without fixing the checksum, payload lengths 74..86 with a valid checksum; verdict of refs::b58::bip32_deserialize vs from_string. Non-trivial = library result existed and was compared field by field (derivations), or the candidate string was judged by both decoders (corruptions); cases are distinct by construction of the products.",
    );
    let thorough = ctx.tier.is_thorough();
    let g = grid(ctx.tier);
    r.bounds = json!({
        "seed_lengths_standard": STD_LENS, "seed_lengths_nonstandard": NONSTD_LENS, "seed_patterns": ["00..", "ff..", "01 02 03.."], "bip32_vector_seeds": 4,
        "index_alphabet": IDX, "max_full_path_depth": 3,
        "depth3_alphabet": if thorough { IDX.to_vec() } else { D3_QUICK.iter().map(|p| IDX[*p]).collect::<Vec<_>>() },
        "notations": if thorough { "every assignment of {',h,H} to the hardened components" } else { "uniform ', uniform h, uniform H, one mixed" },
        "chain_depths": [10, 100, 255, 256], "chain_seeds": chain_seed_names(ctx.tier, false), "deep_chain_seeds": chain_seed_names(ctx.tier, true),
        "corrupted_keys": if thorough { 4 } else { 2 }, "corrupted_kinds": ["xprv", "xpub"], "char_substitutions": "111 positions × 57 other characters",
        "byte_changes": if thorough { "82 offsets × 255 other values" } else { "82 offsets × 16 xor masks" }, "payload_lengths_valid_checksum": "74..=86",
        "seed_content_classes": CONTENT.iter().map(|c| c.name).collect::<Vec<_>>(), "seed_content_lengths": if thorough { json!("1..=264") } else { json!(CONTENT_LENS_QUICK) }, "seed_content_hex_text_of_binary_seeds": ["lower", "upper"],
        "grid_kinds": ["xprv", "xpub"], "grid_depths": g.depths, "grid_indices": g.indices,
        "grid_parent_fingerprint_args": g.fps.iter().map(|f| match f { None => "None".to_string(), Some(f) => format!("Some({})", hx(f)) }).collect::<Vec<_>>(),
        "grid_keys": g.keys.iter().map(|k| k.name).collect::<Vec<_>>(), "grid_chain_codes": g.chains.iter().map(|c| c.0).collect::<Vec<_>>(), "grid_child_indices": [1, H],
        "deviation_bound": 1
    });
    r.assumptions.push("seeds of non-standard length (outside 16..64 bytes) are compared only when from_seed accepts them (acceptance is learned; all are accepted on the current tree, see counters)".into());
    r.assumptions.push("the path \"m\" alone, relative paths without \"m\" and decimal components >= 2^31 are pinned as errors by the repository's tests and are excluded; only the standard spellings m/i, m/i', m/ih, m/iH are generated".into());
    r.assumptions.push("depth 256 lies outside 'any depth up to 255' of the statement; the check only demands that the attempt ends in Err (the reference cannot represent depth 256), a panic or a wrapped depth is reported under kind=panic-depth-overflow / missing-error-depth-overflow".into());
    r.assumptions.push("a corrupted string that is a valid key of the other kind (xpub given to the xprv parser) is not generated and would be excluded; panics of from_string on rejected strings count as rejection here (counter panics_left_to_C09)".into());
    r.assumptions.push("CKDpub(N(parent)) == N(CKDpriv(parent)) on the library follows from two comparisons made per normal edge: ExtendedPublicKey::derive == reference CKDpub and from_xpriv(derive) == reference N(CKDpriv), the two reference values being asserted equal".into());
    r.assumptions.push("field-grid: `new(.., None)` is expected to store four zero bytes as the parent fingerprint (learned from the constructor; it is also BIP32's own encoding of 'no parent'). Keys at depth 0 with a non-zero fingerprint or index (the shapes BIP32 test vector 5 calls invalid) are serialised by the reference like any other key; whether from_string accepts them is learned (counters grid_depth0_with_nonzero_fingerprint_or_index_accepted/rejected_by_from_string), only a wrong field after acceptance is reported. Fingerprints that are not 4 bytes long and uncompressed public keys are outside the grid".into());
    r.assumptions.push("seed-content: same acceptance rule as master — seeds of 16..64 bytes must be accepted, other lengths are compared when accepted".into());
    run_spaces_for("C08", ctx, &mut r, spaces(ctx.tier));
    r
}

fn replay(case: &Value) -> Vec<(String, String)> {
    replay_spaces_for("C08", spaces, case)
}
