//! C20 — AES-128/256 in CBC (PKCS#7) and CTR mode: ciphertext equals the standard
//! algorithm (reference: refs::aes, written from FIPS-197 / SP 800-38A and bound to the
//! openssl CLI by oracles/xcheck), decryption inverts encryption, lengths are as stated,
//! and CBC decryption rejects invalid lengths and invalid padding.
//!
//! Only keys of 16/32 bytes and IVs of 16 bytes are fed: wrong sizes belong to C09.
use super::{hx, pattern, replay_spaces, run_spaces, Case, Prop, Space};
use crate::engine::{coords, guard, panic_site, Acc, Ctx, Report, Tier};
use crate::refs::aes as ra;
use bsv::{AESAlgorithms, AES};
use serde_json::{json, Value};

pub const PROP: Prop = Prop {
    run,
    replay,
    spaces: Some(spaces),
    level_note: "trusted base: refs::aes (FIPS-197 cipher, SP 800-38A CBC/CTR, PKCS#7; KAT-checked by selftest and cross-checked against the openssl CLI by oracles/xcheck.py); key/IV/message values outside the stated alphabets are not covered; wrong key/IV sizes are C09's",
};

#[derive(Clone, Copy, PartialEq, Eq)]
enum Mode {
    Cbc128,
    Cbc256,
    Ctr128,
    Ctr256,
}
const MODES: [Mode; 4] = [Mode::Cbc128, Mode::Cbc256, Mode::Ctr128, Mode::Ctr256];

impl Mode {
    fn name(self) -> &'static str {
        match self {
            Mode::Cbc128 => "AES128_CBC",
            Mode::Cbc256 => "AES256_CBC",
            Mode::Ctr128 => "AES128_CTR",
            Mode::Ctr256 => "AES256_CTR",
        }
    }
    fn algo(self) -> AESAlgorithms {
        match self {
            Mode::Cbc128 => AESAlgorithms::AES128_CBC,
            Mode::Cbc256 => AESAlgorithms::AES256_CBC,
            Mode::Ctr128 => AESAlgorithms::AES128_CTR,
            Mode::Ctr256 => AESAlgorithms::AES256_CTR,
        }
    }
    fn is_cbc(self) -> bool {
        matches!(self, Mode::Cbc128 | Mode::Cbc256)
    }
    fn key_len(self) -> usize {
        match self {
            Mode::Cbc128 | Mode::Ctr128 => 16,
            _ => 32,
        }
    }
}

// ---------------------------------------------------------------- alphabets

const LONG_LENS: [usize; 9] = [4097, 5000, 8193, 10000, 16385, 20000, 40000, 65537, 100003];
const LONG_IV_LOW32: [u32; 6] = [0, 0xffffffff, 0xfffffff0, 0xffffff00, 0xfffffe80, 0x7fffff00];
const BIG_PADS: [usize; 10] = [17, 18, 31, 32, 33, 48, 64, 100, 128, 255];
const N_KEYS_QUICK: u64 = 4;
const N_KEYS_THOROUGH: u64 = 8;
const KEY_NAMES: [&str; 8] = ["zero", "ff", "fips197(00 01 02..)", "sp800-38a", "counter(01 02 ..)", "80 00..", "00.. 01", "mixed"];

/// Key alphabet, simplest first. Index 2 is the FIPS-197 appendix C key, index 3 the SP 800-38A key.
fn key(k: u64, len: usize) -> Vec<u8> {
    match k {
        0 => vec![0u8; len],
        1 => vec![0xffu8; len],
        2 => (0..len).map(|i| i as u8).collect(),
        3 => {
            if len == 16 {
                hex::decode("2b7e151628aed2a6abf7158809cf4f3c").unwrap()
            } else {
                hex::decode("603deb1015ca71be2b73aef0857d77811f352c073b6108d72d9810a30914dff4").unwrap()
            }
        }
        4 => pattern(2, len),
        5 => pattern(3, len),
        6 => {
            let mut v = vec![0u8; len];
            v[len - 1] = 1;
            v
        }
        _ => pattern(7, len),
    }
}

const N_IVS_QUICK: u64 = 9;
const N_IVS_THOROUGH: u64 = 14;
const IV_NAMES: [&str; 14] = [
    "zero",
    "sp800-38a-cbc(00 01 .. 0f)",
    "sp800-38a-ctr(f0 f1 .. ff)",
    "..00ff",
    "..ffff",
    "..00ffffff",
    "high64=ff.., low64=2^64-max(1,ceil(len/16))",
    "high64=00.., low64=2^64-max(1,ceil(len/16))",
    "all-ff (low 64 bits wrap as soon as len > 16)",
    "..00ffffffff (carry into byte 11)",
    "..00ffffffffffffff (carry into bit 63 of the low half)",
    "counter(01 02 ..)",
    "80 00..",
    "high64=a5.., low64=2^64-1-max(1,ceil(len/16))",
];

fn low64_iv(high: u8, low: u64) -> [u8; 16] {
    let mut iv = [high; 16];
    iv[8..].copy_from_slice(&low.to_be_bytes());
    iv
}

/// IV alphabet. Some entries depend on the message length (the last counter values that do not wrap).
fn iv(i: u64, msg_len: usize) -> [u8; 16] {
    let blocks = ((msg_len as u64 + 15) / 16).max(1);
    let mut v = [0u8; 16];
    match i {
        0 => {}
        1 => {
            for (j, b) in v.iter_mut().enumerate() {
                *b = j as u8;
            }
        }
        2 => {
            for (j, b) in v.iter_mut().enumerate() {
                *b = 0xf0 + j as u8;
            }
        }
        3 => v[15] = 0xff,
        4 => {
            v[14] = 0xff;
            v[15] = 0xff;
        }
        5 => {
            v[13] = 0xff;
            v[14] = 0xff;
            v[15] = 0xff;
        }
        6 => v = low64_iv(0xff, 0u64.wrapping_sub(blocks)),
        7 => v = low64_iv(0x00, 0u64.wrapping_sub(blocks)),
        8 => v = [0xff; 16],
        9 => {
            for b in v[12..].iter_mut() {
                *b = 0xff;
            }
        }
        10 => {
            v[8] = 0x00;
            for b in v[9..].iter_mut() {
                *b = 0xff;
            }
        }
        11 => v.copy_from_slice(&pattern(2, 16)),
        12 => v[0] = 0x80,
        _ => v = low64_iv(0xa5, 0u64.wrapping_sub(blocks).wrapping_sub(1)),
    }
    v
}

fn lens(tier: Tier) -> Vec<usize> {
    if tier.is_thorough() {
        let mut v: Vec<usize> = (0..=1100).collect();
        v.extend_from_slice(&[511, 512, 513, 4095, 4096, 4097, 20000, 40000]);
        v
    } else {
        let mut v: Vec<usize> = (0..=130).collect();
        v.extend_from_slice(&[255, 256, 257, 4096, 20000]);
        v
    }
}

/// message patterns: counter, 00, ff, mixed
fn msg(p: u64, len: usize) -> Vec<u8> {
    match p {
        0 => pattern(2, len),
        1 => pattern(0, len),
        2 => pattern(1, len),
        _ => pattern(9, len),
    }
}

// ---------------------------------------------------------------- helpers

fn lib_encrypt(m: Mode, key: &[u8], iv: &[u8; 16], msg: &[u8]) -> Result<Result<Vec<u8>, String>, String> {
    guard(|| AES::encrypt(key, iv, msg, m.algo()).map_err(|e| e.to_string()))
}

fn lib_decrypt(m: Mode, key: &[u8], iv: &[u8; 16], ct: &[u8]) -> Result<Result<Vec<u8>, String>, String> {
    guard(|| AES::decrypt(key, iv, ct, m.algo()).map_err(|e| e.to_string()))
}

fn reference_encrypt(m: Mode, key: &[u8], iv: &[u8; 16], msg: &[u8]) -> Vec<u8> {
    if m.is_cbc() {
        ra::cbc_encrypt(key, iv, msg)
    } else {
        ra::ctr_xor(key, iv, msg)
    }
}

fn first_diff(a: &[u8], b: &[u8]) -> String {
    let n = a.len().min(b.len());
    for i in 0..n {
        if a[i] != b[i] {
            return format!("first difference at byte {} (block {})", i, i / 16);
        }
    }
    format!("common prefix of {} bytes, lengths {} vs {}", n, a.len(), b.len())
}

fn outcome_tag(acc: &mut Acc, tag: &[u8], bytes: &[u8]) {
    let mut o = tag.to_vec();
    o.extend_from_slice(&bytes[..bytes.len().min(6)]);
    acc.outcome(&o);
}

// ---------------------------------------------------------------- space 1: encrypt / decrypt agree with the standard

fn eval_roundtrip(case: &Case, acc: &mut Acc, nk: u64, ni: u64, lens: &[usize], np: u64) {
    let c = coords(case.idx, &[4, nk, ni, lens.len() as u64, np]);
    let m = MODES[c[0] as usize];
    let k = key(c[1], m.key_len());
    let len = lens[c[3] as usize];
    let ivb = iv(c[2], len);
    let message = msg(c[4], len);
    if case.idx % 3001 == 0 {
        acc.sample(case.idx, || json!({"space": "enc-dec", "mode": m.name(), "key": KEY_NAMES[c[1] as usize], "iv": IV_NAMES[c[2] as usize], "iv_bytes": hx(&ivb), "msg_len": len, "msg_pattern": c[4]}));
    }
    eval_roundtrip_msg(case, acc, m, k, ivb, message, &format!("{}", c[4]));
}

/// Messages whose END imitates PKCS#7 padding: the last 1, 2 or all bytes equal the pad value the message itself will
/// get (16 - len % 16), or the last byte is 0x01 / the last two are 0x02 0x02 — an unpadding routine that searches for
/// the end of the message instead of trusting the final byte eats such tails.
fn padding_like_message(len: usize, kind: u64) -> Vec<u8> {
    let pad = (16 - len % 16) as u8;
    let mut m: Vec<u8> = (0..len).map(|i| 0x40u8.wrapping_add(i as u8 * 3)).collect();
    let tail: Vec<u8> = match kind {
        0 => vec![pad],
        1 => vec![pad, pad],
        2 => vec![pad; len],
        3 => vec![0x01],
        _ => vec![0x02, 0x02],
    };
    let k = tail.len().min(len);
    m[len - k..].copy_from_slice(&tail[..k]);
    m
}

fn eval_roundtrip_msg(case: &Case, acc: &mut Acc, m: Mode, k: Vec<u8>, ivb: [u8; 16], message: Vec<u8>, pattern_name: &str) {
    let len = message.len();
    let input = json!({"mode": m.name(), "key": hx(&k), "iv": hx(&ivb), "msg_len": len, "msg_pattern": pattern_name, "msg": hx(&message)});
    acc.evaluations += 1;

    // The statement quantifies CTR only over IVs whose low 64 counter bits do not wrap within the
    // message. Wrapping combinations are run for information (no verdict).
    if !m.is_cbc() && ra::ctr_low64_wraps(&ivb, len) {
        acc.transitions += 1;
        acc.bump("ctr_iv_wraps_low64_info_only", 1);
        match lib_encrypt(m, &k, &ivb, &message) {
            Ok(Ok(ct)) => {
                if ct != ra::ctr_xor(&k, &ivb, &message) {
                    acc.bump("ctr_iv_wraps_low64_differs_from_128bit_counter", 1);
                }
            }
            Ok(Err(_)) => acc.bump("ctr_iv_wraps_low64_library_err", 1),
            Err(_) => acc.bump("ctr_iv_wraps_low64_library_panic", 1),
        }
        return;
    }

    let want = reference_encrypt(m, &k, &ivb, &message);
    let want_len = if m.is_cbc() { 16 * (len / 16 + 1) } else { len };
    assert_eq!(want.len(), want_len, "refs::aes produced a ciphertext of unexpected length");
    acc.transitions += 1;
    acc.traces += 1;
    acc.nontrivial_structural += 1;
    let ct = match lib_encrypt(m, &k, &ivb, &message) {
        Err(p) => {
            acc.outcome(b"enc-panic");
            acc.violate(format!("C20/encrypt/mode={}/kind=panic@{}", m.name(), panic_site(&p)), case.idx, case.json(input), p);
            return;
        }
        Ok(Err(e)) => {
            acc.outcome(b"enc-err");
            acc.violate(format!("C20/encrypt/mode={}/kind=spurious-error", m.name()), case.idx, case.json(input), format!("library=Err({}) reference={}", e, hx(&want)));
            return;
        }
        Ok(Ok(ct)) => ct,
    };
    outcome_tag(acc, b"ct", &ct);
    if ct.len() != want_len {
        acc.violate(
            format!("C20/encrypt/mode={}/kind=wrong-length", m.name()),
            case.idx,
            case.json(input.clone()),
            format!("library ciphertext has {} bytes, the standard gives {} for a {}-byte message; library={} reference={}", ct.len(), want_len, len, hx(&ct), hx(&want)),
        );
    } else if ct != want {
        acc.violate(
            format!("C20/encrypt/mode={}/kind=wrong-ciphertext", m.name()),
            case.idx,
            case.json(input.clone()),
            format!("{}; library={} reference={}", first_diff(&ct, &want), hx(&ct), hx(&want)),
        );
    }
    // decrypt what the library produced
    acc.transitions += 1;
    acc.traces += 1;
    check_decrypt(case, acc, m, &k, &ivb, &ct, &message, "own-ciphertext", &input);
    // decrypt the reference ciphertext too when the library's differs (otherwise it is the same call)
    if ct != want {
        acc.transitions += 1;
        acc.traces += 1;
        check_decrypt(case, acc, m, &k, &ivb, &want, &message, "standard-ciphertext", &input);
    }
}

fn check_decrypt(case: &Case, acc: &mut Acc, m: Mode, k: &[u8], ivb: &[u8; 16], ct: &[u8], message: &[u8], what: &str, input: &Value) {
    match lib_decrypt(m, k, ivb, ct) {
        Err(p) => {
            acc.outcome(b"dec-panic");
            acc.violate(format!("C20/decrypt/mode={}/kind=panic@{}", m.name(), panic_site(&p)), case.idx, case.json(input.clone()), format!("decrypting {}: {}", what, p));
        }
        Ok(Err(e)) => {
            acc.outcome(b"dec-err");
            acc.violate(
                format!("C20/decrypt/mode={}/kind=spurious-error/of={}", m.name(), what),
                case.idx,
                case.json(input.clone()),
                format!("decrypt({}={}) = Err({}), expected the {}-byte message", what, hx(ct), e, message.len()),
            );
        }
        Ok(Ok(pt)) => {
            outcome_tag(acc, b"pt", &pt);
            if pt != message {
                acc.violate(
                    format!("C20/decrypt/mode={}/kind=wrong-plaintext/of={}", m.name(), what),
                    case.idx,
                    case.json(input.clone()),
                    format!("decrypt({}) {}; library={} expected={}", what, first_diff(&pt, message), hx(&pt), hx(message)),
                );
            }
        }
    }
}

// ---------------------------------------------------------------- space 2/3: CBC rejection

/// Compare CBC decryption of an arbitrary buffer with the reference: Err exactly when the
/// reference rejects, otherwise the same plaintext. `class` names the way the buffer was made.
fn cbc_decrypt_vs_reference(case: &Case, acc: &mut Acc, m: Mode, k: &[u8], ivb: &[u8; 16], ct: &[u8], class: &str, input: Value) {
    acc.evaluations += 1;
    acc.transitions += 1;
    acc.traces += 1;
    let want = ra::cbc_decrypt(k, ivb, ct);
    if ct.len() % 16 == 0 && !ct.is_empty() {
        // the library has to decrypt and inspect the padding
        acc.nontrivial_structural += 1;
    }
    match (lib_decrypt(m, k, ivb, ct), want) {
        (Err(p), _) => {
            acc.outcome(b"dec-panic");
            acc.violate(format!("C20/decrypt/mode={}/kind=panic@{}/input={}", m.name(), panic_site(&p), class), case.idx, case.json(input), p);
        }
        (Ok(Err(_)), Err(())) => {
            acc.outcome(if ct.len() % 16 == 0 && !ct.is_empty() { b"rej-padding" } else { b"rej-length" });
        }
        (Ok(Ok(pt)), Err(())) => {
            outcome_tag(acc, b"pt", &pt);
            acc.violate(
                format!("C20/decrypt/mode={}/kind=missing-error/input={}", m.name(), class),
                case.idx,
                case.json(input),
                format!("library returned Ok({}) ({} bytes) for a {}-byte ciphertext that the standard rejects", hx(&pt), pt.len(), ct.len()),
            );
        }
        (Ok(Err(e)), Ok(w)) => {
            acc.outcome(b"dec-err");
            acc.violate(format!("C20/decrypt/mode={}/kind=spurious-error/input={}", m.name(), class), case.idx, case.json(input), format!("library=Err({}) reference=Ok({})", e, hx(&w)));
        }
        (Ok(Ok(pt)), Ok(w)) => {
            outcome_tag(acc, b"pt", &pt);
            if pt != w {
                acc.violate(
                    format!("C20/decrypt/mode={}/kind=wrong-plaintext/input={}", m.name(), class),
                    case.idx,
                    case.json(input),
                    format!("{}; library={} reference={}", first_diff(&pt, &w), hx(&pt), hx(&w)),
                );
            }
        }
    }
}

/// 40-byte messages (48-byte ciphertext). Message 1 is all 0x01 so that the truncations to 16 and
/// 32 bytes end in a *valid* padding and must be accepted; message 2 is all 0x10, message 3 all 0x00.
fn trunc_msg(i: u64) -> Vec<u8> {
    match i {
        0 => pattern(2, 40),
        1 => vec![0x01; 40],
        2 => vec![0x10; 40],
        _ => vec![0x00; 40],
    }
}

fn eval_truncation(case: &Case, acc: &mut Acc, nk: u64, ni: u64) {
    let c = coords(case.idx, &[2, nk, ni, 4, 49]);
    let m = MODES[c[0] as usize];
    let k = key(c[1], m.key_len());
    let ivb = iv(c[2], 40);
    let message = trunc_msg(c[3]);
    let full = ra::cbc_encrypt(&k, &ivb, &message);
    assert_eq!(full.len(), 48);
    let t = c[4] as usize;
    let ct = &full[..t];
    if case.idx % 613 == 17 {
        acc.sample(case.idx, || json!({"space": "cbc-truncation", "mode": m.name(), "key": KEY_NAMES[c[1] as usize], "iv": IV_NAMES[c[2] as usize], "msg": hx(&message), "kept_bytes": t}));
    }
    let class = if t == 48 {
        "untruncated"
    } else if t % 16 == 0 && t > 0 {
        "truncated-at-block-boundary"
    } else {
        "truncated-length"
    };
    cbc_decrypt_vs_reference(case, acc, m, &k, &ivb, ct, class, json!({"mode": m.name(), "key": hx(&k), "iv": hx(&ivb), "full_ciphertext": hx(&full), "kept_bytes": t}));
}

/// Final plaintext blocks. (label, block, valid-as-labelled)
fn final_blocks() -> Vec<(String, [u8; 16], bool)> {
    let mut out = vec![];
    for filler in [0xaau8, 0x00, 0x01] {
        let base = [filler; 16];
        // valid paddings 1..=16
        for p in 1..=16usize {
            let mut b = base;
            for j in 0..p {
                b[15 - j] = p as u8;
            }
            out.push((format!("valid-pad-{}", p), b, true));
        }
        // invalid last byte: 0x00 and 0x11..=0xff, rest of the block equal to that byte (a
        // "consistent run" of an illegal value) or filler
        for last in std::iter::once(0u8).chain(0x11..=0xffu8) {
            let mut b = base;
            b[15] = last;
            out.push((format!("last-byte-{:02x}", last), b, false));
        }
        // inconsistent run: last byte p in 2..=16, one byte inside the run differs
        for p in 2..=16usize {
            for j in 1..p {
                for wrong in [(p - 1) as u8, 0x00, (p + 1) as u8] {
                    let mut b = base;
                    for i in 0..p {
                        b[15 - i] = p as u8;
                    }
                    b[15 - j] = wrong;
                    out.push((format!("run-{}-broken-at-{}", p, j), b, false));
                }
            }
        }
    }
    // a block of sixteen illegal equal bytes
    for v in [0x00u8, 0x11, 0x20, 0xff] {
        out.push((format!("all-{:02x}", v), [v; 16], false));
    }
    // different fillers can produce the same block (e.g. sixteen 0x10): keep the first
    let mut seen = std::collections::BTreeSet::new();
    out.retain(|b| seen.insert(b.1));
    out
}

fn eval_padding(case: &Case, acc: &mut Acc, nk: u64, ni: u64, blocks: &[(String, [u8; 16], bool)]) {
    let c = coords(case.idx, &[2, nk, ni, 3, blocks.len() as u64]);
    let m = MODES[c[0] as usize];
    let k = key(c[1], m.key_len());
    let n_prefix = c[3] as usize;
    let ivb = iv(c[2], 16 * (n_prefix + 1));
    let (label, fb, valid) = &blocks[c[4] as usize];
    let mut plain = pattern(2, 16 * n_prefix);
    plain.extend_from_slice(fb);
    let ct = ra::cbc_encrypt_nopad(&k, &ivb, &plain);
    // the labels are only labels: the oracle is refs::aes::cbc_decrypt, but they must agree with it
    let r = ra::cbc_decrypt(&k, &ivb, &ct);
    assert_eq!(r.is_ok(), *valid, "refs::aes::cbc_decrypt disagrees with the construction of final block {}", label);
    if *valid {
        let p = fb[15] as usize;
        assert_eq!(r.as_ref().unwrap()[..], plain[..plain.len() - p]);
    }
    if case.idx % 9973 == 5 {
        acc.sample(case.idx, || json!({"space": "cbc-padding", "mode": m.name(), "key": KEY_NAMES[c[1] as usize], "iv": IV_NAMES[c[2] as usize], "prefix_blocks": n_prefix, "final_plaintext_block": hx(fb), "label": label}));
    }
    let class = if *valid {
        "valid-padding"
    } else if label.starts_with("run-") {
        "inconsistent-padding-run"
    } else {
        "illegal-padding-byte"
    };
    cbc_decrypt_vs_reference(
        case,
        acc,
        m,
        &k,
        &ivb,
        &ct,
        class,
        json!({"mode": m.name(), "key": hx(&k), "iv": hx(&ivb), "padded_plaintext": hx(&plain), "final_block": label, "ciphertext": hx(&ct)}),
    );
}

// ---------------------------------------------------------------- spaces

fn dims(tier: Tier) -> (u64, u64, u64) {
    if tier.is_thorough() {
        (N_KEYS_THOROUGH, N_IVS_THOROUGH, 4)
    } else {
        (N_KEYS_QUICK, N_IVS_QUICK, 3)
    }
}

pub fn spaces(tier: Tier) -> Vec<Space> {
    let (nk, ni, np) = dims(tier);
    let ls = lens(tier);
    let mut v = vec![];
    v.push(Space::new("enc-dec", 4 * nk * ni * ls.len() as u64 * np, move |case, acc| eval_roundtrip(case, acc, nk, ni, &ls, np)));
    // plaintexts whose end imitates PKCS#7 padding (every length 1..=80 x five tail kinds x modes x two keys x two IVs)
    v.push(Space::new("plaintext-ends-like-padding", 4 * 2 * 2 * 80 * 5, move |case, acc| {
        let c = coords(case.idx, &[4, 2, 2, 80, 5]);
        let m = MODES[c[0] as usize];
        let len = c[3] as usize + 1;
        eval_roundtrip_msg(case, acc, m, key(c[1], m.key_len()), iv(c[2], len), padding_like_message(len, c[4]), ["tail=pad", "tail=pad,pad", "all=pad", "tail=01", "tail=02,02"][c[4] as usize]);
    }));
    // rejection legs: fewer IVs are enough (CBC does not interpret the IV), all keys
    let ni_rej: u64 = if tier.is_thorough() { 4 } else { 2 };
    v.push(Space::new("cbc-truncation", 2 * nk * ni_rej * 4 * 49, move |case, acc| eval_truncation(case, acc, nk, ni_rej)));
    // long messages with counters whose low 32 bits carry in the middle of the message (piece-wise keystream generation)
    v.push(Space::new("long-messages", 4 * 2 * LONG_IV_LOW32.len() as u64 * LONG_LENS.len() as u64, move |case, acc| {
        let c = coords(case.idx, &[4, 2, LONG_IV_LOW32.len() as u64, LONG_LENS.len() as u64]);
        let m = MODES[c[0] as usize];
        let k = key(2 + c[1], m.key_len());
        let len = LONG_LENS[c[3] as usize];
        let mut ivb = [0u8; 16];
        for (j, b) in ivb.iter_mut().enumerate() {
            *b = j as u8;
        }
        ivb[12..].copy_from_slice(&LONG_IV_LOW32[c[2] as usize].to_be_bytes());
        let message = msg(0, len);
        let input = json!({"mode": m.name(), "key": hx(&k), "iv": hx(&ivb), "msg_len": len});
        acc.evaluations += 1;
        acc.transitions += 2;
        acc.traces += 1;
        acc.nontrivial_structural += 1;
        let want = reference_encrypt(m, &k, &ivb, &message);
        match lib_encrypt(m, &k, &ivb, &message) {
            Ok(Ok(ct)) => {
                outcome_tag(acc, b"ct", &ct);
                if ct != want {
                    acc.violate(format!("C20/encrypt/mode={}/kind=wrong-ciphertext", m.name()), case.idx, case.json(input.clone()), format!("{}; long message", first_diff(&ct, &want)));
                }
                check_decrypt(case, acc, m, &k, &ivb, &want, &message, "standard-ciphertext", &input);
            }
            Ok(Err(e)) => acc.violate(format!("C20/encrypt/mode={}/kind=spurious-error", m.name()), case.idx, case.json(input), e),
            Err(p) => acc.violate(format!("C20/encrypt/mode={}/kind=panic@{}", m.name(), panic_site(&p)), case.idx, case.json(input), p),
        }
    }));
    // very long messages: sizes beyond every internal piece / buffer size one could plausibly choose (4, 8, 16 MiB)
    v.push(Space::new("very-long-messages", 4 * 4, move |case, acc| {
        let c = coords(case.idx, &[4, 4]);
        let m = MODES[c[0] as usize];
        let k = key(3, m.key_len());
        let len = [4 * 1024 * 1024 + 7usize, 5 * 1024 * 1024 + 123, 8 * 1024 * 1024 + 5, 16 * 1024 * 1024 + 1][c[1] as usize];
        let mut ivb = [0u8; 16];
        for (j, b) in ivb.iter_mut().enumerate() {
            *b = 0xf0 + j as u8;
        }
        let message = msg(0, len);
        let input = json!({"mode": m.name(), "key": hx(&k), "iv": hx(&ivb), "msg_len": len});
        acc.evaluations += 1;
        acc.transitions += 2;
        acc.traces += 1;
        acc.nontrivial_structural += 1;
        let want = reference_encrypt(m, &k, &ivb, &message);
        match lib_encrypt(m, &k, &ivb, &message) {
            Ok(Ok(ct)) => {
                outcome_tag(acc, b"ct", &ct);
                if ct != want {
                    acc.violate(format!("C20/encrypt/mode={}/kind=wrong-ciphertext", m.name()), case.idx, case.json(input.clone()), format!("{}; very long message", first_diff(&ct, &want)));
                }
                check_decrypt(case, acc, m, &k, &ivb, &want, &message, "standard-ciphertext", &input);
            }
            Ok(Err(e)) => acc.violate(format!("C20/encrypt/mode={}/kind=spurious-error", m.name()), case.idx, case.json(input), e),
            Err(p) => acc.violate(format!("C20/encrypt/mode={}/kind=panic@{}", m.name(), panic_site(&p)), case.idx, case.json(input), p),
        }
    }));
    // PKCS#7 pad values above the block size, written consistently over several blocks (p bytes all equal to p, 17 <= p <= 255),
    // and valid ciphertexts followed by 1..15 stray bytes
    v.push(Space::new("cbc-oversized-padding", 2 * 2 * (BIG_PADS.len() as u64 + 15), move |case, acc| {
        let c = coords(case.idx, &[2, 2, BIG_PADS.len() as u64 + 15]);
        let m = MODES[c[0] as usize];
        let k = key(2 + c[1], m.key_len());
        let ivb = iv(1, 16);
        if (c[2] as usize) < BIG_PADS.len() {
            let p = BIG_PADS[c[2] as usize];
            let total = ((p + 15) / 16 + 1) * 16;
            let mut plain = pattern(2, total - p);
            plain.extend(vec![p as u8; p]);
            let ct = ra::cbc_encrypt_nopad(&k, &ivb, &plain);
            cbc_decrypt_vs_reference(case, acc, m, &k, &ivb, &ct, "oversized-padding-value", json!({"mode": m.name(), "pad_value": p, "padded_plaintext": hx(&plain)}));
        } else {
            let extra = c[2] as usize - BIG_PADS.len() + 1;
            let mut ct = ra::cbc_encrypt(&k, &ivb, &pattern(2, 40));
            ct.extend(vec![0x0au8; extra]);
            cbc_decrypt_vs_reference(case, acc, m, &k, &ivb, &ct, "stray-bytes-appended", json!({"mode": m.name(), "stray_bytes": extra}));
        }
    }));
    // two padding bytes broken at once, by the same XOR delta or by +d / -d (a padding check that folds the differences
    // accepts these): every pad value 3..=16 x every pair of positions inside the run x every delta
    {
        let mut table: Vec<(usize, usize, usize)> = vec![];
        for p in 3..=16usize {
            for j1 in 1..p {
                for j2 in (j1 + 1)..p {
                    table.push((p, j1, j2));
                }
            }
        }
        let nt = table.len() as u64;
        v.push(Space::new("cbc-padding-two-broken-bytes", 2 * nt * 255 * 2, move |case, acc| {
            let c = coords(case.idx, &[2, nt, 255, 2]);
            let m = MODES[c[0] as usize];
            let (p, j1, j2) = table[c[1] as usize];
            let d = (c[2] + 1) as u8;
            let k = key(3, m.key_len());
            let ivb = iv(1, 32);
            let mut fb = [0xaau8; 16];
            for i in 0..p {
                fb[15 - i] = p as u8;
            }
            if c[3] == 0 {
                fb[15 - j1] ^= d;
                fb[15 - j2] ^= d;
            } else {
                fb[15 - j1] = fb[15 - j1].wrapping_add(d);
                fb[15 - j2] = fb[15 - j2].wrapping_sub(d);
            }
            let mut plain = pattern(2, 16);
            plain.extend_from_slice(&fb);
            let ct = ra::cbc_encrypt_nopad(&k, &ivb, &plain);
            cbc_decrypt_vs_reference(case, acc, m, &k, &ivb, &ct, "two-padding-bytes-broken", json!({"mode": m.name(), "key": hx(&k), "iv": hx(&ivb), "padded_plaintext": hx(&plain), "ciphertext": hx(&ct)}));
        }));
    }
    let blocks = final_blocks();
    v.push(Space::new("cbc-padding", 2 * nk * ni_rej * 3 * blocks.len() as u64, move |case, acc| eval_padding(case, acc, nk, ni_rej, &blocks)));
    v
}

/// "every length 0..=k, then the listed ones"
fn lens_json(tier: Tier) -> Value {
    let ls = lens(tier);
    let run = ls.iter().enumerate().take_while(|(i, l)| *i == **l).count();
    json!({"every_length_0_to": run - 1, "then": ls[run..].to_vec()})
}

fn run(ctx: &Ctx) -> Report {
    let mut r = Report::new(
        "full cartesian products. enc-dec: 4 modes × key alphabet × IV alphabet × message lengths × message patterns; each case compares AES::encrypt with refs::aes (CBC+PKCS#7 / CTR with a 128-bit big-endian counter), checks the ciphertext length rule and that AES::decrypt returns the message. cbc-truncation: every prefix length 0..=48 of a 48-byte CBC ciphertext (4 messages, two of which make the block-boundary truncations end in valid padding). cbc-padding: ciphertexts made with raw CBC whose final plaintext block ends in each valid padding 1..=16, each illegal last byte 00/11..ff, every single broken byte of every padding run, with 0..=2 preceding blocks; AES::decrypt must be Err exactly when refs::aes::cbc_decrypt rejects and otherwise return the same bytes. Non-trivial = the library processed at least one block and the result was compared with the reference; cases are distinct by construction of the product.",
    );
    let (nk, ni, np) = dims(ctx.tier);
    let fb = final_blocks();
    r.bounds = json!({
        "modes": MODES.iter().map(|m| m.name()).collect::<Vec<_>>(),
        "keys": KEY_NAMES[..nk as usize],
        "ivs": IV_NAMES[..ni as usize],
        "msg_lens": lens_json(ctx.tier),
        "msg_patterns": (["counter", "00", "ff", "mixed"][..np as usize]).to_vec(),
        "truncation_lengths": "0..=48 of a 48-byte ciphertext",
        "final_block_variants": fb.len(),
        "final_block_valid": fb.iter().filter(|b| b.2).count(),
        "prefix_blocks": [0, 1, 2],
        "deviation_bound": 1
    });
    r.assumptions.push("CTR: IV/length combinations whose low 64 counter bits wrap within the message are outside the statement; they are executed and only counted (info ctr_iv_wraps_low64_*)".into());
    r.assumptions.push("only 16/32-byte keys and 16-byte IVs are fed; wrong sizes (Err for CBC, panic for CTR) belong to C09".into());
    r.assumptions.push("which error variant CBC decryption returns is not part of the statement; any Err counts as rejection".into());
    run_spaces(ctx, &mut r, spaces(ctx.tier));
    r
}

fn replay(case: &Value) -> Vec<(String, String)> {
    replay_spaces(spaces, case)
}
