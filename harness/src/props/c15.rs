//! C15 — CHECKSIG / CHECKSIGVERIFY / CHECKMULTISIG / CHECKMULTISIGVERIFY accept
//! exactly valid signatures over the specified sighash preimage (subscript after
//! the last executed OP_CODESEPARATOR, declared value of the spent output).
use super::{hx, replay_spaces, run_spaces, Case, Prop, Space};
use crate::engine::{coords, guard, panic_site, Acc, Ctx, Report, Tier};
use crate::refs::interp::{self as ri, cast_to_bool, Machine, Step};
use crate::refs::script::{self as rs, Tok};
use crate::refs::sighash::{self as sh, Pre};
use crate::refs::wire::{RIn, ROut, RTx};
use crate::refs::{hashes, secp};
use bsv::{Interpreter, P2PKHAddress, PrivateKey, PublicKey, Script, SigHash, Transaction, TxIn, TxOut};
use num_bigint::BigUint;
use num_traits::ToPrimitive;
use serde_json::{json, Value};
use std::sync::Arc;

pub const PROP: Prop = Prop {
    run,
    replay,
    spaces: Some(spaces),
    level_note: "trusted base: refs::interp + the CHECKSIG/CHECKMULTISIG stack protocol written here from bitcoin-sv's interpreter, refs::sighash, refs::secp; only accept/reject is compared (an error and a false result are both 'reject'); SINGLE without a matching output and non-standard flag bytes are excluded; locking scripts are the flat P2PK/P2PKH/multisig families (no conditionals around code separators)",
};

const STD_FLAGS: [u32; 12] = [0x41, 0x42, 0x43, 0xc1, 0xc2, 0xc3, 0x01, 0x02, 0x03, 0x81, 0x82, 0x83];

const KEYS: [&str; 4] = [
    "0000000000000000000000000000000000000000000000000000000000000001",
    "c0ffee254729296a45a3885639ac7e10f9d54979a0f5b2d1e8b1c4a7d3f6e5b9",
    "fffffffffffffffffffffffffffffffebaaedce6af48a03bbfd25e8cd0364140",
    "7fffffffffffffffffffffffffffffff5d576e7357a4501ddfe92f46681b20a0",
];

pub struct Keys {
    d: Vec<BigUint>,
    /// [key][0 = compressed, 1 = uncompressed]
    pk: Vec<[Vec<u8>; 2]>,
}

fn keys() -> Keys {
    let d: Vec<BigUint> = KEYS.iter().map(|k| secp::from_be(&hex::decode(k).unwrap())).collect();
    let pk = d
        .iter()
        .map(|d| {
            let q = secp::mul_g(d);
            [secp::encode_point(&q, true), secp::encode_point(&q, false)]
        })
        .collect();
    Keys { d, pk }
}

struct SpendCtx<'a> {
    tx: &'a RTx,
    idx: usize,
    value: u64,
}

#[derive(Debug, Clone, Copy, PartialEq, Eq)]
enum Verdict {
    Accept,
    Reject,
    /// outside what the statement fixes
    Open,
}

/// None = the prescription is open (non-standard flag, SINGLE without output)
fn ref_check_sig(sig: &[u8], pk: &[u8], subscript: &[Tok], c: &SpendCtx) -> Option<bool> {
    if sig.is_empty() {
        return Some(false);
    }
    let flag = *sig.last().unwrap() as u32;
    if !STD_FLAGS.contains(&flag) {
        return None;
    }
    let Some((r, s)) = secp::der_decode(&sig[..sig.len() - 1]) else {
        return Some(false);
    };
    let Some(q) = secp::decode_point(pk) else {
        return Some(false);
    };
    let pre = match sh::preimage(c.tx, c.idx, &rs::serialize(subscript), c.value, flag) {
        Pre::Bytes(p) => p,
        _ => return None,
    };
    let z = secp::from_be(&hashes::sha256d(&pre)) % secp::n();
    Some(secp::verify(&q, &z, &r, &s))
}

/// Execute unlocking then locking script on the reference machine with the standard signature-opcode protocol.
fn ref_verdict(unlocking: &[Tok], locking: &[Tok], c: &SpendCtx) -> Verdict {
    let mut m = Machine::default();
    for t in unlocking {
        match t {
            Tok::Op(0xac..=0xaf) => return Verdict::Open,
            _ => match m.step(t) {
                Ok(_) => {}
                Err(ri::Fail::Error(_)) => return Verdict::Reject,
                Err(ri::Fail::Ambiguous(_)) => return Verdict::Open,
            },
        }
    }
    if !m.exec.is_empty() {
        return Verdict::Open;
    }
    let mut code_start = 0usize;
    for (i, t) in locking.iter().enumerate() {
        match t {
            Tok::Op(0xab) if m.executing() => {
                code_start = i + 1;
            }
            Tok::Op(op @ (0xac | 0xad)) if m.executing() => {
                if m.stack.len() < 2 {
                    return Verdict::Reject;
                }
                let pk = m.stack.pop().unwrap();
                let sig = m.stack.pop().unwrap();
                let ok = match ref_check_sig(&sig, &pk, &locking[code_start..], c) {
                    Some(b) => b,
                    None => return Verdict::Open,
                };
                if *op == 0xac {
                    m.stack.push(if ok { vec![1] } else { vec![] });
                } else if !ok {
                    return Verdict::Reject;
                }
            }
            Tok::Op(op @ (0xae | 0xaf)) if m.executing() => {
                // n keys.. m sigs.. dummy
                let Some(nk) = m.stack.pop().map(|x| ri::num(&x)) else { return Verdict::Reject };
                let Some(nk) = nk.to_usize().filter(|n| *n <= 20) else { return Verdict::Reject };
                if m.stack.len() < nk {
                    return Verdict::Reject;
                }
                let keys: Vec<Vec<u8>> = m.stack.split_off(m.stack.len() - nk);
                let Some(ns) = m.stack.pop().map(|x| ri::num(&x)) else { return Verdict::Reject };
                let Some(ns) = ns.to_usize().filter(|n| *n <= nk) else { return Verdict::Reject };
                if m.stack.len() < ns {
                    return Verdict::Reject;
                }
                let sigs: Vec<Vec<u8>> = m.stack.split_off(m.stack.len() - ns);
                if m.stack.pop().is_none() {
                    return Verdict::Reject;
                }
                // walk from the last pushed signature/key downwards, as the original implementation does
                let (mut isig, mut ikey) = (sigs.len(), keys.len());
                let mut success = true;
                while success && isig > 0 {
                    if ikey == 0 {
                        success = false;
                        break;
                    }
                    let ok = match ref_check_sig(&sigs[isig - 1], &keys[ikey - 1], &locking[code_start..], c) {
                        Some(b) => b,
                        None => return Verdict::Open,
                    };
                    if ok {
                        isig -= 1;
                    }
                    ikey -= 1;
                    if isig > ikey {
                        success = false;
                    }
                }
                if *op == 0xae {
                    m.stack.push(if success { vec![1] } else { vec![] });
                } else if !success {
                    return Verdict::Reject;
                }
            }
            _ => match m.step(t) {
                Ok(Step::Executed) | Ok(Step::Silent) => {}
                Err(ri::Fail::Error(_)) => return Verdict::Reject,
                Err(ri::Fail::Ambiguous(_)) => return Verdict::Open,
            },
        }
        if m.returned && m.exec.is_empty() {
            break;
        }
    }
    match m.stack.last() {
        Some(top) if cast_to_bool(top) => Verdict::Accept,
        _ => Verdict::Reject,
    }
}

fn lib_verdict(tx: &RTx, idx: usize, value: u64, unlocking: &[u8], locking: &[u8], twin: bool) -> Result<bool, String> {
    let mut t = Transaction::new(tx.version, tx.locktime);
    for (k, i) in tx.inputs.iter().enumerate() {
        let script = if k == idx { Script::from_bytes(unlocking) } else { Script::from_bytes(&i.script) }.map_err(|e| format!("script: {}", e))?;
        let mut txin = TxIn::new(&i.txid_display(), i.vout, &script, Some(i.sequence));
        if k == idx {
            txin.set_locking_script(&Script::from_bytes(locking).map_err(|e| format!("locking: {}", e))?);
            txin.set_satoshis(value);
        }
        t.add_input(&txin);
    }
    for o in &tx.outputs {
        t.add_output(&TxOut::new(o.value, &Script::from_bytes(&o.script).map_err(|e| format!("out: {}", e))?));
    }
    let verdict = |it: &mut Interpreter| match it.run() {
        Ok(()) => it.state().stack.last().map(|x| cast_to_bool(x)).unwrap_or(false),
        Err(_) => false,
    };
    let mut it = match Interpreter::from_transaction(&t, idx) {
        Ok(i) => i,
        Err(_) => return Ok(false),
    };
    let v1 = verdict(&mut it);
    if !twin {
        return Ok(v1);
    }
    // the script that is executed is the input's unlocking script followed by its locking script; the constructor that takes
    // the transaction and the script elements explicitly must reach the same verdict
    let fin = t.get_input(idx).ok_or("no input")?.get_finalised_script().map_err(|e| format!("get_finalised_script: {}", e))?;
    let want: Vec<u8> = [unlocking, locking].concat();
    if fin.to_bytes() != want {
        return Err(format!("TxIn::get_finalised_script = {} but unlocking ++ locking = {}", hx(&fin.to_bytes()), hx(&want)));
    }
    let mut it2 = Interpreter::from_transaction_and_script_bits(t.clone(), idx, fin.to_script_bits());
    let v2 = verdict(&mut it2);
    if v1 != v2 {
        return Err(format!("Interpreter::from_transaction accepts={} but from_transaction_and_script_bits on the same transaction and finalised script accepts={}", v1, v2));
    }
    Ok(v1)
}

fn push(x: &[u8]) -> Tok {
    if x.is_empty() {
        Tok::Op(0)
    } else {
        rs::minimal_push(x)
    }
}

fn small(n: usize) -> Tok {
    Tok::Op(0x50 + n as u8)
}

fn base_tx(n_in: usize, n_out: usize) -> RTx {
    RTx {
        version: 0x01020304,
        locktime: 0x0a0b0c0d,
        inputs: (0..n_in)
            .map(|k| {
                let mut t = [0u8; 32];
                for (i, x) in t.iter_mut().enumerate() {
                    *x = (i as u8).wrapping_mul(7).wrapping_add(31 * (k as u8 + 1));
                }
                // the other inputs already carry unlocking scripts when this input is verified
                RIn { txid_wire: t, vout: 0x0200 + k as u32, script: vec![0x02, 0xa0 + k as u8, 0x07, 0x51], sequence: [0x01020304u32, 0xfffffffe, 0x00000005][k % 3] }
            })
            .collect(),
        outputs: (0..n_out).map(|k| ROut { value: 0x0102030405060700 + k as u64, script: vec![0x76, 0xa9, 0x01, k as u8, 0x88, 0xac] }).collect(),
    }
}

/// Reference signer: DER(r, low s) || flag over the specified preimage (optionally over the byte-reversed digest).
fn ref_sign(d: &BigUint, tx: &RTx, idx: usize, subscript: &[Tok], value: u64, flag: u32, reversed_digest: bool) -> Option<Vec<u8>> {
    let pre = match sh::preimage(tx, idx, &rs::serialize(subscript), value, flag) {
        Pre::Bytes(p) => p,
        _ => return None,
    };
    let mut digest = hashes::sha256d(&pre);
    if reversed_digest {
        digest.reverse();
    }
    let z = secp::from_be(&digest) % secp::n();
    let k = secp::rfc6979_k(d, &digest, &[]);
    let s = secp::sign_with_k(d, &z, &k, true)?;
    let mut sig = secp::der_encode(&s.r, &s.s);
    sig.push(flag as u8);
    Some(sig)
}

/// Reference signer with a caller-chosen nonce (used to reach DER encodings of unusual length).
fn ref_sign_k(d: &BigUint, tx: &RTx, idx: usize, subscript: &[Tok], value: u64, flag: u32, k: &BigUint) -> Option<(Vec<u8>, usize, usize)> {
    let pre = match sh::preimage(tx, idx, &rs::serialize(subscript), value, flag) {
        Pre::Bytes(p) => p,
        _ => return None,
    };
    let digest = hashes::sha256d(&pre);
    let z = secp::from_be(&digest) % secp::n();
    let s = secp::sign_with_k(d, &z, k, true)?;
    let mut sig = secp::der_encode(&s.r, &s.s);
    sig.push(flag as u8);
    Some((sig, s.r.to_bytes_be().len(), s.s.to_bytes_be().len()))
}

#[derive(Clone)]
struct Family {
    name: String,
    /// locking script tokens
    locking: Vec<Tok>,
    /// indices of the signing keys, in unlocking order
    signers: Vec<usize>,
    /// extra pushes after the signatures (P2PKH public key)
    tail: Vec<Vec<u8>>,
    multisig: bool,
}

fn families(ks: &Keys, form: usize) -> Vec<Family> {
    let mut v = vec![];
    for verify in [false, true] {
        let suffix = |op: u8| -> Vec<Tok> { if verify { vec![Tok::Op(op + 1), Tok::Op(0x51)] } else { vec![Tok::Op(op)] } };
        let vn = if verify { "VERIFY" } else { "" };
        // P2PK
        let mut l = vec![push(&ks.pk[1][form])];
        l.extend(suffix(0xac));
        v.push(Family { name: format!("P2PK/CHECKSIG{}", vn), locking: l, signers: vec![1], tail: vec![], multisig: false });
        // P2PKH
        let h = hashes::hash160(&ks.pk[1][form]);
        let mut l = vec![Tok::Op(0x76), Tok::Op(0xa9), push(&h), Tok::Op(0x88)];
        l.extend(suffix(0xac));
        v.push(Family { name: format!("P2PKH/CHECKSIG{}", vn), locking: l, signers: vec![1], tail: vec![ks.pk[1][form].clone()], multisig: false });
        // m-of-n multisig for all 1 <= m <= n <= 3, every ordered m-subset of signers (wrong orders included)
        for n in 1..=3usize {
            for m in 1..=n {
                let mut subsets: Vec<Vec<usize>> = vec![];
                fn rec(n: usize, m: usize, cur: &mut Vec<usize>, out: &mut Vec<Vec<usize>>) {
                    if cur.len() == m {
                        out.push(cur.clone());
                        return;
                    }
                    for k in 0..n {
                        if !cur.contains(&k) {
                            cur.push(k);
                            rec(n, m, cur, out);
                            cur.pop();
                        }
                    }
                }
                rec(n, m, &mut vec![], &mut subsets);
                for sub in subsets {
                    let mut l = vec![small(m)];
                    for k in 0..n {
                        l.push(push(&ks.pk[k][form]));
                    }
                    l.push(small(n));
                    l.extend(suffix(0xae));
                    v.push(Family { name: format!("{}-of-{} signers {:?}/CHECKMULTISIG{}", m, n, sub, vn), locking: l, signers: sub, tail: vec![], multisig: true });
                }
            }
        }
    }
    v
}

/// locking script variants with OP_CODESEPARATOR inserted at token boundaries (none, one, two)
fn with_separators(locking: &[Tok], variant: usize) -> Vec<Tok> {
    let n = locking.len();
    // variant 0: none; 1..=n+1: one separator at boundary variant-1; then pairs (first, last boundary) and (0, middle)
    let mut l = locking.to_vec();
    if variant == 0 {
        return l;
    }
    if variant <= n + 1 {
        l.insert(variant - 1, Tok::Op(0xab));
        return l;
    }
    match variant - (n + 2) {
        0 => {
            l.insert(n, Tok::Op(0xab));
            l.insert(0, Tok::Op(0xab));
        }
        _ => {
            l.insert(n / 2, Tok::Op(0xab));
            l.insert(0, Tok::Op(0xab));
        }
    }
    l
}

fn n_sep_variants(locking: &[Tok]) -> usize {
    locking.len() + 4
}

/// The subscript a signer uses: after the last separator that will have executed before the signature opcode.
fn signing_subscript(locking: &[Tok]) -> Vec<Tok> {
    let sigop = locking.iter().position(|t| matches!(t, Tok::Op(0xac..=0xaf))).unwrap_or(locking.len());
    let start = locking[..sigop].iter().rposition(|t| *t == Tok::Op(0xab)).map(|i| i + 1).unwrap_or(0);
    locking[start..].to_vec()
}

struct Spend {
    tx: RTx,
    idx: usize,
    value: u64,
    unlocking: Vec<Tok>,
    locking: Vec<Tok>,
}

fn judge(acc: &mut Acc, case: &Case, sp: &Spend, what: &str, mutation: &str, must_accept: bool) {
    acc.evaluations += 1;
    acc.transitions += 1;
    let c = SpendCtx { tx: &sp.tx, idx: sp.idx, value: sp.value };
    let want = ref_verdict(&sp.unlocking, &sp.locking, &c);
    if want == Verdict::Open {
        acc.bump("open_prescription_not_compared", 1);
        return;
    }
    let (ub, lb) = (rs::serialize(&sp.unlocking), rs::serialize(&sp.locking));
    let input = || json!({"family": what, "mutation": mutation, "tx_hex": hx(&sp.tx.encode()), "input_index": sp.idx, "value": sp.value, "unlocking_hex": hx(&ub), "locking_hex": hx(&lb)});
    acc.traces += 1;
    acc.nontrivial_structural += 1;
    let fam = what.split('/').next().unwrap_or(what).split(' ').next().unwrap_or(what);
    let kindfam = if fam.contains("-of-") { "multisig" } else { fam };
    match guard(|| lib_verdict(&sp.tx, sp.idx, sp.value, &ub, &lb, case.idx % 5 == 0)) {
        Ok(Ok(lib_ok)) => {
            acc.outcome(&[lib_ok as u8, (want == Verdict::Accept) as u8]);
            if must_accept && want != Verdict::Accept {
                acc.violate("machinery/reference-rejects-unmutated-spend", case.idx, case.json(input()), "harness error: the reference rejects a spend it signed itself");
                return;
            }
            if lib_ok && want == Verdict::Reject {
                acc.violate(format!("C15/{}/kind=accepts-invalid/mutation={}", kindfam, mutation_class(mutation)), case.idx, case.json(input()), "interpreter accepts; reference: signatures are not valid for the specified preimage / keys / order");
            }
            if !lib_ok && want == Verdict::Accept {
                acc.violate(format!("C15/{}/kind=rejects-valid/mutation={}", kindfam, mutation_class(mutation)), case.idx, case.json(input()), "interpreter rejects; reference: every signature verifies over the specified preimage");
            }
        }
        Ok(Err(e)) => acc.violate(format!("C15/{}/kind=cannot-build-spend", kindfam), case.idx, case.json(input()), e),
        Err(p) => acc.violate(format!("C15/{}/kind=panic@{}", kindfam, panic_site(&p)), case.idx, case.json(input()), p),
    }
}

fn mutation_class(m: &str) -> String {
    let base = m.split(':').next().unwrap_or(m);
    match base.find("@sig") {
        Some(i) => format!("{}@later-signature", &base[..i]),
        None => base.to_string(),
    }
}

/// All single-field mutations of a signed spend.
fn mutations(sp: &Spend, ks: &Keys, form: usize, fam: &Family) -> Vec<(String, Spend)> {
    let mut out: Vec<(String, Spend)> = vec![];
    let clone = |f: &dyn Fn(&mut Spend)| -> Spend {
        let mut s = Spend { tx: sp.tx.clone(), idx: sp.idx, value: sp.value, unlocking: sp.unlocking.clone(), locking: sp.locking.clone() };
        f(&mut s);
        s
    };
    out.push(("version".into(), clone(&|s| s.tx.version ^= 1)));
    out.push(("locktime".into(), clone(&|s| s.tx.locktime ^= 0x100)));
    out.push(("declared-value".into(), clone(&|s| s.value ^= 1)));
    for k in 0..sp.tx.inputs.len() {
        out.push((format!("input-txid:{}", k), clone(&|s| s.tx.inputs[k].txid_wire[5] ^= 0x80)));
        out.push((format!("input-vout:{}", k), clone(&|s| s.tx.inputs[k].vout ^= 1)));
        out.push((format!("input-sequence:{}", k), clone(&|s| s.tx.inputs[k].sequence ^= 0x00010000)));
    }
    for k in 0..sp.tx.outputs.len() {
        out.push((format!("output-value:{}", k), clone(&|s| s.tx.outputs[k].value ^= 1)));
        out.push((format!("output-script:{}", k), clone(&|s| s.tx.outputs[k].script[3] ^= 0x40)));
    }
    out.push(("add-output".into(), clone(&|s| s.tx.outputs.push(ROut { value: 9, script: vec![0x51] }))));
    if !sp.tx.outputs.is_empty() {
        out.push(("remove-output".into(), clone(&|s| {
            s.tx.outputs.pop();
        })));
    }
    // the key in the locking script replaced by another key (P2PK / multisig) or the pushed key (P2PKH)
    let other = ks.pk[3][form].clone();
    out.push(("locking-key".into(), clone(&|s| {
        if let Some(p) = s.locking.iter().position(|t| matches!(t, Tok::Push(d) if d.len() == 33 || d.len() == 65)) {
            s.locking[p] = push(&other);
        } else if let Some(p) = s.unlocking.iter().rposition(|t| matches!(t, Tok::Push(d) if d.len() == 33 || d.len() == 65)) {
            s.unlocking[p] = push(&other);
        }
    })));
    // signature mutations on every signature position
    let sig_positions: Vec<usize> = sp.unlocking.iter().enumerate().filter(|(_, t)| matches!(t, Tok::Push(d) | Tok::PushData(_, d) if d.len() > 60 && d[0] == 0x30)).map(|(i, _)| i).collect();
    for (which, p) in sig_positions.iter().copied().enumerate() {
        let sig: Vec<u8> = match &sp.unlocking[p] {
            Tok::Push(d) | Tok::PushData(_, d) => d.clone(),
            _ => vec![],
        };
        let tag = if which == 0 { String::new() } else { format!("@sig{}", which) };
        let rlen = sig[3] as usize;
        out.push((format!("sig-r-bit{}", tag), clone(&|s| {
            let mut x = sig.clone();
            x[4 + rlen - 1] ^= 0x01;
            s.unlocking[p] = push(&x);
        })));
        out.push((format!("sig-s-bit{}", tag), clone(&|s| {
            let mut x = sig.clone();
            let l = x.len();
            x[l - 2] ^= 0x01;
            s.unlocking[p] = push(&x);
        })));
        let flag = *sig.last().unwrap() as u32;
        for f in STD_FLAGS {
            if f != flag {
                out.push((format!("flag-byte{}:0x{:02x}", tag, f), clone(&|s| {
                    let mut x = sig.clone();
                    let l = x.len();
                    x[l - 1] = f as u8;
                    s.unlocking[p] = push(&x);
                })));
            }
        }
        let signer = fam.signers[which.min(fam.signers.len() - 1)];
        let sub = signing_subscript(&sp.locking);
        if let Some(rev) = ref_sign(&ks.d[signer], &sp.tx, sp.idx, &sub, sp.value, flag, true) {
            out.push((format!("sig-over-reversed-digest{}", tag), clone(&|s| s.unlocking[p] = push(&rev))));
        }
        if let Some(by_other) = ref_sign(&ks.d[3], &sp.tx, sp.idx, &sub, sp.value, flag, false) {
            out.push((format!("sig-by-another-key{}", tag), clone(&|s| s.unlocking[p] = push(&by_other))));
        }
        out.push((format!("sig-empty{}", tag), clone(&|s| s.unlocking[p] = Tok::Op(0))));
        // malleated encodings of the SAME (r, s): a stray byte between the DER body and the flag byte (flag-valued and not) -
        // the item is no longer "DER followed by one flag byte", so it is not a valid signature whatever r and s are
        for (name, stray) in [("flag-valued", if flag as u8 == 0x41 { 0x01u8 } else { 0x41 }), ("same-as-flag", flag as u8), ("zero", 0x00)] {
            out.push((format!("sig-stray-byte-before-flag{}:{}", tag, name), clone(&|s| {
                let mut x = sig.clone();
                let l = x.len();
                x.insert(l - 1, stray);
                s.unlocking[p] = push(&x);
            })));
        }
    }
    out
}

fn build_spend(ks: &Keys, fam: &Family, locking: Vec<Tok>, tx: RTx, idx: usize, value: u64, flag: u32) -> Option<Spend> {
    build_spend_flags(ks, fam, locking, tx, idx, value, &[flag])
}

/// signer k uses flags[k % flags.len()]
fn build_spend_flags(ks: &Keys, fam: &Family, locking: Vec<Tok>, tx: RTx, idx: usize, value: u64, flags: &[u32]) -> Option<Spend> {
    let sub = signing_subscript(&locking);
    let mut unlocking = vec![];
    if fam.multisig {
        unlocking.push(Tok::Op(0));
    }
    for (k, s) in fam.signers.iter().enumerate() {
        unlocking.push(push(&ref_sign(&ks.d[*s], &tx, idx, &sub, value, flags[k % flags.len()], false)?));
    }
    for t in &fam.tail {
        unlocking.push(push(t));
    }
    Some(Spend { tx, idx, value, unlocking, locking })
}

pub fn spaces(tier: Tier) -> Vec<Space> {
    let ks = Arc::new(keys());
    let thorough = tier.is_thorough();
    let mut v = vec![];
    let shapes: Vec<(usize, usize, usize)> = {
        let mut s = vec![];
        let max = if thorough { 3 } else { 2 };
        for n_in in 1..=max {
            for n_out in 1..=max {
                for idx in 0..n_in {
                    s.push((n_in, n_out, idx));
                }
            }
        }
        s
    };
    let shapes = Arc::new(shapes);
    let ns = shapes.len() as u64;
    let values: [u64; 4] = [0, 1, (1u64 << 32) + 1, u64::MAX];

    // (1) reference-signed spends of every family x separator variant x flag x shape; unmutated and every single-field mutation
    for form in 0..2usize {
        let fams = Arc::new(families(&ks, form));
        let nf = fams.len() as u64;
        let max_sep = fams.iter().map(|f| n_sep_variants(&f.locking)).max().unwrap() as u64;
        let (ks2, shapes2, fams2) = (ks.clone(), shapes.clone(), fams.clone());
        let nvals = if thorough { 4 } else { 1 };
        v.push(Space::new(&format!("ref-signed/{}", if form == 0 { "compressed" } else { "uncompressed" }), nf * max_sep * 12 * ns * nvals, move |case, acc| {
            let c = coords(case.idx, &[nf, max_sep, 12, ns, nvals]);
            let fam = &fams2[c[0] as usize];
            if c[1] as usize >= n_sep_variants(&fam.locking) {
                return;
            }
            let locking = with_separators(&fam.locking, c[1] as usize);
            let flag = STD_FLAGS[c[2] as usize];
            let (n_in, n_out, idx) = shapes2[c[3] as usize];
            if flag & 0x1f == 3 && idx >= n_out {
                return; // SINGLE without a matching output: open
            }
            // mutations only on a sub-grid to bound cost: first separator variants, all flags, first value
            let value = values[c[4] as usize];
            let Some(sp) = build_spend(&ks2, fam, locking, base_tx(n_in, n_out), idx, value, flag) else { return };
            if c[1] == 1 && c[2] == 0 && c[3] == 0 && c[4] == 0 {
                acc.sample(case.idx, || json!({"space": "ref-signed", "family": fam.name, "locking_hex": hex::encode(rs::serialize(&sp.locking)), "unlocking_hex": hex::encode(rs::serialize(&sp.unlocking))}));
            }
            let in_order = fam.signers.windows(2).all(|w| w[0] < w[1]);
            judge(acc, case, &sp, &fam.name, if in_order { "none" } else { "signers-out-of-order" }, in_order);
        }));
    }
    // (1b) every single-field mutation of signed spends, on a sub-grid of families / separator variants / shapes
    for form in 0..2usize {
        let all = families(&ks, form);
        let pick: Vec<Family> = all
            .into_iter()
            .filter(|f| {
                let n = &f.name;
                let plain = !n.ends_with("VERIFY");
                (n.starts_with("P2PK/") || n.starts_with("P2PKH/")) || (plain && (n.starts_with("1-of-1") || n.starts_with("2-of-2 signers [0, 1]") || n.starts_with("2-of-3 signers [0, 2]") || n.starts_with("2-of-3 signers [2, 0]") || n.starts_with("3-of-3 signers [0, 1, 2]"))) || (thorough && n.contains("-of-"))
            })
            .collect();
        let fams = Arc::new(pick);
        let nf = fams.len() as u64;
        let ks2 = ks.clone();
        let mshapes: Vec<(usize, usize, usize)> = if thorough { vec![(1, 1, 0), (2, 2, 1), (3, 3, 1), (3, 2, 0)] } else { vec![(1, 1, 0), (2, 2, 1)] };
        let nms = mshapes.len() as u64;
        v.push(Space::new(&format!("mutations/{}", if form == 0 { "compressed" } else { "uncompressed" }), nf * 3 * 12 * nms, move |case, acc| {
            let c = coords(case.idx, &[nf, 3, 12, nms]);
            let fam = &fams[c[0] as usize];
            let sepv = [0usize, 1, n_sep_variants(&fam.locking) - 1][c[1] as usize];
            let locking = with_separators(&fam.locking, sepv);
            let flag = STD_FLAGS[c[2] as usize];
            let (n_in, n_out, idx) = mshapes[c[3] as usize];
            if flag & 0x1f == 3 && idx >= n_out {
                return;
            }
            let Some(sp) = build_spend(&ks2, fam, locking, base_tx(n_in, n_out), idx, 0x0000000100000001, flag) else { return };
            for (name, m) in mutations(&sp, &ks2, form, fam) {
                judge(acc, case, &m, &fam.name, &name, false);
            }
        }));
    }
    // (1c) multisig where every co-signer uses a different flag byte (all ordered pairs/triples rotate through the 12 flags)
    {
        let fams: Vec<Family> = families(&ks, 0).into_iter().filter(|f| f.multisig && f.signers.len() >= 2 && !f.name.ends_with("VERIFY") && f.signers.windows(2).all(|w| w[0] < w[1])).collect();
        let fams = Arc::new(fams);
        let nf = fams.len() as u64;
        let ks2 = ks.clone();
        v.push(Space::new("multisig-mixed-flags", nf * 12 * 11 * 2, move |case, acc| {
            let c = coords(case.idx, &[nf, 12, 11, 2]);
            let fam = &fams[c[0] as usize];
            let f1 = STD_FLAGS[c[1] as usize];
            let f2 = STD_FLAGS[((c[1] + 1 + c[2]) % 12) as usize];
            let (n_in, n_out, idx) = if c[3] == 0 { (1, 1, 0) } else { (2, 2, 1) };
            let Some(sp) = build_spend_flags(&ks2, fam, fam.locking.clone(), base_tx(n_in, n_out), idx, 0x55aa, &[f1, f2]) else { return };
            judge(acc, case, &sp, &fam.name, "co-signers-use-different-flags", true);
        }));
    }
    // (1e) larger transactions: every (n_in, n_out, idx) up to N x N, all flags; the unmutated spend must be accepted and a
    // mutation of EACH input's vout / sequence and EACH output's value is judged by the reference (position dependence)
    {
        let all = families(&ks, 0);
        let pick: Vec<Family> = all.into_iter().filter(|f| f.name == "P2PKH/CHECKSIG" || f.name == "2-of-3 signers [0, 2]/CHECKMULTISIG").collect();
        let fams = Arc::new(pick);
        let nf = fams.len() as u64;
        let nmax = if thorough { 8usize } else { 5 };
        let mut sh3: Vec<(usize, usize, usize)> = vec![];
        for n_in in 1..=nmax {
            for n_out in 1..=nmax {
                for idx in 0..n_in {
                    sh3.push((n_in, n_out, idx));
                }
            }
        }
        let n3 = sh3.len() as u64;
        let ks2 = ks.clone();
        v.push(Space::new("larger-shapes", nf * n3 * 12, move |case, acc| {
            let c = coords(case.idx, &[nf, n3, 12]);
            let fam = &fams[c[0] as usize];
            let (n_in, n_out, idx) = sh3[c[1] as usize];
            let flag = STD_FLAGS[c[2] as usize];
            if flag & 0x1f == 3 && idx >= n_out {
                return;
            }
            let Some(sp) = build_spend(&ks2, fam, fam.locking.clone(), base_tx(n_in, n_out), idx, 0x0000000200000003, flag) else { return };
            judge(acc, case, &sp, &fam.name, "none", true);
            let clone = |f: &dyn Fn(&mut Spend)| -> Spend {
                let mut s = Spend { tx: sp.tx.clone(), idx: sp.idx, value: sp.value, unlocking: sp.unlocking.clone(), locking: sp.locking.clone() };
                f(&mut s);
                s
            };
            for k in 0..n_in {
                judge(acc, case, &clone(&|s| s.tx.inputs[k].vout ^= 0x0100), &fam.name, &format!("input-vout:{}", k), false);
                judge(acc, case, &clone(&|s| s.tx.inputs[k].sequence ^= 0x01000000), &fam.name, &format!("input-sequence:{}", k), false);
            }
            for k in 0..n_out {
                judge(acc, case, &clone(&|s| s.tx.outputs[k].value ^= 0x0100), &fam.name, &format!("output-value:{}", k), false);
            }
        }));
    }
    // (1f) multisig with repeated keys and repeated signers: n keys drawn from {K0, K1} (every tuple), m of them required,
    // signatures by every m-tuple of signers over {K0, K1} (with repetition) - the verdict is the reference's
    {
        let mut fams: Vec<Family> = vec![];
        for n in 2..=3usize {
            for kt in 0..(1usize << n) {
                let keyidx: Vec<usize> = (0..n).map(|i| (kt >> i) & 1).collect();
                for m in 1..=n {
                    for st in 0..(1usize << m) {
                        let signers: Vec<usize> = (0..m).map(|i| (st >> i) & 1).collect();
                        let mut l = vec![small(m)];
                        for k in &keyidx {
                            l.push(push(&ks.pk[*k][0]));
                        }
                        l.push(small(n));
                        l.push(Tok::Op(0xae));
                        fams.push(Family { name: format!("{}-of-{} keys {:?} signers {:?}/CHECKMULTISIG", m, n, keyidx, signers), locking: l, signers, tail: vec![], multisig: true });
                    }
                }
            }
        }
        let fams = Arc::new(fams);
        let nf = fams.len() as u64;
        let ks2 = ks.clone();
        v.push(Space::new("multisig-repeated-keys", nf * 12, move |case, acc| {
            let c = coords(case.idx, &[nf, 12]);
            let fam = &fams[c[0] as usize];
            let Some(sp) = build_spend(&ks2, fam, fam.locking.clone(), base_tx(2, 2), 1, 77, STD_FLAGS[c[1] as usize]) else { return };
            judge(acc, case, &sp, &fam.name, "repeated-keys-or-signers", false);
        }));
    }
    // (1g) signatures whose DER encoding is unusually short: nonce 1/2 mod n gives a 21-byte r; the locktime is searched
    // until s also loses at least one leading byte. Valid spends, so the interpreter must accept them.
    {
        let fams: Vec<Family> = families(&ks, 0).into_iter().filter(|f| f.name == "P2PK/CHECKSIG" || f.name == "P2PKH/CHECKSIG" || f.name == "1-of-2 signers [1]/CHECKMULTISIG" || f.name == "2-of-2 signers [0, 1]/CHECKMULTISIG").collect();
        let fams = Arc::new(fams);
        let nf = fams.len() as u64;
        let ks2 = ks.clone();
        v.push(Space::new("short-der-signatures", nf * 12 * 2, move |case, acc| {
            let c = coords(case.idx, &[nf, 12, 2]);
            let fam = &fams[c[0] as usize];
            let flag = STD_FLAGS[c[1] as usize];
            let half_inv = (secp::n() + 1u32) >> 1; // 1/2 mod n
            let sub = signing_subscript(&fam.locking);
            let mut tx = base_tx(2, 2);
            let mut found = None;
            for lt in 0..4000u32 {
                tx.locktime = lt;
                let sigs: Option<Vec<(Vec<u8>, usize, usize)>> = fam.signers.iter().map(|sg| ref_sign_k(&ks2.d[*sg], &tx, 0, &sub, 4242, flag, &half_inv)).collect();
                let Some(sigs) = sigs else { return };
                if c[2] == 0 || sigs.iter().any(|x| x.2 < 32) {
                    found = Some(sigs);
                    break;
                }
            }
            let Some(sigs) = found else {
                acc.bump("short_s_not_found_within_search", 1);
                return;
            };
            acc.bump(&format!("short_sig_total_len_{}", sigs[0].0.len()), 1);
            let mut unlocking = vec![];
            if fam.multisig {
                unlocking.push(Tok::Op(0));
            }
            for sg in &sigs {
                unlocking.push(push(&sg.0));
            }
            for t in &fam.tail {
                unlocking.push(push(t));
            }
            let sp = Spend { tx, idx: 0, value: 4242, unlocking, locking: fam.locking.clone() };
            judge(acc, case, &sp, &fam.name, "short-der-signature", true);
        }));
    }
    // (1h) signature opcodes inside conditional branches, OP_CODESEPARATOR at every token boundary (inside taken and
    // not-taken branches, before and after the conditional): IF <A> CHECKSIG ELSE <B> CHECKSIG ENDIF selected by the
    // unlocking script; the signer signs the subscript after the last EXECUTED separator; the right and the wrong key sign
    {
        let ks2 = ks.clone();
        let base_len = 7usize;
        let nvar = (base_len + 4) as u64;
        v.push(Space::new("conditional-branches", nvar * 2 * 2 * 12 * 2, move |case, acc| {
            let c = coords(case.idx, &[nvar, 2, 2, 12, 2]);
            let base: Vec<Tok> = vec![Tok::Op(0x63), push(&ks2.pk[0][0]), Tok::Op(0xac), Tok::Op(0x67), push(&ks2.pk[1][1]), Tok::Op(0xac), Tok::Op(0x68)];
            let locking = with_separators(&base, c[0] as usize);
            let take_if = c[1] == 0;
            let right_key = c[2] == 0;
            let flag = STD_FLAGS[c[3] as usize];
            let (n_in, n_out, idx) = if c[4] == 0 { (1, 1, 0) } else { (3, 2, 1) };
            // subscript after the last executed separator before the executed signature opcode
            let mut m = Machine::default();
            let _ = m.step(&if take_if { Tok::Op(0x51) } else { Tok::Op(0x00) });
            let mut code_start = 0usize;
            for (i, t) in locking.iter().enumerate() {
                match t {
                    Tok::Op(0xab) if m.executing() => code_start = i + 1,
                    Tok::Op(0xac) if m.executing() => break,
                    Tok::Op(0xac) => {}
                    _ => {
                        let _ = m.step(t);
                    }
                }
            }
            let sub = locking[code_start..].to_vec();
            let branch_key = if take_if { 0 } else { 1 };
            let signer = if right_key { branch_key } else { 1 - branch_key };
            let tx = base_tx(n_in, n_out);
            if flag & 0x1f == 3 && idx >= n_out {
                return;
            }
            let Some(sig) = ref_sign(&ks2.d[signer], &tx, idx, &sub, 9000, flag, false) else { return };
            let unlocking = vec![push(&sig), if take_if { Tok::Op(0x51) } else { Tok::Op(0x00) }];
            let sp = Spend { tx, idx, value: 9000, unlocking, locking };
            // The property quantifies over the flat P2PK / P2PKH / multisig families. A signature opcode inside a conditional
            // is outside that domain, so these spends are OBSERVED, not judged: the counters below end up in the evidence.
            // (Observed on the pinned tree: a separator executed inside or after a taken branch gives a subscript that differs
            // from "everything after the separator", because taken branches are spliced into the running script.)
            acc.evaluations += 1;
            acc.transitions += 1;
            let c2 = SpendCtx { tx: &sp.tx, idx: sp.idx, value: sp.value };
            let want = ref_verdict(&sp.unlocking, &sp.locking, &c2);
            let (ub, lb) = (rs::serialize(&sp.unlocking), rs::serialize(&sp.locking));
            match guard(|| lib_verdict(&sp.tx, sp.idx, sp.value, &ub, &lb, case.idx % 5 == 0)) {
                Ok(Ok(lib_ok)) => {
                    let agree = (want == Verdict::Accept) == lib_ok;
                    acc.outcome(&[7, lib_ok as u8, (want == Verdict::Accept) as u8]);
                    acc.bump(if agree { "outside_quantifier/conditional_branch_spends_agreeing_with_reference" } else { "outside_quantifier/conditional_branch_spends_differing_from_reference" }, 1);
                    if lib_ok && want == Verdict::Reject && !right_key {
                        // accepting a signature by the wrong key is wrong for any script: judged
                        judge(acc, case, &sp, "P2PK-in-conditional/CHECKSIG", "sig-by-the-other-branch-key", false);
                    }
                }
                Ok(Err(_)) => acc.bump("outside_quantifier/conditional_branch_spends_not_constructible", 1),
                Err(p) => acc.violate(format!("C15/P2PK-in-conditional/kind=panic@{}", panic_site(&p)), case.idx, case.json(json!({"unlocking_hex": hx(&ub), "locking_hex": hx(&lb)})), p),
            }
        }));
    }
    // (1d) histories on ONE library object: sign on it (fills its sighash cache), attach the unlocking script, mutate it
    // through the API, then interpret that same object — the verdict must follow the object's current contents
    {
        v.push(Space::new("api-object-history", 4 * 12 * API_MUTATIONS.len() as u64 * 2, move |case, acc| {
            let c = coords(case.idx, &[4, 12, API_MUTATIONS.len() as u64, 2]);
            api_history_case(acc, case, c[0] as usize, STD_FLAGS[c[1] as usize], API_MUTATIONS[c[2] as usize], c[3] as usize);
        }));
    }
    // (2) spends assembled and signed through the library's own API (standard forms, no separators) must be accepted
    {
        let (ks2, shapes2) = (ks.clone(), shapes.clone());
        v.push(Space::new("library-assembled", 3 * 2 * 12 * ns * 2 * 2, move |case, acc| {
            let c = coords(case.idx, &[3, 2, 12, ns, 2, 2]);
            let with_k = c[5] == 1;
            let form = c[1] as usize;
            let flag = STD_FLAGS[c[2] as usize];
            let (n_in, n_out, idx) = shapes2[c[3] as usize];
            if flag & 0x1f == 3 && idx >= n_out {
                return;
            }
            let value = values[c[4] as usize + 1];
            let tx = base_tx(n_in, n_out);
            acc.evaluations += 1;
            acc.transitions += 3;
            let famname = ["P2PK", "P2PKH", "2-of-3"][c[0] as usize];
            let input = json!({"family": famname, "signed_with": if with_k { "Transaction::sign_with_k" } else { "Transaction::sign" }, "compressed": form == 0, "flag": format!("0x{:02x}", flag), "n_in": n_in, "n_out": n_out, "idx": idx, "value": value});
            let res = guard(|| -> Result<(Vec<u8>, Vec<u8>), String> {
                let es = |e: bsv::BSVErrors| e.to_string();
                let mut t = Transaction::from_bytes(&tx.encode()).map_err(es)?;
                let sighash = SigHash::try_from(flag as u8).map_err(es)?;
                let privs: Vec<PrivateKey> = KEYS.iter().map(|k| PrivateKey::from_hex(k).unwrap().compress_public_key(form == 0)).collect();
                let pubs: Vec<PublicKey> = privs.iter().map(|p| p.to_public_key().unwrap()).collect();
                let nonce = PrivateKey::from_hex(KEYS[3]).map_err(es)?;
                let mut sign = |t: &mut Transaction, k: &PrivateKey, locking: &Script| if with_k { t.sign_with_k(k, &nonce, sighash, idx, locking, value) } else { t.sign(k, sighash, idx, locking, value) };
                match c[0] {
                    0 => {
                        let locking = Script::from_asm_string(&format!("{} OP_CHECKSIG", pubs[1].to_hex().map_err(es)?)).map_err(es)?;
                        let sig = sign(&mut t, &privs[1], &locking).map_err(es)?;
                        let unlocking = Script::from_asm_string(&sig.to_hex().map_err(es)?).map_err(es)?;
                        Ok((unlocking.to_bytes(), locking.to_bytes()))
                    }
                    1 => {
                        let addr = P2PKHAddress::from_pubkey(&pubs[1]).map_err(es)?;
                        let locking = addr.get_locking_script().map_err(es)?;
                        let sig = sign(&mut t, &privs[1], &locking).map_err(es)?;
                        let unlocking = addr.get_unlocking_script(&pubs[1], &sig).map_err(es)?;
                        Ok((unlocking.to_bytes(), locking.to_bytes()))
                    }
                    _ => {
                        let locking = Script::from_asm_string(&format!("OP_2 {} {} {} OP_3 OP_CHECKMULTISIG", pubs[0].to_hex().map_err(es)?, pubs[1].to_hex().map_err(es)?, pubs[2].to_hex().map_err(es)?)).map_err(es)?;
                        let s0 = sign(&mut t, &privs[0], &locking).map_err(es)?;
                        let s2 = sign(&mut t, &privs[2], &locking).map_err(es)?;
                        let unlocking = Script::from_asm_string(&format!("OP_0 {} {}", s0.to_hex().map_err(es)?, s2.to_hex().map_err(es)?)).map_err(es)?;
                        Ok((unlocking.to_bytes(), locking.to_bytes()))
                    }
                }
            });
            match res {
                Ok(Ok((ub, lb))) => {
                    let (Ok(ut), Ok(lt)) = (rs::tokenize(&ub), rs::tokenize(&lb)) else { return };
                    let sp = Spend { tx, idx, value, unlocking: ut, locking: lt };
                    let c2 = SpendCtx { tx: &sp.tx, idx, value };
                    let want = ref_verdict(&sp.unlocking, &sp.locking, &c2);
                    acc.traces += 1;
                    acc.nontrivial_structural += 1;
                    let lib_ok = guard(|| lib_verdict(&sp.tx, idx, value, &ub, &lb, true));
                    acc.outcome(&[9, matches!(lib_ok, Ok(Ok(true))) as u8, (want == Verdict::Accept) as u8]);
                    if !matches!(lib_ok, Ok(Ok(true))) {
                        acc.violate("C15/library-assembled/kind=own-spend-rejected", case.idx, case.json(input.clone()), format!("interpreter verdict {:?}; reference verdict {:?}", lib_ok, want));
                    }
                    if want == Verdict::Reject {
                        acc.violate("C15/library-assembled/kind=own-signature-invalid-for-specified-preimage", case.idx, case.json(input), "the library's signature does not verify over the specified preimage (signer and interpreter share a deviation)");
                    }
                }
                Ok(Err(e)) => acc.violate("C15/library-assembled/kind=cannot-assemble", case.idx, case.json(input), e),
                Err(p) => acc.violate(format!("C15/library-assembled/kind=panic@{}", panic_site(&p)), case.idx, case.json(input), p),
            }
        }));
    }
    v
}

const API_MUTATIONS: [&str; 11] = ["none", "other-input-sequence", "other-input-vout", "own-input-sequence", "output-value", "add-output", "version", "locktime", "add-outputs(two)", "add-inputs(two)", "observe-then-add-inputs(two)"];

/// fam 0 = P2PK, 1 = P2PKH signed with Transaction::sign; 2, 3 = the same signed with Transaction::sign_with_k.
/// Everything happens on one Transaction object.
fn api_history_case(acc: &mut Acc, case: &Case, fam4: usize, flag: u32, mutation: &str, idx: usize) {
    let (fam, with_k) = (fam4 % 2, fam4 >= 2);
    acc.evaluations += 1;
    acc.transitions += 5;
    let value = 0x0000000200000003u64;
    let model0 = base_tx(2, 2);
    if flag & 0x1f == 3 && idx >= model0.outputs.len() {
        return;
    }
    let input = json!({"family": if fam == 0 { "P2PK" } else { "P2PKH" }, "signed_with": if with_k { "Transaction::sign_with_k" } else { "Transaction::sign" }, "flag": format!("0x{:02x}", flag), "mutation_after_signing": mutation, "input_index": idx});
    let other = 1 - idx;
    let res = guard(|| -> Result<(bool, Vec<u8>, Vec<u8>), String> {
        let es = |e: bsv::BSVErrors| e.to_string();
        let privk = PrivateKey::from_hex(KEYS[1]).map_err(es)?;
        let pubk = privk.to_public_key().map_err(es)?;
        let locking = if fam == 0 { Script::from_asm_string(&format!("{} OP_CHECKSIG", pubk.to_hex().map_err(es)?)).map_err(es)? } else { P2PKHAddress::from_pubkey(&pubk).map_err(es)?.get_locking_script().map_err(es)? };
        let mut t = Transaction::new(model0.version, model0.locktime);
        for i in &model0.inputs {
            t.add_input(&TxIn::new(&i.txid_display(), i.vout, &Script::default(), Some(i.sequence)));
        }
        for o in &model0.outputs {
            t.add_output(&TxOut::new(o.value, &Script::from_bytes(&o.script).map_err(es)?));
        }
        let sighash = SigHash::try_from(flag as u8).map_err(es)?;
        let sig = if with_k { t.sign_with_k(&privk, &PrivateKey::from_hex(KEYS[3]).map_err(es)?, sighash, idx, &locking, value).map_err(es)? } else { t.sign(&privk, sighash, idx, &locking, value).map_err(es)? };
        let unlocking = if fam == 0 { Script::from_asm_string(&sig.to_hex().map_err(es)?).map_err(es)? } else { P2PKHAddress::from_pubkey(&pubk).map_err(es)?.get_unlocking_script(&pubk, &sig).map_err(es)? };
        // attach scripts and value to the signed input (same outpoint, same sequence)
        let mut own = t.get_input(idx).ok_or("no input")?;
        own.set_unlocking_script(&unlocking);
        own.set_locking_script(&locking);
        own.set_satoshis(value);
        t.set_input(idx, &own);
        match mutation {
            "other-input-sequence" => {
                let mut o = t.get_input(other).ok_or("no input")?;
                o.set_sequence(o.get_sequence() ^ 0x00010000);
                t.set_input(other, &o);
            }
            "other-input-vout" => {
                let mut o = t.get_input(other).ok_or("no input")?;
                o.set_vout(o.get_vout() ^ 1);
                t.set_input(other, &o);
            }
            "own-input-sequence" => {
                let mut o = t.get_input(idx).ok_or("no input")?;
                o.set_sequence(o.get_sequence() ^ 0x00010000);
                t.set_input(idx, &o);
            }
            "output-value" => {
                let o = t.get_output(0).ok_or("no output")?;
                t.set_output(0, &TxOut::new(o.get_satoshis() ^ 1, &o.get_script_pub_key()));
            }
            "add-output" => t.add_output(&TxOut::new(9, &Script::from_bytes(&[0x51]).map_err(es)?)),
            "add-outputs(two)" => t.add_outputs(vec![TxOut::new(9, &Script::from_bytes(&[0x51]).map_err(es)?), TxOut::new(10, &Script::from_bytes(&[0x52]).map_err(es)?)]),
            "add-inputs(two)" | "observe-then-add-inputs(two)" => {
                if mutation.starts_with("observe") {
                    let _ = t.sighash_preimage(sighash, idx, &locking, value);
                }
                t.add_inputs(vec![TxIn::new(&[0x44u8; 32], 3, &Script::default(), Some(9)), TxIn::new(&[0x45u8; 32], 4, &Script::default(), Some(10))]);
            }
            "version" => {
                t.set_version(model0.version ^ 1);
            }
            "locktime" => {
                t.set_nlocktime(model0.locktime ^ 0x100);
            }
            _ => {}
        }
        let ok = match Interpreter::from_transaction(&t, idx) {
            Ok(mut it) => match it.run() {
                Ok(()) => it.state().stack.last().map(|x| cast_to_bool(x)).unwrap_or(false),
                Err(_) => false,
            },
            Err(_) => false,
        };
        Ok((ok, unlocking.to_bytes(), locking.to_bytes()))
    });
    match res {
        Ok(Ok((lib_ok, ub, lb))) => {
            // reference verdict on the object's final contents
            let mut m = model0.clone();
            match mutation {
                "other-input-sequence" => m.inputs[other].sequence ^= 0x00010000,
                "other-input-vout" => m.inputs[other].vout ^= 1,
                "own-input-sequence" => m.inputs[idx].sequence ^= 0x00010000,
                "output-value" => m.outputs[0].value ^= 1,
                "add-output" => m.outputs.push(ROut { value: 9, script: vec![0x51] }),
                "add-outputs(two)" => {
                    m.outputs.push(ROut { value: 9, script: vec![0x51] });
                    m.outputs.push(ROut { value: 10, script: vec![0x52] });
                }
                "add-inputs(two)" | "observe-then-add-inputs(two)" => {
                    let mut t1 = [0x44u8; 32];
                    t1.reverse();
                    m.inputs.push(RIn { txid_wire: t1, vout: 3, script: vec![], sequence: 9 });
                    m.inputs.push(RIn { txid_wire: [0x45u8; 32], vout: 4, script: vec![], sequence: 10 });
                }
                "version" => m.version ^= 1,
                "locktime" => m.locktime ^= 0x100,
                _ => {}
            }
            let (Ok(ut), Ok(lt)) = (rs::tokenize(&ub), rs::tokenize(&lb)) else { return };
            let want = ref_verdict(&ut, &lt, &SpendCtx { tx: &m, idx, value });
            if want == Verdict::Open {
                return;
            }
            acc.traces += 1;
            acc.nontrivial_structural += 1;
            acc.outcome(&[7, lib_ok as u8, (want == Verdict::Accept) as u8]);
            if mutation == "none" && want == Verdict::Reject {
                // nothing was changed after signing: a standard spend signed through the library's own API must be valid
                acc.violate(format!("C15/api-object-history/kind=own-signature-invalid-for-specified-preimage/signer={}", if with_k { "sign_with_k" } else { "sign" }), case.idx, case.json(input), "the library's own signature on the unmutated object does not verify over the preimage its flag byte selects");
            } else if lib_ok && want == Verdict::Reject {
                acc.violate(format!("C15/api-object-history/kind=accepts-invalid/mutation={}", mutation), case.idx, case.json(input), "the interpreter accepts the mutated object; the signature does not cover its current contents");
            } else if !lib_ok && want == Verdict::Accept {
                acc.violate(format!("C15/api-object-history/kind=rejects-valid/mutation={}", mutation), case.idx, case.json(input), "the interpreter rejects although the signature covers the object's current contents");
            }
        }
        Ok(Err(e)) => acc.violate("C15/api-object-history/kind=cannot-assemble", case.idx, case.json(input), e),
        Err(p) => acc.violate(format!("C15/api-object-history/kind=panic@{}", panic_site(&p)), case.idx, case.json(input), p),
    }
}

fn run(ctx: &Ctx) -> Report {
    let mut r = Report::new(
        "reference-signed spends: locking families P2PK, P2PKH, m-of-n multisig for all 1<=m<=n<=3 with every ordered m-subset of signers (wrong orders included), each in plain and VERIFY form, keys in both SEC1 forms x OP_CODESEPARATOR at every token boundary (none/one/two) x the twelve standard flag bytes x spending shapes (n_in, n_out, input index) x spent values; every unmutated spend plus, on a sub-grid, every single-field mutation (version, locktime, declared value, each input's txid/vout/sequence, each output's value/script, add/remove output, key, one bit of r, one bit of s, flag byte to each other flag, signature over the byte-reversed digest, signature by another key, empty signature). Expected accept/reject is computed by the reference machine + reference sighash + reference ECDSA. Library-assembled standard spends (Transaction::sign, P2PKHAddress::get_unlocking_script, asm) must be accepted. Non-trivial = the reference prescribes accept or reject; distinct by construction.",
    );
    r.bounds = json!({"flags": STD_FLAGS.iter().map(|f| format!("0x{:02x}", f)).collect::<Vec<_>>(), "keys": KEYS, "max_inputs_outputs": if ctx.tier.is_thorough() {3} else {2}, "multisig": "1<=m<=n<=3"});
    r.assumptions.push("SIGHASH_SINGLE with no output at the input index and non-standard flag bytes are not compared".into());
    run_spaces(ctx, &mut r, spaces(ctx.tier));
    r
}

fn replay(case: &Value) -> Vec<(String, String)> {
    replay_spaces(spaces, case)
}
